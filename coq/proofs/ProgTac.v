(* ProgTac.v -- composition lemmas for [all_calls] / [no_panic] and the
   stepping tactic used by the all-responses proofs. *)
From PV Require Import Prog.
Open Scope N_scope.

Lemma ac_bind {A B} (P : call -> Prop) (p : prog A) (f : A -> prog B) :
  all_calls P p -> (forall a, all_calls P (f a)) -> all_calls P (bind p f).
Proof.
  intros Hp Hf. induction Hp as [a | c k Hc Hk IH | s | ]; cbn.
  - apply Hf.
  - constructor; [exact Hc|]. intro r. apply IH.
  - constructor.
  - constructor.
Qed.

Lemma ac_bindR {A B E} (P : call -> Prop) (p : prog (result A E)) (f : A -> prog (result B E)) :
  all_calls P p -> (forall a, all_calls P (f a)) -> all_calls P (bindR p f).
Proof.
  intros Hp Hf. unfold bindR. apply ac_bind; [exact Hp|].
  intros [a|e]; [apply Hf | constructor].
Qed.

Lemma ac_map_err {A E F} (P : call -> Prop) (g : E -> F) (p : prog (result A E)) :
  all_calls P p -> all_calls P (map_err g p).
Proof. intro Hp. unfold map_err. apply ac_bind; [exact Hp|]. intro; constructor. Qed.

Lemma ac_weaken {A} (P Q : call -> Prop) (p : prog A) :
  (forall c, P c -> Q c) -> all_calls P p -> all_calls Q p.
Proof. intros HPQ Hp. induction Hp; constructor; auto. Qed.

Lemma ac_and {A} (P Q : call -> Prop) (p : prog A) :
  all_calls P p -> all_calls Q p -> all_calls (fun c => P c /\ Q c) p.
Proof.
  intros Hp. induction Hp as [a | c k Hc Hk IH | s | ]; intro Hq; inversion Hq; subst.
  - constructor.
  - constructor; [split; assumption|]. intro r.
    match goal with H : forall r, all_calls Q _ |- _ => apply IH, H end.
  - constructor.
  - constructor.
Qed.

Lemma ac_call1 (P : call -> Prop) c : P c -> all_calls P (call1 c).
Proof. intro H. constructor; [exact H|]. intro; constructor. Qed.

Lemma np_bind {A B} (p : prog A) (f : A -> prog B) :
  no_panic p -> (forall a, no_panic (f a)) -> no_panic (bind p f).
Proof.
  intros Hp Hf. induction Hp as [a | c k Hk IH | ]; cbn.
  - apply Hf.
  - constructor. intro r. apply IH.
  - constructor.
Qed.

Lemma np_bindR {A B E} (p : prog (result A E)) (f : A -> prog (result B E)) :
  no_panic p -> (forall a, no_panic (f a)) -> no_panic (bindR p f).
Proof.
  intros Hp Hf. unfold bindR. apply np_bind; [exact Hp|].
  intros [a|e]; [apply Hf | constructor].
Qed.

Lemma np_map_err {A E F} (g : E -> F) (p : prog (result A E)) :
  no_panic p -> no_panic (map_err g p).
Proof. intro Hp. unfold map_err. apply np_bind; [exact Hp|]. intro; constructor. Qed.

(* One step of an all_calls / no_panic proof: peel the head constructor, split
   binds, case on the scrutinee of a match.  Hint databases [ac] / [np] hold
   the lemmas about sub-programs. *)
Create HintDb ac.
Create HintDb np.

Ltac ac_step :=
  match goal with
  | |- all_calls _ (Ret _) => constructor
  | |- all_calls _ (Panic _) => constructor
  | |- all_calls _ OutOfFuel => constructor
  | |- all_calls _ (Call _ _) => constructor; [ | intro ]
  | |- all_calls _ (call1 _) => apply ac_call1
  | |- all_calls _ (close _) => unfold close
  | |- all_calls _ (bindR _ _) => apply ac_bindR; [ | intro ]
  | |- all_calls _ (bind _ _) => apply ac_bind; [ | intro ]
  | |- all_calls _ (map_err _ _) => apply ac_map_err
  | |- all_calls _ (match ?x with _ => _ end) => destruct x eqn:?
  | |- all_calls _ (let '(_, _) := ?x in _) => destruct x eqn:?
  end.

Ltac np_step :=
  match goal with
  | |- no_panic (Ret _) => constructor
  | |- no_panic OutOfFuel => constructor
  | |- no_panic (Call _ _) => constructor; intro
  | |- no_panic (close _) => unfold close
  | |- no_panic (bindR _ _) => apply np_bindR; [ | intro ]
  | |- no_panic (bind _ _) => apply np_bind; [ | intro ]
  | |- no_panic (map_err _ _) => apply np_map_err
  | |- no_panic (match ?x with _ => _ end) => destruct x eqn:?
  | |- no_panic (let '(_, _) := ?x in _) => destruct x eqn:?
  end.

(* ---- combined judgement: every call satisfies P, every reachable Panic site
   satisfies S, and the result satisfies Q ------------------------------------ *)
Inductive okp {A} (P : call -> Prop) (S : N -> Prop) (Q : A -> Prop) : prog A -> Prop :=
| ok_ret a : Q a -> okp P S Q (Ret a)
| ok_call c k : P c -> (forall r, okp P S Q (k r)) -> okp P S Q (Call c k)
| ok_panic s : S s -> okp P S Q (Panic s)
| ok_fuel : okp P S Q OutOfFuel.

Lemma okp_bind {A B} P S (Q1 : A -> Prop) (Q2 : B -> Prop) (p : prog A) (f : A -> prog B) :
  okp P S Q1 p -> (forall a, Q1 a -> okp P S Q2 (f a)) -> okp P S Q2 (bind p f).
Proof.
  intros Hp Hf. induction Hp as [a Ha | c k Hc Hk IH | s Hs | ]; cbn.
  - apply Hf, Ha.
  - constructor; [exact Hc|]. intro r. apply IH.
  - constructor. exact Hs.
  - constructor.
Qed.

Lemma okp_weaken {A} P S (Q1 Q2 : A -> Prop) (p : prog A) :
  okp P S Q1 p -> (forall a, Q1 a -> Q2 a) -> okp P S Q2 p.
Proof. intros Hp H. induction Hp; constructor; auto. Qed.

Lemma okp_weaken_P {A} (P1 P2 : call -> Prop) S (Q : A -> Prop) (p : prog A) :
  (forall c, P1 c -> P2 c) -> okp P1 S Q p -> okp P2 S Q p.
Proof. intros H Hp. induction Hp; constructor; auto. Qed.

Lemma okp_all_calls {A} P S (Q : A -> Prop) (p : prog A) : okp P S Q p -> all_calls P p.
Proof. intro Hp. induction Hp; constructor; auto. Qed.

(* "only the Panic sites in S are reachable, whatever the answers are" *)
Inductive only_panics {A} (S : N -> Prop) : prog A -> Prop :=
| op_ret a : only_panics S (Ret a)
| op_call c k : (forall r, only_panics S (k r)) -> only_panics S (Call c k)
| op_panic s : S s -> only_panics S (Panic s)
| op_fuel : only_panics S OutOfFuel.

Lemma okp_only_panics {A} P S (Q : A -> Prop) (p : prog A) : okp P S Q p -> only_panics S p.
Proof. intro Hp. induction Hp; constructor; auto. Qed.

Lemma only_panics_none_no_panic {A} (p : prog A) : only_panics (fun _ => False) p -> no_panic p.
Proof. intro H. induction H; try constructor; auto. contradiction. Qed.

Definition okR {A E} (Qa : A -> Prop) (r : result A E) : Prop :=
  match r with Ok a => Qa a | Err _ => True end.

Lemma okp_bindR {A B E} P S (Qa : A -> Prop) (Q2 : result B E -> Prop)
      (p : prog (result A E)) (f : A -> prog (result B E)) :
  okp P S (okR Qa) p -> (forall a, Qa a -> okp P S Q2 (f a)) -> (forall e, Q2 (Err e)) ->
  okp P S Q2 (bindR p f).
Proof.
  intros Hp Hf He. unfold bindR. eapply okp_bind; [exact Hp|].
  intros [a|e] Hq; [apply Hf, Hq | constructor; apply He].
Qed.

Lemma okp_map_err {A E F} P S (Qa : A -> Prop) (g : E -> F) (p : prog (result A E)) :
  okp P S (okR Qa) p -> okp P S (okR Qa) (map_err g p).
Proof.
  intro Hp. unfold map_err. eapply okp_bind; [exact Hp|].
  intros [a|e] Hq; constructor; exact Hq.
Qed.

Lemma okR_err {A E} (Qa : A -> Prop) (e : E) : okR Qa (Err e).
Proof. exact I. Qed.
#[export] Hint Resolve okR_err : core.

(* ---- program equivalence (same calls, same continuations pointwise): program
   equality without functional extensionality ------------------------------------------ *)
Inductive peq {A} : prog A -> prog A -> Prop :=
| pe_ret a : peq (Ret a) (Ret a)
| pe_call c k k' : (forall r, peq (k r) (k' r)) -> peq (Call c k) (Call c k')
| pe_panic s : peq (Panic s) (Panic s)
| pe_fuel : peq OutOfFuel OutOfFuel.

Lemma peq_refl {A} (p : prog A) : peq p p.
Proof. induction p; constructor; auto. Qed.

Lemma peq_sym {A} (p q : prog A) : peq p q -> peq q p.
Proof. intro H. induction H; constructor; auto. Qed.

Lemma peq_trans {A} (p q r : prog A) : peq p q -> peq q r -> peq p r.
Proof.
  intro H. revert r. induction H as [a | c k k' Hk IH | s | ]; intros r Hr; inversion Hr; subst; try constructor.
  intro x. apply IH. match goal with H : forall r, peq (k' r) _ |- _ => apply H end.
Qed.

Lemma bind_assoc {A B C} (p : prog A) (f : A -> prog B) (g : B -> prog C) :
  peq (bind (bind p f) g) (bind p (fun x => bind (f x) g)).
Proof. induction p as [a | c k IH | s | ]; cbn; try constructor; [apply peq_refl|exact IH]. Qed.

Lemma peq_bind {A B} (p q : prog A) (f g : A -> prog B) :
  peq p q -> (forall a, peq (f a) (g a)) -> peq (bind p f) (bind q g).
Proof. intros H Hf. induction H; cbn; try constructor; auto. Qed.

Lemma all_calls_peq {A} P (p q : prog A) : peq p q -> all_calls P p -> all_calls P q.
Proof.
  intro H. induction H as [a | c k k' Hk IH | s | ]; intro Hp; inversion Hp; subst; constructor; auto.
Qed.
