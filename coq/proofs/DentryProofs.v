(* DentryProofs.v -- C02: why a passing check_current means "inside the root".
   The kernel's dentry forest at one instant: every object other than the file-system
   root (object 0) has at most one (parent, name); two different objects never share
   both (sibling names are unique).  [up] is d_path: the names from the file-system
   root down to an object, for objects attached to it.  If the rendering of `current`
   is the rendering of the root followed by the components [exp], then `current` IS
   the object reached from the root by walking down [exp] -- in particular it lies in
   the root's tree.  The premise that the root's own rendering is stable between the
   reads (assumption A1 of DESIGN.md C02: nobody renames an ancestor of the root) is
   what lets the three reads of check_current be about one instant. *)
From PV Require Import Bytes Path PathProofs CheckProofs.
From PV Require OpathM.
From Coq Require Import List Arith Lia.
Import ListNotations.
Open Scope N_scope.

Record forest := { parent : nat -> option (nat * bytes) }.

(* sibling names are unique *)
Definition fwf (f : forest) : Prop :=
  forall a c p n, a <> 0%nat -> c <> 0%nat -> parent f a = Some (p, n) -> parent f c = Some (p, n) -> a = c.

(* d_path with fuel: the names from the file-system root (object 0) down to o *)
Fixpoint up (f : forest) (fuel : nat) (o : nat) : option (list bytes) :=
  if Nat.eqb o 0 then Some [] else
  match fuel with
  | O => None
  | S g => match parent f o with
           | None => None                      (* detached: rendered with " (deleted)" or not at all *)
           | Some (p, n) => match up f g p with Some l => Some (l ++ [n]) | None => None end
           end
  end.

(* [desc f a e c]: c is reached from a by walking down the names e *)
Inductive desc (f : forest) : nat -> list bytes -> nat -> Prop :=
| desc_here a : desc f a [] a
| desc_down a e p n c : desc f a e p -> c <> 0%nat -> parent f c = Some (p, n) -> desc f a (e ++ [n]) c.

Lemma up_nil f g o : up f g o = Some [] -> o = 0%nat.
Proof.
  destruct g as [|g]; cbn [up]; destruct (Nat.eqb_spec o 0) as [E|Hne]; try (intros _; exact E); try discriminate.
  destruct (parent f o) as [[p n]|]; [|discriminate]. destruct (up f g p) as [l|]; [|discriminate].
  intro H. inversion H as [H1]. destruct l; discriminate.
Qed.

Lemma up_snoc f g o l n : up f g o = Some (l ++ [n]) ->
  o <> 0%nat /\ exists g' p, parent f o = Some (p, n) /\ up f g' p = Some l.
Proof.
  destruct g as [|g]; cbn [up]; destruct (Nat.eqb_spec o 0) as [E|Hne].
  - intro H. inversion H as [H1]. destruct l; discriminate.
  - discriminate.
  - intro H. inversion H as [H1]. destruct l; discriminate.
  - destruct (parent f o) as [[p n']|]; [|discriminate]. destruct (up f g p) as [l'|] eqn:Eu; [|discriminate].
    intro H. inversion H as [H1]. apply app_inj_tail in H1. destruct H1 as [-> ->].
    split; [exact Hne|]. exists g, p. split; [reflexivity|exact Eu].
Qed.

(* an attached object is identified by its path *)
Lemma up_inj f : fwf f -> forall l g1 g2 a c, up f g1 a = Some l -> up f g2 c = Some l -> a = c.
Proof.
  intro Hwf. induction l as [|n l IH] using rev_ind; intros g1 g2 a c Ha Hc.
  - rewrite (up_nil _ _ _ Ha), (up_nil _ _ _ Hc). reflexivity.
  - destruct (up_snoc _ _ _ _ _ Ha) as (Hna & ga & pa & Hpa & Hua).
    destruct (up_snoc _ _ _ _ _ Hc) as (Hnc & gc & pc & Hpc & Huc).
    assert (E : pa = pc) by (eapply IH; eassumption). subst pc.
    eapply Hwf; eassumption.
Qed.

(* the forest argument: path(current) = path(root) ++ exp  ==>  current is the descendant of
   the root along exp *)
Theorem path_extends_means_descendant f : fwf f ->
  forall exp R g1 g2 root cur, up f g1 root = Some R -> up f g2 cur = Some (R ++ exp) -> desc f root exp cur.
Proof.
  intro Hwf. induction exp as [|n e IH] using rev_ind; intros R g1 g2 root cur Hr Hc.
  - rewrite app_nil_r in Hc. rewrite (up_inj f Hwf _ _ _ _ _ Hr Hc). constructor.
  - rewrite app_assoc in Hc. destruct (up_snoc _ _ _ _ _ Hc) as (Hnc & gc & pc & Hpc & Huc).
    eapply desc_down; [eapply IH; eassumption|exact Hnc|exact Hpc].
Qed.

(* a descendant along names is inside: the root is among its ancestors *)
Fixpoint ancestor (f : forest) (k : nat) (o : nat) : option nat :=
  match k with
  | O => Some o
  | S j => match parent f o with Some (p, _) => ancestor f j p | None => None end
  end.

Lemma desc_ancestor f a e c : desc f a e c -> ancestor f (length e) c = Some a.
Proof.
  induction 1 as [a|a e p n c _ IH Hc Hp]; [reflexivity|].
  rewrite app_length. cbn [length]. rewrite Nat.add_1_r. cbn [ancestor]. rewrite Hp. exact IH.
Qed.

(* the kernel's rendering of a descriptor's object: a byte string whose normal form
   (std::path components) is the object's path in the forest *)
Definition renders (f : forest) (o : nat) (p : bytes) : Prop := exists g, up f g o = Some (nf p).

(* check_current, at the instant of its second read: if the rendering of the root it read
   first is (still) the root's, and the rendering of `current` passes the comparison, then
   `current` is the object [exp] below the root *)
Theorem check_means_inside f root cur root_path cur_path exp :
  fwf f -> renders f root root_path -> renders f cur cur_path ->
  path_eq cur_path (OpathM.push_all root_path ([DOT] :: exp)) = true -> Forall name_ok exp ->
  desc f root exp cur /\ ancestor f (length exp) cur = Some root.
Proof.
  intros Hwf [g1 Hr] [g2 Hc] Heq Hexp.
  rewrite (check_passes_means _ _ _ Heq Hexp) in Hc.
  pose proof (path_extends_means_descendant f Hwf exp _ g1 g2 root cur Hr Hc) as Hd.
  split; [exact Hd|apply desc_ancestor, Hd].
Qed.
