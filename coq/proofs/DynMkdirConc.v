From PV Require Import Dyn BitsProofs PathProofs StaticProofs ProgTac StaticBal FaultProofs EffectProofs BeneathProofs DynProofs DynMkdir DynMkdirAll DynResolve DynMkdirComplete.
From PV Require FSModel FSProofs DynRemove.
From Coq Require Import Lia.
Open Scope N_scope.

(* ---- C12, racing callers: the creation loop under interference ------------------------------------------
   Between any two calls of the loop (mkdirat, openat -- each atomic in the kernel) the environment may add any
   number of directories under names that did not exist ([extends]: what every other mkdir_all caller does, and
   what the loop's own steps do).  Under that interference the loop still cannot fail when it had no reason to
   fail at the start, and what it returns is the descent along the components in the final tree. *)

Inductive mk_conc : fs -> nat -> list bytes -> fs -> (nat + N) -> Prop :=
| mc_nil s o : mk_conc s o [] s (inl o)
| mc_env s s1 o ps s' r : extends s s1 -> mk_conc s1 o ps s' r -> mk_conc s o ps s' r
| mc_step s o p rest s1 s2 c s' r :
    mk_dir s o p = inl s1 -> extends s1 s2 -> mk_open s2 o p = inl c -> mk_conc s2 c rest s' r -> mk_conc s o (p :: rest) s' r
| mc_fail_dir s o p rest e : mk_dir s o p = inr e -> mk_conc s o (p :: rest) s (inr e)
| mc_fail_open s o p rest s1 s2 e : mk_dir s o p = inl s1 -> extends s1 s2 -> mk_open s2 o p = inr e -> mk_conc s o (p :: rest) s2 (inr e).

(* without interference it is the pure function *)
Lemma mk_conc_seq : forall ps s o, mk_conc s o ps (fst (mk_spec s o ps)) (snd (mk_spec s o ps)).
Proof.
  induction ps as [|p rest IH]; intros s o; cbn [mk_spec]; [apply mc_nil|].
  destruct (mk_dir s o p) as [s1|e] eqn:Ed; [|apply mc_fail_dir; exact Ed].
  destruct (mk_open s1 o p) as [c|e] eqn:Eo.
  - eapply mc_step; [exact Ed|apply ext_refl|exact Eo|apply IH].
  - eapply mc_fail_open; [exact Ed|apply ext_refl|exact Eo].
Qed.

(* invariants of the tree carried along [extends] *)
Lemma extends_inv s s' : extends s s' -> closed2 s -> dirs_ok s -> closed2 s' /\ dirs_ok s'.
Proof.
  induction 1 as [s|s s' d n _ IH Hd Hl]; intros Hc Hdo; [split; assumption|].
  destruct (IH Hc Hdo) as [Hc' Hdo']. pose proof (is_dir_lt _ _ Hd) as Hlt.
  split; [apply closed2_add_obj|apply dirs_ok_add_obj]; assumption.
Qed.

Lemma is_dir_extends s s' o : extends s s' -> is_dir s o = true -> is_dir s' o = true.
Proof.
  intros He Hd. destruct (extends_frame _ _ He) as (Hk & _). unfold FSModel.is_dir in *. rewrite (Hk o (is_dir_lt _ _ Hd)). exact Hd.
Qed.

(* what is found in a directory that did not exist in [s] is a new directory *)
Lemma lookup_new s s' d q c : extends s s' -> dirs_ok s -> (length (kinds s) <= d)%nat -> lookup s' d q = Some c ->
  (length (kinds s) <= c)%nat /\ is_dir s' c = true.
Proof.
  intros He Hdo Hd Hl. destruct (extends_frame _ _ He) as (_ & _ & _ & new & Hents & Hnew).
  unfold FSModel.lookup in Hl. rewrite Hents, find_ent_app in Hl.
  destruct (FSModel.find_ent (ents s) d q) as [c0|] eqn:E0.
  - exfalso. destruct (find_ent_dir_in _ _ _ _ E0) as (e & Hin & Hde). specialize (Hdo e Hin). lia.
  - destruct (DynRemove.find_ent_in _ _ _ _ Hl) as (n' & Hin & _). rewrite Forall_forall in Hnew.
    destruct (Hnew _ Hin) as [H1 H2]. cbn [ent_obj snd] in H1, H2. split; [exact H1|]. unfold FSModel.is_dir. rewrite H2. reflexivity.
Qed.

Lemma chain_ok_new s s' : extends s s' -> dirs_ok s -> forall ps d, (length (kinds s) <= d)%nat ->
  Forall (fun q => too_long q = false) ps -> chain_ok s' d ps.
Proof.
  intros He Hdo. induction ps as [|p rest IH]; intros d Hd Hl; cbn [chain_ok]; [exact I|].
  inversion Hl as [|? ? Hp Hrest]; subst. split; [exact Hp|].
  destruct (lookup s' d p) as [c|] eqn:El; [|exact Hrest].
  destruct (lookup_new s s' d p c He Hdo Hd El) as [Hc Hcd]. split; [exact Hcd|]. apply IH; assumption.
Qed.

Lemma chain_ok_short s : forall ps o, chain_ok s o ps -> Forall (fun q => too_long q = false) ps.
Proof.
  induction ps as [|p rest IH]; intros o H; [constructor|]. cbn [chain_ok] in H. destruct H as [Hp H]. constructor; [exact Hp|].
  destruct (lookup s o p) as [c|]; [exact (IH c (proj2 H))|exact H].
Qed.

Lemma chain_ok_extends s s' : extends s s' -> closed2 s -> dirs_ok s -> forall ps o, (o < length (kinds s))%nat ->
  chain_ok s o ps -> chain_ok s' o ps.
Proof.
  intros He Hc Hdo. destruct (extends_frame _ _ He) as (Hk & Hlk & Hlen & _).
  induction ps as [|p rest IH]; intros o Ho H; cbn [chain_ok] in *; [exact I|].
  destruct H as [Hp H]. split; [exact Hp|].
  destruct (lookup s o p) as [c|] eqn:El.
  - rewrite (Hlk _ _ _ El). destruct H as [Hcd Hrest]. split; [exact (is_dir_extends _ _ _ He Hcd)|].
    apply IH; [exact (is_dir_lt _ _ Hcd)|exact Hrest].
  - destruct (lookup s' o p) as [c|] eqn:El'; [|exact H].
    (* somebody else created it meanwhile: it is one of the new directories *)
    destruct (extends_frame _ _ He) as (_ & _ & _ & new & Hents & Hnew).
    assert (Hnewc : (length (kinds s) <= c)%nat /\ is_dir s' c = true).
    { unfold FSModel.lookup in El, El'. rewrite Hents, find_ent_app, El in El'.
      destruct (DynRemove.find_ent_in _ _ _ _ El') as (n' & Hin & _). rewrite Forall_forall in Hnew.
      destruct (Hnew _ Hin) as [H1 H2]. cbn [ent_obj snd] in H1, H2. split; [exact H1|]. unfold FSModel.is_dir. rewrite H2. reflexivity. }
    destruct Hnewc as [Hge Hcd]. split; [exact Hcd|]. apply (chain_ok_new s s' He Hdo); assumption.
Qed.

(* the loop's own step is one of the environment's steps (the guarantee) *)
Lemma mk_dir_extends s o p s1 : mk_dir s o p = inl s1 -> extends s s1.
Proof.
  unfold mk_dir, create_sem. intro H.
  destruct (is_dir s o) eqn:Ed; cbn [negb] in H; [|vm_compute in H; discriminate].
  destruct (is_nil p); [vm_compute in H; discriminate|].
  destruct (has_slash p || has_nul p); [discriminate|].
  destruct (is_dot p || is_dotdot p); [inversion H; apply ext_refl|].
  destruct (too_long p); [vm_compute in H; discriminate|].
  destruct (lookup s o p) as [c|] eqn:El; inversion H; subst; [apply ext_refl|].
  apply ext_add; [apply ext_refl|exact Ed|exact El].
Qed.

Lemma mk_dir_then_there s o p s1 : Dyn.plain p = true -> mk_dir s o p = inl s1 -> exists c, lookup s1 o p = Some c.
Proof.
  intros Hp. destruct (plain_facts _ Hp) as (Hnil & Hd & Hdd & Hsl & Hnu).
  unfold mk_dir, create_sem. rewrite Hnil, Hsl, Hnu, Hd, Hdd. cbn [orb]. intro H.
  destruct (is_dir s o) eqn:Ed; cbn [negb] in H; [|vm_compute in H; discriminate].
  destruct (too_long p); [vm_compute in H; discriminate|].
  destruct (lookup s o p) as [c|] eqn:El; inversion H; subst.
  - exists c. exact El.
  - exists (length (kinds s)). rewrite lookup_add_obj, El, Nat.eqb_refl, PathProofs.beq_refl. reflexivity.
Qed.

Theorem mk_conc_converges s o ps s' r : mk_conc s o ps s' r ->
  closed2 s -> dirs_ok s -> is_dir s o = true -> Forall (fun p => Dyn.plain p = true) ps -> chain_ok s o ps ->
  extends s s' /\ exists c, r = inl c /\ descend_dirs s' o ps = Some c /\ is_dir s' c = true.
Proof.
  induction 1 as [s o|s s1 o ps s' r He _ IH|s o p rest s1 s2 c s' r Hmd He Hmo _ IH|s o p rest e Hmd|s o p rest s1 s2 e Hmd He Hmo];
    intros Hc Hdo Hdir Hpl Hch.
  - split; [apply ext_refl|]. exists o. repeat split; [exact Hdir].
  - destruct (extends_inv _ _ He Hc Hdo) as [Hc1 Hdo1].
    destruct (IH Hc1 Hdo1 (is_dir_extends _ _ _ He Hdir) Hpl (chain_ok_extends _ _ He Hc Hdo ps o (is_dir_lt _ _ Hdir) Hch)) as (Hext & c & -> & Hdesc & Hcd).
    split; [exact (extends_trans_add _ _ _ He Hext)|]. exists c. repeat split; assumption.
  - inversion Hpl as [|? ? Hp Hprest]; subst.
    pose proof (mk_dir_extends _ _ _ _ Hmd) as He1. pose proof (extends_trans_add _ _ _ He1 He) as He2.
    destruct (extends_inv _ _ He2 Hc Hdo) as [Hc2 Hdo2].
    pose proof (chain_ok_extends _ _ He2 Hc Hdo _ o (is_dir_lt _ _ Hdir) Hch) as Hch2. cbn [chain_ok] in Hch2. destruct Hch2 as [_ Hch2].
    destruct (mk_dir_then_there _ _ _ _ Hp Hmd) as (c1 & Hl1).
    destruct (extends_frame _ _ He) as (_ & Hlk & _). pose proof (Hlk _ _ _ Hl1) as Hl2. rewrite Hl2 in Hch2. destruct Hch2 as [Hcd2 Hrest2].
    assert (c = c1).
    { destruct (plain_facts _ Hp) as (_ & Hd & Hdd & _). unfold mk_open, open1 in Hmo.
      rewrite (is_dir_extends _ _ _ He2 Hdir), Hd, Hdd, Hl2 in Hmo. cbn [negb] in Hmo. cbv iota beta in Hmo. rewrite Hcd2 in Hmo. inversion Hmo. reflexivity. }
    subst c1.
    destruct (IH Hc2 Hdo2 Hcd2 Hprest Hrest2) as (Hext & c' & -> & Hdesc & Hcd').
    split; [exact (extends_trans_add _ _ _ He2 Hext)|]. exists c'. split; [reflexivity|]. split; [|exact Hcd'].
    cbn [descend_dirs]. destruct (extends_frame _ _ Hext) as (_ & Hlk' & _). rewrite (Hlk' _ _ _ Hl2), (is_dir_extends _ _ _ Hext Hcd2). exact Hdesc.
  - (* mkdirat cannot fail: the name is plain and short, the directory is one *)
    exfalso. inversion Hpl as [|? ? Hp Hprest]; subst. destruct (plain_facts _ Hp) as (Hnil & Hd & Hdd & Hsl & Hnu).
    cbn [chain_ok] in Hch. destruct Hch as [Hl _].
    unfold mk_dir, create_sem in Hmd. rewrite Hdir, Hnil, Hsl, Hnu, Hd, Hdd, Hl in Hmd. cbn [negb orb] in Hmd.
    destruct (lookup s o p); [vm_compute in Hmd|]; discriminate.
  - (* the open cannot fail: the name is there and is a directory, whoever created it *)
    exfalso. inversion Hpl as [|? ? Hp Hprest]; subst.
    pose proof (mk_dir_extends _ _ _ _ Hmd) as He1. pose proof (extends_trans_add _ _ _ He1 He) as He2.
    pose proof (chain_ok_extends _ _ He2 Hc Hdo _ o (is_dir_lt _ _ Hdir) Hch) as Hch2. cbn [chain_ok] in Hch2. destruct Hch2 as [_ Hch2].
    destruct (mk_dir_then_there _ _ _ _ Hp Hmd) as (c1 & Hl1).
    destruct (extends_frame _ _ He) as (_ & Hlk & _). pose proof (Hlk _ _ _ Hl1) as Hl2. rewrite Hl2 in Hch2. destruct Hch2 as [Hcd2 _].
    destruct (plain_facts _ Hp) as (_ & Hd & Hdd & _). unfold mk_open, open1 in Hmo.
    rewrite (is_dir_extends _ _ _ He2 Hdir), Hd, Hdd, Hl2 in Hmo. cbn [negb] in Hmo. cbv iota beta in Hmo. rewrite Hcd2 in Hmo. discriminate.
Qed.

(* two racing callers of the same chain hold the same directory: in any tree both runs lead into (the one they
   end in, or anything later), the two handles are the descent along the components there *)
Theorem mk_conc_same_handles sa sb o ps sa' sb' ra rb sF :
  mk_conc sa o ps sa' ra -> mk_conc sb o ps sb' rb -> extends sa' sF -> extends sb' sF ->
  closed2 sa -> dirs_ok sa -> is_dir sa o = true -> chain_ok sa o ps ->
  closed2 sb -> dirs_ok sb -> is_dir sb o = true -> chain_ok sb o ps ->
  Forall (fun p => Dyn.plain p = true) ps ->
  exists c, ra = inl c /\ rb = inl c /\ descend_dirs sF o ps = Some c.
Proof.
  intros Ha Hb Hea Heb Hca Hda Hoa Hcha Hcb Hdb Hob Hchb Hpl.
  destruct (mk_conc_converges _ _ _ _ _ Ha Hca Hda Hoa Hpl Hcha) as (Ha1 & ca & -> & Hdesca & _).
  destruct (mk_conc_converges _ _ _ _ _ Hb Hcb Hdb Hob Hpl Hchb) as (Hb1 & cb & -> & Hdescb & _).
  destruct (extends_inv _ _ Ha1 Hca Hda) as [Hca' _]. destruct (extends_inv _ _ Hb1 Hcb Hdb) as [Hcb' _].
  assert (Hoa' : (o < length (kinds sa'))%nat) by (apply is_dir_lt; exact (is_dir_extends _ _ _ Ha1 Hoa)).
  assert (Hob' : (o < length (kinds sb'))%nat) by (apply is_dir_lt; exact (is_dir_extends _ _ _ Hb1 Hob)).
  pose proof (descend_dirs_extends _ _ Hea ps o ca Hoa' Hca' Hdesca) as H1.
  pose proof (descend_dirs_extends _ _ Heb ps o cb Hob' Hcb' Hdescb) as H2.
  rewrite H1 in H2. inversion H2; subst cb. exists ca. repeat split. exact H1.
Qed.
