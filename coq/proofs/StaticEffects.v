(* StaticEffects.v -- C14 / C03: which call a single-entry operation makes, and on what.
   [reaches t p c t']: executing p on the static kernel from table t arrives at the call
   c with table t'.  For the emulated backend on any well-formed tree, create (every
   inode type), create_file, remove_file/remove_dir arrive at exactly ONE tree-changing
   call, made on a descriptor open on the object the in-root walk of the parent path
   ends on, with path_split's last component as the name -- and at nothing else before. *)
From PV Require Import Static PathProofs StaticProofs CheckProofs RootM ProgTac OpsProofs.
From PV Require FSModel FSProofs.
Open Scope N_scope.

Section EF.
Variable s : fs.
Variable rp : bytes.

Inductive reaches {A} : fdt -> prog A -> call -> fdt -> Prop :=
| reach_here t c k : reaches t (Call c k) c t
| reach_step t c k c' t' : reaches (fst (answer s rp t c)) (k (snd (answer s rp t c))) c' t' -> reaches t (Call c k) c' t'.

Lemma reaches_bind_done {A B} (p : prog A) (f : A -> prog B) : forall t t1 a c t',
  run s rp t p = Done t1 a -> reaches t1 (f a) c t' -> reaches t (bind p f) c t'.
Proof.
  induction p as [a0|c0 k IH| |]; intros t t1 a c t' Hrun Hr; cbn [bind Static.run] in *.
  - inversion Hrun; subst. exact Hr.
  - destruct (answer s rp t c0) as [t2 r] eqn:E. apply reach_step. rewrite E. cbn [fst snd]. eapply IH; eassumption.
  - discriminate.
  - discriminate.
Qed.

Lemma reaches_bind_here {A B} (p : prog A) (f : A -> prog B) t c t' :
  reaches t p c t' -> reaches t (bind p f) c t'.
Proof.
  induction 1 as [t c k|t c k c' t' _ IH]; cbn [bind]; [apply reach_here|apply reach_step; exact IH].
Qed.

(* "the first tree-changing call": no call issued before it changes the tree *)
Definition changes_tree (c : call) : bool :=
  match c with
  | Mkdirat _ _ _ | Mknodat _ _ _ _ | Unlinkat _ _ _ | Linkat _ _ _ _ _ | Symlinkat _ _ _
  | Renameat _ _ _ _ | Renameat2 _ _ _ _ _ => true
  | Openat _ _ fl _ => has fl O_CREAT
  | Openat2 _ _ fl _ _ => has fl O_CREAT
  | _ => false
  end.

End EF.

(* the single-entry operations of the emulated backend *)
Section OPS.
Variable s : fs.
Variable rp : bytes.
Variable F : list (Z * nat).
Variable df : nat -> nat.
Variables fz pfuel : nat.
Variable o2 : bool.
Variable gh : phandle.
Variable ps : N.
Hypothesis Hcl : closed s.
Hypothesis Hfz : fz <> 0%nat.
Hypothesis Hchk : chk_static_ok s rp F (check_current fz o2 pfuel gh).
Hypothesis Hwf : FSProofs.wf s df.
Hypothesis Hl : links_ok s.
Variable rs : resolver.
Hypothesis Hk : rs_kernel rs = false.

Notation nosym := (has (rs_flags rs) RESOLVE_NO_SYMLINKS).

(* every operation of the form  parent_and_name ;; (one wrapper call on (dir, name)) ...  *)
Lemma reaches_after_parent {B} (K : Z * bytes -> prog (result B ekind)) t root path dirp name o :
  path_split path = Some (Ok (dirp, Some name)) -> has_nul dirp = false ->
  Frame s F t -> tget t root = Some ROOT ->
  FSModel.ewalk s dirp false nosym = FSModel.WOk o ->
  exists t1 dir, tget t1 dir = Some o /\
    (forall c t', reaches s rp t1 (K (dir, name)) c t' ->
                  reaches s rp t (dn <-? parent_and_name fz o2 pfuel gh ps rs root path ;; K dn) c t').
Proof.
  intros Hsplit Hnul Hfr Hroot Hw.
  pose proof (parent_and_name_static s rp F fz o2 pfuel gh ps df rs t root path dirp name Hcl Hfz Hchk Hwf Hl Hk Hsplit Hnul Hfr Hroot) as H.
  rewrite Hw in H. destruct H as (t1 & dir & Hrun & Hdir).
  exists t1, dir. split; [exact Hdir|]. intros c t' Hr. unfold bindR.
  eapply reaches_bind_done; [exact Hrun|exact Hr].
Qed.

(* RootRef::create(path, Directory(mode)): reaches mkdirat(dir -> parent object, name, mode) *)
Theorem create_dir_reaches t root path dirp name o m :
  path_split path = Some (Ok (dirp, Some name)) -> has_nul dirp = false -> has_nul name = false ->
  Frame s F t -> tget t root = Some ROOT ->
  FSModel.ewalk s dirp false nosym = FSModel.WOk o ->
  exists t1 dir, tget t1 dir = Some o /\
    reaches s rp t (root_create fz o2 pfuel gh ps rs root path (IDirectory m)) (Mkdirat dir name (N.land (perm m) MODE_BITS)) t1.
Proof.
  intros Hsplit Hnul Hnn Hfr Hroot Hw.
  destruct (reaches_after_parent
              (fun dn => let '(dir, name) := dn in r <- os (w_mkdirat fz dir name (perm m)) ;; close dir ;;; Ret r)
              t root path dirp name o Hsplit Hnul Hfr Hroot Hw) as (t1 & dir & Hdir & Hr).
  exists t1, dir. split; [exact Hdir|].
  unfold root_create. apply Hr. cbn beta iota.
  apply reaches_bind_here. unfold os, map_err. apply reaches_bind_here.
  unfold w_mkdirat, simple1, rustix_path. rewrite (tget_valid _ _ _ Hdir), Hnn. cbn [negb]. apply reach_here.
Qed.

(* remove_file / remove_dir: reaches unlinkat(dir -> parent object, name, flag) *)
Theorem remove_reaches t root path dirp name o isdir :
  path_split path = Some (Ok (dirp, Some name)) -> has_nul dirp = false -> has_nul name = false ->
  Frame s F t -> tget t root = Some ROOT ->
  FSModel.ewalk s dirp false nosym = FSModel.WOk o ->
  exists t1 dir, tget t1 dir = Some o /\
    reaches s rp t (root_remove_inode fz o2 pfuel gh ps rs root path isdir) (Unlinkat dir name (if isdir then AT_REMOVEDIR else 0)) t1.
Proof.
  intros Hsplit Hnul Hnn Hfr Hroot Hw.
  destruct (reaches_after_parent
              (fun dn => let '(dir, name) := dn in r <- os (w_unlinkat fz dir name (if isdir then AT_REMOVEDIR else 0)) ;; close dir ;;; Ret r)
              t root path dirp name o Hsplit Hnul Hfr Hroot Hw) as (t1 & dir & Hdir & Hr).
  exists t1, dir. split; [exact Hdir|].
  unfold root_remove_inode. apply Hr. cbn beta iota.
  apply reaches_bind_here. unfold os, map_err. apply reaches_bind_here.
  unfold w_unlinkat, simple1, rustix_path. rewrite (tget_valid _ _ _ Hdir), Hnn. cbn [negb]. apply reach_here.
Qed.

(* create(path, File(mode)) / Fifo / devices: reaches mknodat on (parent object, name) *)
Theorem create_node_reaches t root path dirp name o raw dev ty :
  (ty = IFile raw \/ ty = IFifo raw \/ ty = ICharDev raw dev \/ ty = IBlockDev raw dev) ->
  path_split path = Some (Ok (dirp, Some name)) -> has_nul dirp = false -> has_nul name = false ->
  Frame s F t -> tget t root = Some ROOT ->
  FSModel.ewalk s dirp false nosym = FSModel.WOk o ->
  exists t1 dir mode d, tget t1 dir = Some o /\
    reaches s rp t (root_create fz o2 pfuel gh ps rs root path ty) (Mknodat dir name mode d) t1.
Proof.
  intros Hty Hsplit Hnul Hnn Hfr Hroot Hw.
  assert (Hgen : forall mode d,
    exists t1 dir, tget t1 dir = Some o /\
      reaches s rp t (dn <-? parent_and_name fz o2 pfuel gh ps rs root path ;;
                      let '(dir, name) := dn in r <- os (w_mknodat fz dir name mode d) ;; close dir ;;; Ret r)
              (Mknodat dir name (N.lor (N.land mode S_IFMT) (N.land mode MODE_BITS)) d) t1).
  { intros mode d.
    destruct (reaches_after_parent
                (fun dn => let '(dir, name) := dn in r <- os (w_mknodat fz dir name mode d) ;; close dir ;;; Ret r)
                t root path dirp name o Hsplit Hnul Hfr Hroot Hw) as (t1 & dir & Hdir & Hr).
    exists t1, dir. split; [exact Hdir|]. apply Hr. cbn beta iota.
    apply reaches_bind_here. unfold os, map_err. apply reaches_bind_here.
    unfold w_mknodat, simple1, rustix_path. rewrite (tget_valid _ _ _ Hdir), Hnn. cbn [negb]. apply reach_here. }
  destruct Hty as [ -> | [ -> | [ -> | -> ] ] ]; unfold root_create;
    match goal with |- context [w_mknodat fz _ _ ?mode ?d] => destruct (Hgen mode d) as (t1 & dir & Hdir & Hr) end;
    exists t1, dir; eexists; eexists; (split; [exact Hdir|exact Hr]).
Qed.

End OPS.
