(* StaticEffects.v -- C14 / C03: which call a single-entry operation makes, and on what.
   [reaches t p c t']: executing p on the static kernel from table t arrives at the call
   c with table t'.  For the emulated backend on any well-formed tree, create (every
   inode type), create_file, remove_file/remove_dir arrive at exactly ONE tree-changing
   call, made on a descriptor open on the object the in-root walk of the parent path
   ends on, with path_split's last component as the name -- and at nothing else before. *)
From PV Require Import Static PathProofs StaticProofs CheckProofs RootM ProgTac OpsProofs FdBalance FdBalProofs RootBal OpathBal StaticBal.
From Coq Require Import Permutation.
From PV Require FSModel FSProofs.
Open Scope N_scope.

Section EF.
Variable s : fs.
Variable rp : bytes.

Inductive reaches {A} : fdt -> prog A -> call -> fdt -> Prop :=
| reach_here t c k : reaches t (Call c k) c t
| reach_step t c k c' t' : reaches (fst (answer s rp t c)) (k (snd (answer s rp t c))) c' t' -> reaches t (Call c k) c' t'.

Lemma reaches_bind_done {A B} (p : prog A) (f : A -> prog B) : forall t t1 a c t',
  run s rp t p = Done t1 a -> reaches t1 (f a) c t' -> reaches t (bind p f) c t'.
Proof.
  induction p as [a0|c0 k IH| |]; intros t t1 a c t' Hrun Hr; cbn [bind Static.run] in *.
  - inversion Hrun; subst. exact Hr.
  - destruct (answer s rp t c0) as [t2 r] eqn:E. apply reach_step. rewrite E. cbn [fst snd]. eapply IH; eassumption.
  - discriminate.
  - discriminate.
Qed.

Lemma reaches_bind_here {A B} (p : prog A) (f : A -> prog B) t c t' :
  reaches t p c t' -> reaches t (bind p f) c t'.
Proof.
  induction 1 as [t c k|t c k c' t' _ IH]; cbn [bind]; [apply reach_here|apply reach_step; exact IH].
Qed.

(* "the first tree-changing call": no call issued before it changes the tree *)
Definition changes_tree (c : call) : bool :=
  match c with
  | Mkdirat _ _ _ | Mknodat _ _ _ _ | Unlinkat _ _ _ | Linkat _ _ _ _ _ | Symlinkat _ _ _
  | Renameat _ _ _ _ | Renameat2 _ _ _ _ _ => true
  | Openat _ _ fl _ => has fl O_CREAT
  | Openat2 _ _ fl _ _ => has fl O_CREAT
  | _ => false
  end.

End EF.

(* the single-entry operations of the emulated backend *)
Section OPS.
Variable s : fs.
Variable rp : bytes.
Variable F : list (Z * nat).
Variable df : nat -> nat.
Variables fz pfuel : nat.
Variable o2 : bool.
Variable gh : phandle.
Variable ps : N.
Hypothesis Hcl : closed s.
Hypothesis Hfz : fz <> 0%nat.
Hypothesis Hchk : chk_static_ok s rp F (check_current fz o2 pfuel gh).
Hypothesis Hwf : FSProofs.wf s df.
Hypothesis Hl : links_ok s.
Variable rs : resolver.
Hypothesis Hk : rs_kernel rs = false.

Notation nosym := (has (rs_flags rs) RESOLVE_NO_SYMLINKS).

(* every operation of the form  parent_and_name ;; (one wrapper call on (dir, name)) ...  *)
Lemma reaches_after_parent {B} (K : Z * bytes -> prog (result B ekind)) t root path dirp name o :
  path_split path = Some (Ok (dirp, Some name)) -> has_nul dirp = false ->
  Frame s F t -> tget t root = Some ROOT ->
  FSModel.ewalk s dirp false nosym = FSModel.WOk o ->
  exists t1 dir, tget t1 dir = Some o /\
    (forall c t', reaches s rp t1 (K (dir, name)) c t' ->
                  reaches s rp t (dn <-? parent_and_name fz o2 pfuel gh ps rs root path ;; K dn) c t').
Proof.
  intros Hsplit Hnul Hfr Hroot Hw.
  pose proof (parent_and_name_static s rp F fz o2 pfuel gh ps df rs t root path dirp name Hcl Hfz Hchk Hwf Hl Hk Hsplit Hnul Hfr Hroot) as H.
  rewrite Hw in H. destruct H as (t1 & dir & Hrun & Hdir).
  exists t1, dir. split; [exact Hdir|]. intros c t' Hr. unfold bindR.
  eapply reaches_bind_done; [exact Hrun|exact Hr].
Qed.

(* RootRef::create(path, Directory(mode)): reaches mkdirat(dir -> parent object, name, mode) *)
Theorem create_dir_reaches t root path dirp name o m :
  path_split path = Some (Ok (dirp, Some name)) -> has_nul dirp = false -> has_nul name = false ->
  Frame s F t -> tget t root = Some ROOT ->
  FSModel.ewalk s dirp false nosym = FSModel.WOk o ->
  exists t1 dir, tget t1 dir = Some o /\
    reaches s rp t (root_create fz o2 pfuel gh ps rs root path (IDirectory m)) (Mkdirat dir name (N.land (perm m) MODE_BITS)) t1.
Proof.
  intros Hsplit Hnul Hnn Hfr Hroot Hw.
  destruct (reaches_after_parent
              (fun dn => let '(dir, name) := dn in r <- os (w_mkdirat fz dir name (perm m)) ;; close dir ;;; Ret r)
              t root path dirp name o Hsplit Hnul Hfr Hroot Hw) as (t1 & dir & Hdir & Hr).
  exists t1, dir. split; [exact Hdir|].
  unfold root_create. apply Hr. cbn beta iota.
  apply reaches_bind_here. unfold os, map_err. apply reaches_bind_here.
  unfold w_mkdirat, simple1, rustix_path. rewrite (tget_valid _ _ _ Hdir), Hnn. cbn [negb]. apply reach_here.
Qed.

(* remove_file / remove_dir: reaches unlinkat(dir -> parent object, name, flag) *)
Theorem remove_reaches t root path dirp name o isdir :
  path_split path = Some (Ok (dirp, Some name)) -> has_nul dirp = false -> has_nul name = false ->
  Frame s F t -> tget t root = Some ROOT ->
  FSModel.ewalk s dirp false nosym = FSModel.WOk o ->
  exists t1 dir, tget t1 dir = Some o /\
    reaches s rp t (root_remove_inode fz o2 pfuel gh ps rs root path isdir) (Unlinkat dir name (if isdir then AT_REMOVEDIR else 0)) t1.
Proof.
  intros Hsplit Hnul Hnn Hfr Hroot Hw.
  destruct (reaches_after_parent
              (fun dn => let '(dir, name) := dn in r <- os (w_unlinkat fz dir name (if isdir then AT_REMOVEDIR else 0)) ;; close dir ;;; Ret r)
              t root path dirp name o Hsplit Hnul Hfr Hroot Hw) as (t1 & dir & Hdir & Hr).
  exists t1, dir. split; [exact Hdir|].
  unfold root_remove_inode. apply Hr. cbn beta iota.
  apply reaches_bind_here. unfold os, map_err. apply reaches_bind_here.
  unfold w_unlinkat, simple1, rustix_path. rewrite (tget_valid _ _ _ Hdir), Hnn. cbn [negb]. apply reach_here.
Qed.

(* create(path, File(mode)) / Fifo / devices: reaches mknodat on (parent object, name) *)
Theorem create_node_reaches t root path dirp name o raw dev ty :
  (ty = IFile raw \/ ty = IFifo raw \/ ty = ICharDev raw dev \/ ty = IBlockDev raw dev) ->
  path_split path = Some (Ok (dirp, Some name)) -> has_nul dirp = false -> has_nul name = false ->
  Frame s F t -> tget t root = Some ROOT ->
  FSModel.ewalk s dirp false nosym = FSModel.WOk o ->
  exists t1 dir mode d, tget t1 dir = Some o /\
    reaches s rp t (root_create fz o2 pfuel gh ps rs root path ty) (Mknodat dir name mode d) t1.
Proof.
  intros Hty Hsplit Hnul Hnn Hfr Hroot Hw.
  assert (Hgen : forall mode d,
    exists t1 dir, tget t1 dir = Some o /\
      reaches s rp t (dn <-? parent_and_name fz o2 pfuel gh ps rs root path ;;
                      let '(dir, name) := dn in r <- os (w_mknodat fz dir name mode d) ;; close dir ;;; Ret r)
              (Mknodat dir name (N.lor (N.land mode S_IFMT) (N.land mode MODE_BITS)) d) t1).
  { intros mode d.
    destruct (reaches_after_parent
                (fun dn => let '(dir, name) := dn in r <- os (w_mknodat fz dir name mode d) ;; close dir ;;; Ret r)
                t root path dirp name o Hsplit Hnul Hfr Hroot Hw) as (t1 & dir & Hdir & Hr).
    exists t1, dir. split; [exact Hdir|]. apply Hr. cbn beta iota.
    apply reaches_bind_here. unfold os, map_err. apply reaches_bind_here.
    unfold w_mknodat, simple1, rustix_path. rewrite (tget_valid _ _ _ Hdir), Hnn. cbn [negb]. apply reach_here. }
  destruct Hty as [ -> | [ -> | [ -> | -> ] ] ]; unfold root_create;
    match goal with |- context [w_mknodat fz _ _ ?mode ?d] => destruct (Hgen mode d) as (t1 & dir & Hdir & Hr) end;
    exists t1, dir; eexists; eexists; (split; [exact Hdir|exact Hr]).
Qed.

(* ---- the mode handed to mknodat: the inode kind comes from the InodeType alone ------- *)

Definition node_type (ty : inode_type) : N :=
  match ty with
  | IFile _ => S_IFREG | IFifo _ => S_IFIFO | ICharDev _ _ => S_IFCHR | IBlockDev _ _ => S_IFBLK
  | _ => 0
  end.
Definition node_raw (ty : inode_type) : N :=
  match ty with IFile m | IFifo m | ICharDev m _ | IBlockDev m _ => m | _ => 0 end.
Definition node_dev (ty : inode_type) : N :=
  match ty with ICharDev _ d | IBlockDev _ d => d | _ => 0 end.

Lemma type_perm_split k raw : N.land k S_IFMT = k ->
  N.lor (N.land (N.lor k (perm raw)) S_IFMT) (N.land (N.lor k (perm raw)) MODE_BITS) = N.lor k (N.land raw MODE_BITS).
Proof.
  intro Hkm. unfold perm, without. apply N.bits_inj. intro n.
  assert (Hkn : N.testbit k n = true -> N.testbit S_IFMT n = true).
  { intro H. rewrite <- Hkm in H. rewrite N.land_spec in H. apply andb_true_iff in H. apply H. }
  assert (Hdisj : N.testbit S_IFMT n = true -> N.testbit MODE_BITS n = false).
  { intro H. assert (E : N.land S_IFMT MODE_BITS = 0) by reflexivity.
    pose proof (f_equal (fun x => N.testbit x n) E) as E'. cbn beta in E'. rewrite N.land_spec, H, N.bits_0 in E'. exact E'. }
  rewrite !N.lor_spec, !N.land_spec, !N.lor_spec, N.ldiff_spec.
  destruct (N.testbit k n) eqn:Ek, (N.testbit S_IFMT n) eqn:Em, (N.testbit MODE_BITS n) eqn:Eb, (N.testbit raw n);
    try reflexivity; try (specialize (Hkn eq_refl); discriminate); try (specialize (Hdisj eq_refl); discriminate).
Qed.

(* create(path, File / Fifo / CharacterDevice / BlockDevice): the mknodat call, exactly:
   type bits = the InodeType's, permission bits = the caller's mode & 07777 (whatever
   S_IFMT bits that mode word carries are dropped), device number as given *)
Theorem create_node_reaches_exact t root path dirp name o ty :
  node_type ty <> 0 ->
  path_split path = Some (Ok (dirp, Some name)) -> has_nul dirp = false -> has_nul name = false ->
  Frame s F t -> tget t root = Some ROOT ->
  FSModel.ewalk s dirp false nosym = FSModel.WOk o ->
  exists t1 dir, tget t1 dir = Some o /\
    reaches s rp t (root_create fz o2 pfuel gh ps rs root path ty)
            (Mknodat dir name (N.lor (node_type ty) (N.land (node_raw ty) MODE_BITS)) (node_dev ty)) t1.
Proof.
  intros Hty Hsplit Hnul Hnn Hfr Hroot Hw.
  assert (Hgen : forall k raw d, N.land k S_IFMT = k ->
    exists t1 dir, tget t1 dir = Some o /\
      reaches s rp t (dn <-? parent_and_name fz o2 pfuel gh ps rs root path ;;
                      let '(dir, name) := dn in r <- os (w_mknodat fz dir name (N.lor k (perm raw)) d) ;; close dir ;;; Ret r)
              (Mknodat dir name (N.lor k (N.land raw MODE_BITS)) d) t1).
  { intros k raw d Hkm.
    destruct (reaches_after_parent
                (fun dn => let '(dir, name) := dn in r <- os (w_mknodat fz dir name (N.lor k (perm raw)) d) ;; close dir ;;; Ret r)
                t root path dirp name o Hsplit Hnul Hfr Hroot Hw) as (t1 & dir & Hdir & Hr).
    exists t1, dir. split; [exact Hdir|]. apply Hr. cbn beta iota.
    apply reaches_bind_here. unfold os, map_err. apply reaches_bind_here.
    unfold w_mknodat, simple1, rustix_path. rewrite (tget_valid _ _ _ Hdir), Hnn. cbn [negb].
    rewrite (type_perm_split k raw Hkm). apply reach_here. }
  destruct ty as [m|m|tg|tg|m|m d|m d]; cbn [node_type] in Hty; try (exfalso; apply Hty; reflexivity);
    cbn [node_type node_raw node_dev]; unfold root_create; apply Hgen; reflexivity.
Qed.

(* create(path, Symlink(target)): symlinkat(target, parent object, name) *)
Theorem create_symlink_reaches t root path dirp name o target :
  path_split path = Some (Ok (dirp, Some name)) -> has_nul dirp = false -> has_nul name = false -> has_nul target = false ->
  Frame s F t -> tget t root = Some ROOT ->
  FSModel.ewalk s dirp false nosym = FSModel.WOk o ->
  exists t1 dir, tget t1 dir = Some o /\
    reaches s rp t (root_create fz o2 pfuel gh ps rs root path (ISymlink target)) (Symlinkat target dir name) t1.
Proof.
  intros Hsplit Hnul Hnn Hnt Hfr Hroot Hw.
  destruct (reaches_after_parent
              (fun dn => let '(dir, name) := dn in r <- os (w_symlinkat fz target dir name) ;; close dir ;;; Ret r)
              t root path dirp name o Hsplit Hnul Hfr Hroot Hw) as (t1 & dir & Hdir & Hr).
  exists t1, dir. split; [exact Hdir|].
  unfold root_create. apply Hr. cbn beta iota.
  apply reaches_bind_here. unfold os, map_err. apply reaches_bind_here.
  unfold w_symlinkat. rewrite (tget_valid _ _ _ Hdir), Hnt, Hnn. cbn [negb orb]. apply reach_here.
Qed.

(* create_file(path, flags, mode): openat(parent object, name, flags|O_CREAT|O_NOFOLLOW|..., mode & 07777) *)
Theorem create_file_reaches t root path dirp name o flags mode :
  has flags O_PATH = false ->
  path_split path = Some (Ok (dirp, Some name)) -> has_nul dirp = false -> has_nul name = false ->
  Frame s F t -> tget t root = Some ROOT ->
  FSModel.ewalk s dirp false nosym = FSModel.WOk o ->
  exists t1 dir, tget t1 dir = Some o /\
    reaches s rp t (root_create_file fz o2 pfuel gh ps rs root path flags mode)
            (Openat dir name (N.lor (N.lor (N.lor (N.lor flags CREATE_FILE_FORCED) OPENAT_NOFOLLOW_FORCED) OPENAT_FORCED) O_LARGEFILE)
                    (N.land mode MODE_BITS)) t1.
Proof.
  intros Hop Hsplit Hnul Hnn Hfr Hroot Hw.
  destruct (reaches_after_parent
              (fun dn => let '(dir, name) := dn in
                         r <- os (w_openat fz dir name (N.lor flags CREATE_FILE_FORCED) mode) ;; close dir ;;; Ret r)
              t root path dirp name o Hsplit Hnul Hfr Hroot Hw) as (t1 & dir & Hdir & Hr).
  exists t1, dir. split; [exact Hdir|].
  unfold root_create_file. rewrite Hop, andb_false_r. apply Hr. cbn beta iota.
  apply reaches_bind_here. unfold os, map_err. apply reaches_bind_here.
  unfold w_openat, w_openat_follow, rustix_path. rewrite (tget_valid _ _ _ Hdir), Hnn. cbn [negb]. apply reach_here.
Qed.

(* ---- operations with two parents: the first parent's descriptor survives the second walk *)

Lemma tget_indom t fd ob : tget t fd = Some ob -> indom t fd.
Proof. unfold tget, indom. destruct (Z.ltb fd 0); [discriminate|]. intros H E. rewrite E in H. discriminate. Qed.

Lemma tget_keep t t1 fd ob : tget t fd = Some ob -> (forall x, indom t x -> tfind t1 x = tfind t x) -> tget t1 fd = Some ob.
Proof.
  intros H Hkp. pose proof (Hkp fd (tget_indom _ _ _ H)) as E. unfold tget in *. destruct (Z.ltb fd 0); [discriminate|].
  rewrite E. exact H.
Qed.

(* parent_and_name, with what it leaves of the table: everything that was open stays as it was *)
Lemma parent_strong t root path dirp name o :
  path_split path = Some (Ok (dirp, Some name)) -> has_nul dirp = false ->
  Frame s F t -> tget t root = Some ROOT ->
  FSModel.ewalk s dirp false nosym = FSModel.WOk o ->
  exists t1 dir, run s rp t (parent_and_name fz o2 pfuel gh ps rs root path) = Done t1 (Ok (dir, name)) /\
    tget t1 dir = Some o /\ Frame s F t1 /\ tget t1 root = Some ROOT /\
    (forall x, indom t x -> tfind t1 x = tfind t x) /\
    (forall x, indom t1 x -> indom t x \/ x = dir).
Proof.
  intros Hsplit Hnul Hfr Hroot Hw.
  pose proof (parent_and_name_static s rp F fz o2 pfuel gh ps df rs t root path dirp name Hcl Hfz Hchk Hwf Hl Hk Hsplit Hnul Hfr Hroot) as H.
  rewrite Hw in H. destruct H as (t1 & dir & Hrun & Hdir).
  pose proof (parent_and_name_bal fz o2 pfuel gh ps rs (emu_res_ok fz o2 pfuel gh ps rs Hk) root path []) as Hb.
  destruct (bal_run s rp _ _ [] t t1 _ Hb Hrun (NoDup_nil _) ltac:(intros n [])) as (o' & HR & _ & _ & Hkeep & Honly).
  hnf in HR.
  assert (Hkeep' : forall x, indom t x -> tfind t1 x = tfind t x) by (intros x Hx; apply Hkeep; [exact Hx|intros []]).
  exists t1, dir. split; [exact Hrun|]. split; [exact Hdir|]. split; [|split; [|split]].
  - intros fd p Hin. destruct (Hfr fd p Hin) as [Hg Hp]. split; [exact (tget_keep _ _ _ _ Hg Hkeep')|exact Hp].
  - exact (tget_keep _ _ _ _ Hroot Hkeep').
  - exact Hkeep'.
  - intros x Hx. destruct (Honly x Hx) as [[Hin _]|Hin]; [left; exact Hin|right].
    apply (Permutation_in _ HR) in Hin. destruct Hin as [E|[]]. symmetry. exact E.
Qed.

(* rename(src, dst, flags): renameat / renameat2 on (source parent object, name, destination parent object, name) *)
Theorem rename_reaches t root src dst sdirp sname ddirp dname o1 o3 fl :
  path_split src = Some (Ok (sdirp, Some sname)) -> has_nul sdirp = false -> has_nul sname = false ->
  path_split dst = Some (Ok (ddirp, Some dname)) -> has_nul ddirp = false -> has_nul dname = false ->
  Frame s F t -> tget t root = Some ROOT ->
  FSModel.ewalk s sdirp false nosym = FSModel.WOk o1 -> FSModel.ewalk s ddirp false nosym = FSModel.WOk o3 ->
  exists t2 d1 d2, tget t2 d1 = Some o1 /\ tget t2 d2 = Some o3 /\
    reaches s rp t (root_rename fz o2 pfuel gh ps rs root src dst fl)
            (if N.eqb fl 0 then Renameat d1 sname d2 dname else Renameat2 d1 sname d2 dname fl) t2.
Proof.
  intros Hs1 Hn1 Hnn1 Hs2 Hn2 Hnn2 Hfr Hroot Hw1 Hw2.
  destruct (parent_strong t root src sdirp sname o1 Hs1 Hn1 Hfr Hroot Hw1) as (t1 & d1 & Hrun1 & Hd1 & Hfr1 & Hroot1 & _ & _).
  destruct (parent_strong t1 root dst ddirp dname o3 Hs2 Hn2 Hfr1 Hroot1 Hw2) as (t2 & d2 & Hrun2 & Hd2 & _ & _ & Hkeep2 & _).
  pose proof (tget_keep _ _ _ _ Hd1 Hkeep2) as Hd1'.
  exists t2, d1, d2. split; [exact Hd1'|]. split; [exact Hd2|].
  unfold root_rename, bindR. eapply reaches_bind_done; [exact Hrun1|]. cbn beta iota.
  eapply reaches_bind_done; [exact Hrun2|]. cbn beta iota.
  apply reaches_bind_here. unfold os, map_err. apply reaches_bind_here.
  unfold w_renameat2, w_renameat, two_fd.
  destruct (N.eqb fl 0); rewrite (tget_valid _ _ _ Hd1'), (tget_valid _ _ _ Hd2), Hnn1, Hnn2; cbn [negb orb]; apply reach_here.
Qed.

(* create(path, Hardlink(target)): linkat(target's parent object, its name, path's parent object, name) *)
Theorem create_hardlink_reaches t root path target dirp name tdirp tname o1 o3 :
  path_split path = Some (Ok (dirp, Some name)) -> has_nul dirp = false -> has_nul name = false ->
  path_split target = Some (Ok (tdirp, Some tname)) -> has_nul tdirp = false -> has_nul tname = false ->
  Frame s F t -> tget t root = Some ROOT ->
  FSModel.ewalk s dirp false nosym = FSModel.WOk o1 -> FSModel.ewalk s tdirp false nosym = FSModel.WOk o3 ->
  exists t2 d1 d2, tget t2 d1 = Some o1 /\ tget t2 d2 = Some o3 /\
    reaches s rp t (root_create fz o2 pfuel gh ps rs root path (IHardlink target)) (Linkat d2 tname d1 name LINKAT_FLAGS) t2.
Proof.
  intros Hs1 Hn1 Hnn1 Hs2 Hn2 Hnn2 Hfr Hroot Hw1 Hw2.
  destruct (parent_strong t root path dirp name o1 Hs1 Hn1 Hfr Hroot Hw1) as (t1 & d1 & Hrun1 & Hd1 & Hfr1 & Hroot1 & _ & _).
  destruct (parent_strong t1 root target tdirp tname o3 Hs2 Hn2 Hfr1 Hroot1 Hw2) as (t2 & d2 & Hrun2 & Hd2 & _ & _ & Hkeep2 & _).
  pose proof (tget_keep _ _ _ _ Hd1 Hkeep2) as Hd1'.
  exists t2, d1, d2. split; [exact Hd1'|]. split; [exact Hd2|].
  unfold root_create, bindR. eapply reaches_bind_done; [exact Hrun1|]. cbn beta iota.
  eapply reaches_bind_done; [exact Hrun2|]. cbn beta iota.
  apply reaches_bind_here. unfold os, map_err. apply reaches_bind_here.
  unfold w_linkat, two_fd.
  rewrite (tget_valid _ _ _ Hd2), (tget_valid _ _ _ Hd1'), Hnn2, Hnn1; cbn [negb orb]; apply reach_here.
Qed.

End OPS.
