(* DynResolve.v -- C12: "returns a handle for the in-root resolution of the path" in the RESULTING tree.
   1. [kwalk_q_app]: the kernel walk over  cs1 ++ cs2  is the walk over cs1 (links followed) and then
      the walk over cs2 from where it ended, with what is left of the link budget.
   2. [kwalk_q_extends]: a walk that succeeds on a tree succeeds with the same result on every
      extension of it by new directories.
   3. [kwalk_q_dirs]: below a directory, components that are "" or "." or name real directories
      are walked without the link budget.
   Together: if the walk of the ancestor [a] ends on [o] in the old tree and the creation loop ends on
   [c] along [parts] in the new tree, the walk of  a ++ components-of-the-rest  ends on [c] in the new
   tree ([resolution_after_mkdir_all]). *)
From PV Require Import Dyn BitsProofs PathProofs StaticProofs DynProofs DynMkdir DynEffects.
From PV Require FSModel FSProofs.
From Coq Require Import Lia.
Open Scope N_scope.

Notation WOk := FSModel.WOk.

(* ---- 1. composition ------------------------------------------------------------------------ *)

Lemma kwalk_q_app s nosym : forall b cs1 cur cs2 o,
  FSModel.kwalk_q s false nosym b cur cs1 = WOk o ->
  exists b', (b' <= b)%nat /\ FSModel.kwalk_q s false nosym b cur (cs1 ++ cs2) = FSModel.kwalk_q s false nosym b' o cs2.
Proof.
  induction b as [|b IHb].
  - (* no link can be followed *)
    induction cs1 as [|c rest IH]; intros cur cs2 o H.
    + cbn in H. inversion H; subst. exists 0%nat. split; [lia|reflexivity].
    + cbn [FSModel.kwalk_q FSModel.kbody] in H |- *. cbn [app].
      change (FSModel.kbody s false nosym None) with (FSModel.kwalk_q s false nosym 0) in *.
      cbn [FSModel.kwalk_q FSModel.kbody].
      destruct (negb (FSModel.is_dir s cur)); [discriminate|].
      destruct (is_nil c || is_dot c); [exact (IH _ _ _ H)|].
      destruct (is_dotdot c); [exact (IH _ _ _ H)|].
      destruct (FSModel.lookup s cur c) as [d|]; [|discriminate].
      destruct (FSModel.link_body s d) as [body|]; [|exact (IH _ _ _ H)].
      cbn [andb] in *. rewrite andb_false_r in *. destruct nosym; discriminate.
  - induction cs1 as [|c rest IH]; intros cur cs2 o H.
    + cbn in H. inversion H; subst. exists (S b). split; [lia|reflexivity].
    + cbn [FSModel.kwalk_q FSModel.kbody] in H |- *. cbn [app].
      change (FSModel.kbody s false nosym (Some (FSModel.kwalk_q s false nosym b))) with (FSModel.kwalk_q s false nosym (S b)) in *.
      cbn [FSModel.kwalk_q FSModel.kbody].
      destruct (negb (FSModel.is_dir s cur)); [discriminate|].
      destruct (is_nil c || is_dot c); [exact (IH _ _ _ H)|].
      destruct (is_dotdot c); [exact (IH _ _ _ H)|].
      destruct (FSModel.lookup s cur c) as [d|]; [|discriminate].
      destruct (FSModel.link_body s d) as [body|]; [|exact (IH _ _ _ H)].
      rewrite andb_false_r in *. destruct nosym; [discriminate|].
      rewrite app_assoc.
      destruct (IHb _ _ cs2 _ H) as (b' & Hle & E). exists b'. split; [lia|exact E].
Qed.

(* ---- 2. a successful walk survives the creation of directories --------------------------- *)

Lemma is_dir_lt s o : is_dir s o = true -> (o < length (kinds s))%nat.
Proof.
  unfold FSModel.is_dir, FSModel.kind_of. intro H. destruct (Nat.lt_ge_cases o (length (kinds s))) as [Hlt|Hge]; [exact Hlt|].
  rewrite nth_overflow in H by exact Hge. discriminate.
Qed.

Lemma extends_closed2 s s' : extends s s' -> closed2 s -> closed2 s'.
Proof. induction 1 as [s|s s' d n _ IH Hd Hl]; intro Hc; [exact Hc|]. apply closed2_add_obj; [apply IH; exact Hc|apply is_dir_lt; exact Hd]. Qed.

Lemma extends_parents s s' : extends s s' -> closed2 s -> forall o, (o < length (kinds s))%nat ->
  FSModel.parent_of s' o = FSModel.parent_of s o.
Proof.
  induction 1 as [s|s s' d n Hext IH Hd Hl]; intros Hc o Ho; [reflexivity|].
  pose proof (extends_closed2 _ _ Hext Hc) as [_ Hlen'].
  destruct (extends_frame _ _ Hext) as (_ & _ & Hle & _).
  unfold FSModel.parent_of, FSModel.add_obj. cbn [FSModel.parents]. rewrite app_nth1 by lia. apply IH; assumption.
Qed.

Lemma kwalk_q_extends s s' nosym : extends s s' -> closed2 s -> forall b cs cur o,
  (cur < length (kinds s))%nat -> FSModel.kwalk_q s false nosym b cur cs = WOk o ->
  FSModel.kwalk_q s' false nosym b cur cs = WOk o.
Proof.
  intros Hext Hc. destruct (extends_frame _ _ Hext) as (Hk & Hlk & _ & _). pose proof (extends_parents _ _ Hext Hc) as Hpar.
  destruct Hc as [(H0 & Hlkc & Hparc) Hlen]. unfold PB in *.
  assert (Hdir : forall x, (x < length (kinds s))%nat -> is_dir s' x = is_dir s x)
    by (intros x Hx; unfold FSModel.is_dir; rewrite (Hk x Hx); reflexivity).
  assert (Hlb : forall x, (x < length (kinds s))%nat -> FSModel.link_body s' x = FSModel.link_body s x)
    by (intros x Hx; unfold FSModel.link_body; rewrite (Hk x Hx); reflexivity).
  induction b as [|b IHb].
  - induction cs as [|c rest IH]; intros cur o Hcur H; [exact H|].
    cbn [FSModel.kwalk_q FSModel.kbody] in H |- *.
    change (FSModel.kbody s false nosym None) with (FSModel.kwalk_q s false nosym 0) in *.
    change (FSModel.kbody s' false nosym None) with (FSModel.kwalk_q s' false nosym 0) in *.
    rewrite (Hdir cur Hcur). destruct (negb (is_dir s cur)); [discriminate|].
    destruct (is_nil c || is_dot c); [exact (IH _ _ Hcur H)|].
    destruct (is_dotdot c).
    { rewrite (Hpar cur Hcur). apply IH; [|exact H]. destruct (Nat.eqb cur ROOT); [exact H0|apply Hparc, Hcur]. }
    destruct (lookup s cur c) as [d|] eqn:El; [|discriminate]. rewrite (Hlk _ _ _ El).
    pose proof (Hlkc _ _ _ El) as Hd. rewrite (Hlb d Hd).
    destruct (FSModel.link_body s d) as [body|]; [|exact (IH _ _ Hd H)].
    rewrite andb_false_r in *. destruct nosym; discriminate.
  - induction cs as [|c rest IH]; intros cur o Hcur H; [exact H|].
    cbn [FSModel.kwalk_q FSModel.kbody] in H |- *.
    change (FSModel.kbody s false nosym (Some (FSModel.kwalk_q s false nosym b))) with (FSModel.kwalk_q s false nosym (S b)) in *.
    change (FSModel.kbody s' false nosym (Some (FSModel.kwalk_q s' false nosym b))) with (FSModel.kwalk_q s' false nosym (S b)) in *.
    rewrite (Hdir cur Hcur). destruct (negb (is_dir s cur)); [discriminate|].
    destruct (is_nil c || is_dot c); [exact (IH _ _ Hcur H)|].
    destruct (is_dotdot c).
    { rewrite (Hpar cur Hcur). apply IH; [|exact H]. destruct (Nat.eqb cur ROOT); [exact H0|apply Hparc, Hcur]. }
    destruct (lookup s cur c) as [d|] eqn:El; [|discriminate]. rewrite (Hlk _ _ _ El).
    pose proof (Hlkc _ _ _ El) as Hd. rewrite (Hlb d Hd).
    destruct (FSModel.link_body s d) as [body|]; [|exact (IH _ _ Hd H)].
    rewrite andb_false_r in *. destruct nosym; [discriminate|].
    apply IHb; [|exact H]. destruct (is_abs body); [exact H0|exact Hcur].
Qed.

(* ---- 3. below a directory: "" and "." and names of real directories ---------------------- *)

Lemma kwalk_q_dirs s nosym : forall cs b cur c,
  is_dir s cur = true -> existsb is_dotdot cs = false ->
  descend_dirs s cur (filter (fun p => negb (noop_part p)) cs) = Some c ->
  FSModel.kwalk_q s false nosym b cur cs = WOk c.
Proof.
  induction cs as [|p rest IH]; intros b cur c Hdir Hdd H.
  - cbn in H. inversion H; subst. destruct b; reflexivity.
  - cbn [existsb] in Hdd. apply orb_false_iff in Hdd. destruct Hdd as [Hp Hrest].
    assert (Hstep : FSModel.kwalk_q s false nosym b cur (p :: rest) =
                    if is_nil p || is_dot p then FSModel.kwalk_q s false nosym b cur rest
                    else match lookup s cur p with
                         | None => FSModel.WErr (FSModel.name_err p)
                         | Some d => match FSModel.link_body s d with
                                     | None => FSModel.kwalk_q s false nosym b d rest
                                     | Some body => if is_nil rest && false then WOk d else if nosym then FSModel.WErr FSModel.E_LOOP
                                                    else match b with O => FSModel.WBudget
                                                         | S b' => FSModel.kwalk_q s false nosym b' (if is_abs body then ROOT else cur) (raw_components body ++ rest) end
                                     end
                         end).
    { destruct b; cbn [FSModel.kwalk_q FSModel.kbody]; rewrite Hdir, Hp; cbn [negb]; reflexivity. }
    rewrite Hstep. cbn [filter] in H. unfold noop_part in H.
    destruct (is_nil p || is_dot p); cbn [negb] in H; [apply IH; assumption|].
    cbn [descend_dirs] in H. destruct (lookup s cur p) as [d|]; [|discriminate].
    destruct (is_dir s d) eqn:Ed; [|discriminate].
    assert (Hlb : FSModel.link_body s d = None).
    { unfold FSModel.link_body, FSModel.is_dir in *. destruct (FSModel.kind_of s d); try discriminate; reflexivity. }
    rewrite Hlb. apply IH; assumption.
Qed.

(* ---- together ------------------------------------------------------------------------------ *)

Theorem resolution_after_mkdir_all s s' nosym b cs_a cs_r cur o c :
  closed2 s -> extends s s' -> (cur < length (kinds s))%nat ->
  FSModel.kwalk_q s false nosym b cur cs_a = WOk o ->             (* the walk of the existing ancestor, old tree *)
  is_dir s o = true -> existsb is_dotdot cs_r = false ->
  descend_dirs s' o (filter (fun p => negb (noop_part p)) cs_r) = Some c ->     (* where the creation loop ended, new tree *)
  FSModel.kwalk_q s' false nosym b cur (cs_a ++ cs_r) = WOk c.
Proof.
  intros Hc Hext Hcur Hw Hdir Hdd Hdesc.
  pose proof (kwalk_q_extends s s' nosym Hext Hc b cs_a cur o Hcur Hw) as Hw'.
  destruct (kwalk_q_app s' nosym b cs_a cur cs_r o Hw') as (b' & _ & E). rewrite E.
  apply kwalk_q_dirs; [|exact Hdd|exact Hdesc].
  destruct (extends_frame _ _ Hext) as (Hk & _ & _ & _). unfold FSModel.is_dir in *. rewrite (Hk o (is_dir_lt _ _ Hdir)). exact Hdir.
Qed.

(* ---- the path level: an ancestor of the path and what is left of it --------------------------- *)

Lemma raw_components_app_slash x y : raw_components (x ++ SLASH :: y) = raw_components x ++ raw_components y.
Proof.
  induction x as [|c x IH]; cbn [app raw_components].
  - rewrite N.eqb_refl. reflexivity.
  - rewrite IH. destruct (N.eqb c SLASH); [reflexivity|].
    pose proof (raw_components_nonempty x) as Hne. destruct (raw_components x) as [|h t]; [contradiction|reflexivity].
Qed.

(* every item of the ancestors iterator splits the path at one of its slashes, or is ("." , whole path) *)
Lemma anc_iter_shape inner : forall fuel limit a r, In (a, r) (anc_iter fuel inner limit) ->
  (exists pre rest, inner = pre ++ SLASH :: rest /\ a = (if is_nil pre then [SLASH] else pre) /\
                    r = (if is_nil rest then None else Some rest)) \/
  (a = [DOT] /\ r = (if is_nil inner then None else Some inner)).
Proof.
  induction fuel as [|f IH]; intros limit a r Hin; cbn [anc_iter] in Hin; [destruct Hin|].
  set (hay := match limit with None => inner | Some i => firstn i inner end) in *.
  destruct (rindex_slash hay) as [idx|] eqn:Er.
  - destruct Hin as [E|Hin].
    + inversion E; subst. left. destruct (rindex_slash_some _ _ Er) as (Hlt & Hnth & _).
      assert (Hlt' : (idx < length inner)%nat).
      { unfold hay in Hlt. destruct limit as [i|]; [rewrite firstn_length in Hlt; lia|exact Hlt]. }
      assert (Hnth' : nth idx inner 0 = SLASH).
      { unfold hay in Hnth, Hlt. destruct limit as [i|]; [|exact Hnth].
        rewrite firstn_length in Hlt. rewrite <- Hnth. symmetry.
        rewrite <- (firstn_skipn i inner) at 2. rewrite app_nth1 by (rewrite firstn_length; lia). reflexivity. }
      exists (firstn idx inner), (skipn (S idx) inner). split; [|split].
      * rewrite <- Hnth'. rewrite <- (skipn_nth_cons 0 inner idx Hlt'). symmetry. apply firstn_skipn.
      * reflexivity.
      * rewrite (skipn_nth_cons 0 inner idx Hlt'), Hnth'. cbn [beq tl].
        rewrite N.eqb_refl. cbn [andb]. destruct (skipn (S idx) inner); reflexivity.
    + destruct (anc_end _); [destruct Hin|]. eapply IH. exact Hin.
  - destruct Hin as [E|[]]. inversion E; subst. right. split; reflexivity.
Qed.

Lemma existsb_dotdot_filter cs : existsb is_dotdot (filter (fun p => negb (noop_part p)) cs) = existsb is_dotdot cs.
Proof.
  induction cs as [|p cs IH]; [reflexivity|]. cbn [filter existsb].
  destruct (noop_part p) eqn:En; cbn [negb].
  - rewrite IH. unfold noop_part in En. apply orb_true_iff in En. destruct En as [En|En].
    + destruct p; [reflexivity|discriminate].
    + unfold is_dot in En. apply beq_true_iff in En. subst p. reflexivity.
  - cbn [existsb]. rewrite IH. reflexivity.
Qed.

(* ---- C12: the handle mkdir_all returns is the kernel's in-root resolution of the path in the resulting tree ---- *)
From PV Require Import StaticBackends DynMkdirAll.

Lemma kwalk_root_slash s nosym o : is_dir s ROOT = true ->
  FSModel.kwalk s [SLASH] false nosym = WOk o -> o = ROOT /\ FSModel.kwalk_q s false nosym FSModel.KERNEL_LINKS ROOT [[]] = WOk ROOT.
Proof.
  intros Hr H. unfold FSModel.kwalk in H. cbn [is_nil raw_components] in H. rewrite N.eqb_refl in H.
  unfold FSModel.KERNEL_LINKS in *. cbn [FSModel.kwalk_q FSModel.kbody] in H |- *. rewrite Hr in *. cbn [negb is_nil orb] in *.
  inversion H; subst. split; reflexivity.
Qed.

Lemma kwalk_root_dot s nosym o : is_dir s ROOT = true -> FSModel.kwalk s [DOT] false nosym = WOk o -> o = ROOT.
Proof.
  intros Hr H. unfold FSModel.kwalk in H. cbn [is_nil raw_components] in H. change (N.eqb DOT SLASH) with false in H. cbv iota in H.
  unfold FSModel.KERNEL_LINKS in H. cbn [FSModel.kwalk_q FSModel.kbody] in H. rewrite Hr in H. cbn [negb is_nil orb] in H.
  change (is_dot [DOT]) with true in H. cbn [orb] in H. inversion H; reflexivity.
Qed.

Lemma default_if_nil (rest : bytes) : match (if is_nil rest then None else Some rest) with Some x => x | None => [] end = rest.
Proof. destruct rest; reflexivity. Qed.

Theorem mkdir_all_handle_is_resolution s s' path nosym o rm c :
  closed2 s -> is_dir s ROOT = true -> path <> [] ->
  kpartial s path nosym = KPartial o rm ENOENT ->           (* the partial lookup on the old tree *)
  extends s s' -> is_dir s o = true ->                      (* what the creation loop did (mk_spec_post) ... *)
  existsb is_dotdot (parts_of (Some rm)) = false ->
  descend_dirs s' o (parts_of (Some rm)) = Some c ->        (* ... and where it ended *)
  FSModel.kwalk s' path false nosym = WOk c.
Proof.
  intros Hc Hroot Hne Hkp Hext Hdir Hdd Hdesc.
  assert (H0 : (ROOT < length (kinds s))%nat) by (destruct Hc as [(H0 & _) _]; exact H0).
  unfold kpartial in Hkp. destruct (kw s path nosym) as [o'|e0] eqn:Ekw; [discriminate|].
  destruct (kpartial_go_in s nosym _ _ _ _ _ Hkp) as (a & r & Hin & Hka & Hrm).
  unfold parts_of in Hdd, Hdesc. rewrite existsb_dotdot_filter in Hdd.
  assert (Hk : FSModel.kwalk s' path false nosym = FSModel.kwalk_q s' false nosym FSModel.KERNEL_LINKS ROOT (raw_components path)).
  { unfold FSModel.kwalk. destruct path; [contradiction|reflexivity]. }
  rewrite Hk. clear Hk Hkp Ekw.
  assert (Ea : FSModel.kwalk s a false nosym = WOk o).
  { unfold kw in Hka. destruct (FSModel.kwalk s a false nosym) as [oa| |]; inversion Hka; reflexivity. }
  clear Hka.
  destruct (anc_iter_shape path _ _ _ _ Hin) as [(pre & rest & Hpath & Ha & Hr)|[Ha Hr]].
  - assert (Hrm' : rm = rest) by (rewrite Hrm, Hr; apply default_if_nil).
    rewrite Hrm' in Hdd, Hdesc. rewrite Hpath, raw_components_app_slash.
    destruct pre as [|p0 pre'].
    + (* the path starts with '/': the ancestor is "/" *)
      cbn [is_nil] in Ha. rewrite Ha in Ea. destruct (kwalk_root_slash s nosym o Hroot Ea) as [Ho Hw]. rewrite Ho in *.
      apply (resolution_after_mkdir_all s s' nosym _ _ _ ROOT ROOT c Hc Hext H0 Hw Hdir Hdd Hdesc).
    + cbn [is_nil] in Ha. rewrite Ha in Ea.
      assert (Hw : FSModel.kwalk_q s false nosym FSModel.KERNEL_LINKS ROOT (raw_components (p0 :: pre')) = WOk o) by exact Ea.
      apply (resolution_after_mkdir_all s s' nosym _ _ _ ROOT o c Hc Hext H0 Hw Hdir Hdd Hdesc).
  - (* no slash left: the ancestor is "." and the whole path remains *)
    rewrite Ha in Ea. pose proof (kwalk_root_dot s nosym o Hroot Ea) as Ho. rewrite Ho in *.
    assert (Hrm' : rm = path) by (rewrite Hrm, Hr; destruct path; [contradiction|reflexivity]).
    rewrite Hrm' in Hdd, Hdesc.
    change (raw_components path) with ([] ++ raw_components path).
    apply (resolution_after_mkdir_all s s' nosym _ [] _ ROOT ROOT c Hc Hext H0); [destruct FSModel.KERNEL_LINKS; reflexivity|exact Hdir|exact Hdd|exact Hdesc].
Qed.

(* ---- C12, the whole statement for the kernel backend and a path with a missing tail ------------ *)

Theorem mkdir_all_kernel_post s rp fz pfuel gh ps rs t root path mode o rm exp :
  fz <> 0%nat -> closed2 s -> is_dir s ROOT = true ->
  ph_mnt gh = Some PROC_MNT -> ph_openat2 gh = true -> rs_kernel rs = true ->
  tget t root = Some ROOT -> tget t (ph_fd gh) = Some (PB s) -> has_nul path = false -> path <> [] ->
  N.ldiff mode MKDIR_ALL_MASK1 = 0 -> N.ldiff mode MKDIR_ALL_MASK2 = 0 ->
  let nosym := has (N.lor OPENAT2_RESOLVE_RESOLVE (rs_flags rs)) RESOLVE_NO_SYMLINKS in
  kpartial s path nosym = KPartial o rm ENOENT ->
  is_dir s o = true -> find_path s o = Some exp -> N.leb READLINK_BUF (N.of_nat (length (render rp exp))) = false ->
  existsb is_dotdot (parts_of (Some rm)) = false ->
  let s' := fst (mk_spec s o (parts_of (Some rm))) in
  (* whatever the outcome: the resulting tree is the old one plus new directories *)
  extends s s' /\
  exists t',
    match snd (mk_spec s o (parts_of (Some rm))) with
    | inl c => exists fd,
        Dyn.drun rp {| ds := s; dt := t; dseen := [] |} (root_mkdir_all fz true (S pfuel) gh ps rs root path mode) =
          DDone {| ds := s'; dt := t'; dseen := [] |} (Ok fd) /\ tget t' fd = Some c /\
        (* the handle is a directory, and it is the kernel's in-root resolution of the path in the resulting tree *)
        is_dir s' c = true /\ FSModel.kwalk s' path false nosym = WOk c
    | inr e =>
        Dyn.drun rp {| ds := s; dt := t; dseen := [] |} (root_mkdir_all fz true (S pfuel) gh ps rs root path mode) =
          DDone {| ds := s'; dt := t'; dseen := [] |} (Err (OsError e))
    end.
Proof.
  intros Hfz Hc Hroot Hmnt Ho2 Hk Htr Htp Hnul Hne Hm1 Hm2 nosym Hkp Hdir Hpath Hshort Hdd s'.
  assert (Holt : (o < length (kinds s))%nat) by (apply is_dir_lt; exact Hdir).
  assert (Hnulr : forall x, Some rm = Some x -> has_nul x = false).
  { intros x Ex. inversion Ex; subst x. unfold kpartial in Hkp. destruct (kw s path nosym) as [o'|e0]; [discriminate|].
    destruct (kpartial_go_in s nosym _ _ _ _ _ Hkp) as (a & r & Hin & _ & Hr). rewrite Hr.
    destruct r as [x|]; [|reflexivity]. exact (proj2 (partial_ancestors_no_nul path a (Some x) Hnul Hin) x eq_refl). }
  pose proof (parts_plain (Some rm) Hnulr Hdd) as Hplain.
  destruct (mk_spec_post (parts_of (Some rm)) s o Hc Holt Hplain) as (Hext & _ & Hpost). fold s' in Hext, Hpost.
  split; [exact Hext|].
  destruct (mkdir_all_kernel s rp fz pfuel gh ps rs Hfz Hc Hmnt Ho2 Hk t root path mode o (Some rm) exp Htr Htp Hnul Hm1 Hm2
              (or_intror (ex_intro _ rm (conj Hkp eq_refl))) Hdir Hpath Hshort Hdd) as (t' & Hres).
  exists t'. fold s' in Hres. destruct (snd (mk_spec s o (parts_of (Some rm)))) as [c|e].
  - destruct Hres as (fd & Hrun & Hfd & _). destruct Hpost as [Hdesc Hcdir]. exists fd.
    split; [exact Hrun|]. split; [exact Hfd|]. split; [exact (Hcdir Hdir)|].
    exact (mkdir_all_handle_is_resolution s s' path nosym o rm c Hc Hroot Hne Hkp Hext Hdir Hdd Hdesc).
  - exact (proj1 Hres).
Qed.
