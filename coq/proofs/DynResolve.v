(* DynResolve.v -- C12: "returns a handle for the in-root resolution of the path" in the RESULTING tree.
   1. [kwalk_q_app]: the kernel walk over  cs1 ++ cs2  is the walk over cs1 (links followed) and then
      the walk over cs2 from where it ended, with what is left of the link budget.
   2. [kwalk_q_extends]: a walk that succeeds on a tree succeeds with the same result on every
      extension of it by new directories.
   3. [kwalk_q_dirs]: below a directory, components that are "" or "." or name real directories
      are walked without the link budget.
   Together: if the walk of the ancestor [a] ends on [o] in the old tree and the creation loop ends on
   [c] along [parts] in the new tree, the walk of  a ++ components-of-the-rest  ends on [c] in the new
   tree ([resolution_after_mkdir_all]). *)
From PV Require Import Dyn BitsProofs PathProofs StaticProofs DynProofs DynMkdir DynEffects.
From PV Require FSModel FSProofs.
From Coq Require Import Lia.
Open Scope N_scope.

Notation WOk := FSModel.WOk.

(* ---- 1. composition ------------------------------------------------------------------------ *)

Lemma kwalk_q_app s nosym : forall b cs1 cur cs2 o,
  FSModel.kwalk_q s false nosym b cur cs1 = WOk o ->
  exists b', (b' <= b)%nat /\ FSModel.kwalk_q s false nosym b cur (cs1 ++ cs2) = FSModel.kwalk_q s false nosym b' o cs2.
Proof.
  induction b as [|b IHb].
  - (* no link can be followed *)
    induction cs1 as [|c rest IH]; intros cur cs2 o H.
    + cbn in H. inversion H; subst. exists 0%nat. split; [lia|reflexivity].
    + cbn [FSModel.kwalk_q FSModel.kbody] in H |- *. cbn [app].
      change (FSModel.kbody s false nosym None) with (FSModel.kwalk_q s false nosym 0) in *.
      cbn [FSModel.kwalk_q FSModel.kbody].
      destruct (negb (FSModel.is_dir s cur)); [discriminate|].
      destruct (is_nil c || is_dot c); [exact (IH _ _ _ H)|].
      destruct (is_dotdot c); [exact (IH _ _ _ H)|].
      destruct (FSModel.lookup s cur c) as [d|]; [|discriminate].
      destruct (FSModel.link_body s d) as [body|]; [|exact (IH _ _ _ H)].
      cbn [andb] in *. rewrite andb_false_r in *. destruct nosym; discriminate.
  - induction cs1 as [|c rest IH]; intros cur cs2 o H.
    + cbn in H. inversion H; subst. exists (S b). split; [lia|reflexivity].
    + cbn [FSModel.kwalk_q FSModel.kbody] in H |- *. cbn [app].
      change (FSModel.kbody s false nosym (Some (FSModel.kwalk_q s false nosym b))) with (FSModel.kwalk_q s false nosym (S b)) in *.
      cbn [FSModel.kwalk_q FSModel.kbody].
      destruct (negb (FSModel.is_dir s cur)); [discriminate|].
      destruct (is_nil c || is_dot c); [exact (IH _ _ _ H)|].
      destruct (is_dotdot c); [exact (IH _ _ _ H)|].
      destruct (FSModel.lookup s cur c) as [d|]; [|discriminate].
      destruct (FSModel.link_body s d) as [body|]; [|exact (IH _ _ _ H)].
      rewrite andb_false_r in *. destruct nosym; [discriminate|].
      rewrite app_assoc.
      destruct (IHb _ _ cs2 _ H) as (b' & Hle & E). exists b'. split; [lia|exact E].
Qed.
