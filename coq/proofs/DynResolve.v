(* DynResolve.v -- C12: "returns a handle for the in-root resolution of the path" in the RESULTING tree.
   1. [kwalk_q_app]: the kernel walk over  cs1 ++ cs2  is the walk over cs1 (links followed) and then
      the walk over cs2 from where it ended, with what is left of the link budget.
   2. [kwalk_q_extends]: a walk that succeeds on a tree succeeds with the same result on every
      extension of it by new directories.
   3. [kwalk_q_dirs]: below a directory, components that are "" or "." or name real directories
      are walked without the link budget.
   Together: if the walk of the ancestor [a] ends on [o] in the old tree and the creation loop ends on
   [c] along [parts] in the new tree, the walk of  a ++ components-of-the-rest  ends on [c] in the new
   tree ([resolution_after_mkdir_all]). *)
From PV Require Import Dyn BitsProofs PathProofs StaticProofs DynProofs DynMkdir DynEffects.
From PV Require FSModel FSProofs.
From Coq Require Import Lia.
Open Scope N_scope.

Notation WOk := FSModel.WOk.

(* ---- 1. composition ------------------------------------------------------------------------ *)

Lemma kwalk_q_app s nosym : forall b cs1 cur cs2 o,
  FSModel.kwalk_q s false nosym b cur cs1 = WOk o ->
  exists b', (b' <= b)%nat /\ FSModel.kwalk_q s false nosym b cur (cs1 ++ cs2) = FSModel.kwalk_q s false nosym b' o cs2.
Proof.
  induction b as [|b IHb].
  - (* no link can be followed *)
    induction cs1 as [|c rest IH]; intros cur cs2 o H.
    + cbn in H. inversion H; subst. exists 0%nat. split; [lia|reflexivity].
    + cbn [FSModel.kwalk_q FSModel.kbody] in H |- *. cbn [app].
      change (FSModel.kbody s false nosym None) with (FSModel.kwalk_q s false nosym 0) in *.
      cbn [FSModel.kwalk_q FSModel.kbody].
      destruct (negb (FSModel.is_dir s cur)); [discriminate|].
      destruct (is_nil c || is_dot c); [exact (IH _ _ _ H)|].
      destruct (is_dotdot c); [exact (IH _ _ _ H)|].
      destruct (FSModel.lookup s cur c) as [d|]; [|discriminate].
      destruct (FSModel.link_body s d) as [body|]; [|exact (IH _ _ _ H)].
      cbn [andb] in *. rewrite andb_false_r in *. destruct nosym; discriminate.
  - induction cs1 as [|c rest IH]; intros cur cs2 o H.
    + cbn in H. inversion H; subst. exists (S b). split; [lia|reflexivity].
    + cbn [FSModel.kwalk_q FSModel.kbody] in H |- *. cbn [app].
      change (FSModel.kbody s false nosym (Some (FSModel.kwalk_q s false nosym b))) with (FSModel.kwalk_q s false nosym (S b)) in *.
      cbn [FSModel.kwalk_q FSModel.kbody].
      destruct (negb (FSModel.is_dir s cur)); [discriminate|].
      destruct (is_nil c || is_dot c); [exact (IH _ _ _ H)|].
      destruct (is_dotdot c); [exact (IH _ _ _ H)|].
      destruct (FSModel.lookup s cur c) as [d|]; [|discriminate].
      destruct (FSModel.link_body s d) as [body|]; [|exact (IH _ _ _ H)].
      rewrite andb_false_r in *. destruct nosym; [discriminate|].
      rewrite app_assoc.
      destruct (IHb _ _ cs2 _ H) as (b' & Hle & E). exists b'. split; [lia|exact E].
Qed.

(* ---- 2. a successful walk survives the creation of directories --------------------------- *)

Lemma is_dir_lt s o : is_dir s o = true -> (o < length (kinds s))%nat.
Proof.
  unfold FSModel.is_dir, FSModel.kind_of. intro H. destruct (Nat.lt_ge_cases o (length (kinds s))) as [Hlt|Hge]; [exact Hlt|].
  rewrite nth_overflow in H by exact Hge. discriminate.
Qed.

Lemma extends_closed2 s s' : extends s s' -> closed2 s -> closed2 s'.
Proof. induction 1 as [s|s s' d n _ IH Hd Hl]; intro Hc; [exact Hc|]. apply closed2_add_obj; [apply IH; exact Hc|apply is_dir_lt; exact Hd]. Qed.

Lemma extends_parents s s' : extends s s' -> closed2 s -> forall o, (o < length (kinds s))%nat ->
  FSModel.parent_of s' o = FSModel.parent_of s o.
Proof.
  induction 1 as [s|s s' d n Hext IH Hd Hl]; intros Hc o Ho; [reflexivity|].
  pose proof (extends_closed2 _ _ Hext Hc) as [_ Hlen'].
  destruct (extends_frame _ _ Hext) as (_ & _ & Hle & _).
  unfold FSModel.parent_of, FSModel.add_obj. cbn [FSModel.parents]. rewrite app_nth1 by lia. apply IH; assumption.
Qed.

Lemma kwalk_q_extends s s' nosym : extends s s' -> closed2 s -> forall b cs cur o,
  (cur < length (kinds s))%nat -> FSModel.kwalk_q s false nosym b cur cs = WOk o ->
  FSModel.kwalk_q s' false nosym b cur cs = WOk o.
Proof.
  intros Hext Hc. destruct (extends_frame _ _ Hext) as (Hk & Hlk & _ & _). pose proof (extends_parents _ _ Hext Hc) as Hpar.
  destruct Hc as [(H0 & Hlkc & Hparc) Hlen]. unfold PB in *.
  assert (Hdir : forall x, (x < length (kinds s))%nat -> is_dir s' x = is_dir s x)
    by (intros x Hx; unfold FSModel.is_dir; rewrite (Hk x Hx); reflexivity).
  assert (Hlb : forall x, (x < length (kinds s))%nat -> FSModel.link_body s' x = FSModel.link_body s x)
    by (intros x Hx; unfold FSModel.link_body; rewrite (Hk x Hx); reflexivity).
  induction b as [|b IHb].
  - induction cs as [|c rest IH]; intros cur o Hcur H; [exact H|].
    cbn [FSModel.kwalk_q FSModel.kbody] in H |- *.
    change (FSModel.kbody s false nosym None) with (FSModel.kwalk_q s false nosym 0) in *.
    change (FSModel.kbody s' false nosym None) with (FSModel.kwalk_q s' false nosym 0) in *.
    rewrite (Hdir cur Hcur). destruct (negb (is_dir s cur)); [discriminate|].
    destruct (is_nil c || is_dot c); [exact (IH _ _ Hcur H)|].
    destruct (is_dotdot c).
    { rewrite (Hpar cur Hcur). apply IH; [|exact H]. destruct (Nat.eqb cur ROOT); [exact H0|apply Hparc, Hcur]. }
    destruct (lookup s cur c) as [d|] eqn:El; [|discriminate]. rewrite (Hlk _ _ _ El).
    pose proof (Hlkc _ _ _ El) as Hd. rewrite (Hlb d Hd).
    destruct (FSModel.link_body s d) as [body|]; [|exact (IH _ _ Hd H)].
    rewrite andb_false_r in *. destruct nosym; discriminate.
  - induction cs as [|c rest IH]; intros cur o Hcur H; [exact H|].
    cbn [FSModel.kwalk_q FSModel.kbody] in H |- *.
    change (FSModel.kbody s false nosym (Some (FSModel.kwalk_q s false nosym b))) with (FSModel.kwalk_q s false nosym (S b)) in *.
    change (FSModel.kbody s' false nosym (Some (FSModel.kwalk_q s' false nosym b))) with (FSModel.kwalk_q s' false nosym (S b)) in *.
    rewrite (Hdir cur Hcur). destruct (negb (is_dir s cur)); [discriminate|].
    destruct (is_nil c || is_dot c); [exact (IH _ _ Hcur H)|].
    destruct (is_dotdot c).
    { rewrite (Hpar cur Hcur). apply IH; [|exact H]. destruct (Nat.eqb cur ROOT); [exact H0|apply Hparc, Hcur]. }
    destruct (lookup s cur c) as [d|] eqn:El; [|discriminate]. rewrite (Hlk _ _ _ El).
    pose proof (Hlkc _ _ _ El) as Hd. rewrite (Hlb d Hd).
    destruct (FSModel.link_body s d) as [body|]; [|exact (IH _ _ Hd H)].
    rewrite andb_false_r in *. destruct nosym; [discriminate|].
    apply IHb; [|exact H]. destruct (is_abs body); [exact H0|exact Hcur].
Qed.

(* ---- 3. below a directory: "" and "." and names of real directories ---------------------- *)

Lemma kwalk_q_dirs s nosym : forall cs b cur c,
  is_dir s cur = true -> existsb is_dotdot cs = false ->
  descend_dirs s cur (filter (fun p => negb (noop_part p)) cs) = Some c ->
  FSModel.kwalk_q s false nosym b cur cs = WOk c.
Proof.
  induction cs as [|p rest IH]; intros b cur c Hdir Hdd H.
  - cbn in H. inversion H; subst. destruct b; reflexivity.
  - cbn [existsb] in Hdd. apply orb_false_iff in Hdd. destruct Hdd as [Hp Hrest].
    assert (Hstep : FSModel.kwalk_q s false nosym b cur (p :: rest) =
                    if is_nil p || is_dot p then FSModel.kwalk_q s false nosym b cur rest
                    else match lookup s cur p with
                         | None => FSModel.WErr (FSModel.name_err p)
                         | Some d => match FSModel.link_body s d with
                                     | None => FSModel.kwalk_q s false nosym b d rest
                                     | Some body => if is_nil rest && false then WOk d else if nosym then FSModel.WErr FSModel.E_LOOP
                                                    else match b with O => FSModel.WBudget
                                                         | S b' => FSModel.kwalk_q s false nosym b' (if is_abs body then ROOT else cur) (raw_components body ++ rest) end
                                     end
                         end).
    { destruct b; cbn [FSModel.kwalk_q FSModel.kbody]; rewrite Hdir, Hp; cbn [negb]; reflexivity. }
    rewrite Hstep. cbn [filter] in H. unfold noop_part in H.
    destruct (is_nil p || is_dot p); cbn [negb] in H; [apply IH; assumption|].
    cbn [descend_dirs] in H. destruct (lookup s cur p) as [d|]; [|discriminate].
    destruct (is_dir s d) eqn:Ed; [|discriminate].
    assert (Hlb : FSModel.link_body s d = None).
    { unfold FSModel.link_body, FSModel.is_dir in *. destruct (FSModel.kind_of s d); try discriminate; reflexivity. }
    rewrite Hlb. apply IH; assumption.
Qed.

(* ---- together ------------------------------------------------------------------------------ *)

Theorem resolution_after_mkdir_all s s' nosym b cs_a cs_r cur o c :
  closed2 s -> extends s s' -> (cur < length (kinds s))%nat ->
  FSModel.kwalk_q s false nosym b cur cs_a = WOk o ->             (* the walk of the existing ancestor, old tree *)
  is_dir s o = true -> existsb is_dotdot cs_r = false ->
  descend_dirs s' o (filter (fun p => negb (noop_part p)) cs_r) = Some c ->     (* where the creation loop ended, new tree *)
  FSModel.kwalk_q s' false nosym b cur (cs_a ++ cs_r) = WOk c.
Proof.
  intros Hc Hext Hcur Hw Hdir Hdd Hdesc.
  pose proof (kwalk_q_extends s s' nosym Hext Hc b cs_a cur o Hcur Hw) as Hw'.
  destruct (kwalk_q_app s' nosym b cs_a cur cs_r o Hw') as (b' & _ & E). rewrite E.
  apply kwalk_q_dirs; [|exact Hdd|exact Hdesc].
  destruct (extends_frame _ _ Hext) as (Hk & _ & _ & _). unfold FSModel.is_dir in *. rewrite (Hk o (is_dir_lt _ _ Hdir)). exact Hdir.
Qed.

(* ---- the path level: an ancestor of the path and what is left of it --------------------------- *)

Lemma raw_components_app_slash x y : raw_components (x ++ SLASH :: y) = raw_components x ++ raw_components y.
Proof.
  induction x as [|c x IH]; cbn [app raw_components].
  - rewrite N.eqb_refl. reflexivity.
  - rewrite IH. destruct (N.eqb c SLASH); [reflexivity|].
    pose proof (raw_components_nonempty x) as Hne. destruct (raw_components x) as [|h t]; [contradiction|reflexivity].
Qed.

(* every item of the ancestors iterator splits the path at one of its slashes, or is ("." , whole path) *)
Lemma anc_iter_shape inner : forall fuel limit a r, In (a, r) (anc_iter fuel inner limit) ->
  (exists pre rest, inner = pre ++ SLASH :: rest /\ a = (if is_nil pre then [SLASH] else pre) /\
                    r = (if is_nil rest then None else Some rest)) \/
  (a = [DOT] /\ r = (if is_nil inner then None else Some inner)).
Proof.
  induction fuel as [|f IH]; intros limit a r Hin; cbn [anc_iter] in Hin; [destruct Hin|].
  set (hay := match limit with None => inner | Some i => firstn i inner end) in *.
  destruct (rindex_slash hay) as [idx|] eqn:Er.
  - destruct Hin as [E|Hin].
    + inversion E; subst. left. destruct (rindex_slash_some _ _ Er) as (Hlt & Hnth & _).
      assert (Hlt' : (idx < length inner)%nat).
      { unfold hay in Hlt. destruct limit as [i|]; [rewrite firstn_length in Hlt; lia|exact Hlt]. }
      assert (Hnth' : nth idx inner 0 = SLASH).
      { unfold hay in Hnth, Hlt. destruct limit as [i|]; [|exact Hnth].
        rewrite firstn_length in Hlt. rewrite <- Hnth. symmetry.
        rewrite <- (firstn_skipn i inner) at 2. rewrite app_nth1 by (rewrite firstn_length; lia). reflexivity. }
      exists (firstn idx inner), (skipn (S idx) inner). split; [|split].
      * rewrite <- Hnth'. rewrite <- (skipn_nth_cons 0 inner idx Hlt'). symmetry. apply firstn_skipn.
      * reflexivity.
      * rewrite (skipn_nth_cons 0 inner idx Hlt'), Hnth'. cbn [beq tl].
        rewrite N.eqb_refl. cbn [andb]. destruct (skipn (S idx) inner); reflexivity.
    + destruct (anc_end _); [destruct Hin|]. eapply IH. exact Hin.
  - destruct Hin as [E|[]]. inversion E; subst. right. split; reflexivity.
Qed.

Lemma existsb_dotdot_filter cs : existsb is_dotdot (filter (fun p => negb (noop_part p)) cs) = existsb is_dotdot cs.
Proof.
  induction cs as [|p cs IH]; [reflexivity|]. cbn [filter existsb].
  destruct (noop_part p) eqn:En; cbn [negb].
  - rewrite IH. unfold noop_part in En. apply orb_true_iff in En. destruct En as [En|En].
    + destruct p; [reflexivity|discriminate].
    + unfold is_dot in En. apply beq_true_iff in En. subst p. reflexivity.
  - cbn [existsb]. rewrite IH. reflexivity.
Qed.
