(* SymlinkProofs.v -- C15: the protected_symlinks decision, for all uids and modes. *)
From PV Require Import Symlinks OpathM Discipline ProgTac.
Open Scope N_scope.

Arguments N.eqb : simpl never.
Arguments N.land : simpl never.

Lemma trailing_exact sysctl fsuid dm du lu :
  emu_may_follow sysctl fsuid dm du lu true = k_may_follow sysctl fsuid dm du lu true.
Proof. unfold emu_may_follow, k_may_follow. cbn [negb]. rewrite andb_false_r. reflexivity. Qed.

(* F-G: needs the source to restrict the rule to trailing positions (T0: EMU_PS_ONLY_TRAILING) *)
Lemma only_trailing : EMU_PS_ONLY_TRAILING = true.
Proof. reflexivity. Qed.

(* which positions are trailing: the kernel treats a link as trailing when nothing but
   trailing slashes follows it (lookup_last with LOOKUP_DIRECTORY); T0: the source does too *)
Definition k_trailing (rest : list bytes) : bool := forallb (@is_nil N) rest.

Lemma slashes_trailing : EMU_PS_SLASHES_TRAILING = true.
Proof. reflexivity. Qed.

Lemma trailing_notion_exact rest : ps_trailing rest = k_trailing rest.
Proof. unfold ps_trailing, k_trailing. rewrite slashes_trailing. reflexivity. Qed.

Lemma positions_exact sysctl fsuid dm du lu trailing :
  emu_may_follow sysctl fsuid dm du lu trailing = k_may_follow sysctl fsuid dm du lu trailing.
Proof. unfold emu_may_follow, k_may_follow. rewrite only_trailing. reflexivity. Qed.

Lemma off_nothing_refused fsuid dm du lu trailing :
  k_may_follow 0 fsuid dm du lu trailing = true /\ emu_may_follow 0 fsuid dm du lu trailing = true.
Proof. unfold k_may_follow, emu_may_follow, ps_rule. cbn. rewrite !orb_true_r. split; reflexivity. Qed.

Lemma refusal_characterised sysctl fsuid dm du lu trailing :
  k_may_follow sysctl fsuid dm du lu trailing = false <->
  trailing = true /\ sysctl <> 0 /\ lu <> fsuid /\ N.land dm STICKY_WRITABLE = STICKY_WRITABLE /\ lu <> du.
Proof.
  unfold k_may_follow, ps_rule. split.
  - intro H. apply orb_false_iff in H as [Ht H]. apply orb_false_iff in H as [H H4].
    apply orb_false_iff in H as [H H3]. apply orb_false_iff in H as [H1 H2].
    repeat split.
    + destruct trailing; [reflexivity|discriminate].
    + apply N.eqb_neq. exact H1.
    + apply N.eqb_neq. exact H2.
    + apply N.eqb_eq. apply negb_false_iff. exact H3.
    + apply N.eqb_neq. exact H4.
  - intros (-> & H1 & H2 & H3 & H4). cbn [negb orb].
    apply N.eqb_neq in H1, H2, H4. rewrite H1, H2, H4, H3, N.eqb_refl. reflexivity.
Qed.

(* the syscall-level program: geteuid, fstat(dir), fstat(link), then exactly [ps_rule] on the answers *)
Lemma prog_rule fz sysctl dir link :
  peq (may_follow_link fz sysctl dir link)
      (Call Geteuid (fun ru =>
         dm <-? os (w_fstatat fz dir []) ;;
         lm <-? os (w_fstatat fz link []) ;;
         Ret (if ps_rule sysctl (z2n (as_num ru)) (st_mode dm) (st_uid dm) (st_uid lm) then Ok tt else Err (OsError EACCES)))).
Proof.
  unfold may_follow_link. constructor. intro ru.
  apply peq_bind; [apply peq_refl|]. intros [dm|e]; [|apply peq_refl].
  apply peq_bind; [apply peq_refl|]. intros [lm|e]; [|apply peq_refl].
  unfold ps_rule. destruct (_ || _ || _ || _); apply peq_refl.
Qed.
