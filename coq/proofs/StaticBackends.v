(* StaticBackends.v -- C04: on the static kernel the two resolver backends return
   descriptors for the same object, or the same errno.  The kernel backend is one
   openat2(RESOLVE_IN_ROOT) call, whose answer the static kernel takes from [kwalk];
   the emulated backend's program computes [ewalk] (StaticProofs), and
   [ewalk] = [kwalk] within the kernel's link budget (FSProofs). *)
From PV Require Import Static PathProofs StaticProofs CheckProofs StaticProcfs StaticProcfsEmu RootM BitsProofs.
From PV Require FSModel FSProofs.
Open Scope N_scope.

Arguments N.lor : simpl never.
Arguments N.land : simpl never.
Arguments N.eqb : simpl never.

(* the errnos the kernel walk can answer with: never ENOSYS, never EAGAIN *)
Definition walk_errno (e : N) : Prop := e = ENOENT \/ e = ENOTDIR \/ e = ELOOP \/ e = ENAMETOOLONG.

Lemma name_err_kind c : walk_errno (FSModel.name_err c).
Proof. unfold FSModel.name_err, walk_errno. destruct (Nat.ltb 255 (length c)); [right; right; right|left]; reflexivity. Qed.

Lemma kbody_errno s nf nosym follow :
  (forall go, follow = Some go -> forall cur cs e, go cur cs = FSModel.WErr e -> walk_errno e) ->
  forall cs cur e, FSModel.kbody s nf nosym follow cur cs = FSModel.WErr e -> walk_errno e.
Proof.
  intros Hgo cs. induction cs as [|c rest IH]; intros cur e; cbn [FSModel.kbody]; [discriminate|].
  destruct (negb (FSModel.is_dir s cur)); [intro H; inversion H; right; left; reflexivity|].
  destruct (is_nil c || is_dot c); [apply IH|].
  destruct (is_dotdot c); [apply IH|].
  destruct (FSModel.lookup s cur c) as [d|]; [|intro H; inversion H; apply name_err_kind].
  destruct (FSModel.link_body s d) as [body|]; [|apply IH].
  destruct (is_nil rest && nf); [discriminate|].
  destruct nosym; [intro H; inversion H; right; right; left; reflexivity|].
  destruct follow as [go|]; [|discriminate]. apply (Hgo go eq_refl).
Qed.

Lemma kwalk_q_errno s nf nosym budget : forall cur cs e, FSModel.kwalk_q s nf nosym budget cur cs = FSModel.WErr e -> walk_errno e.
Proof.
  induction budget as [|b IH]; intros cur cs e; cbn [FSModel.kwalk_q]; apply kbody_errno.
  - discriminate.
  - intros go Hgo. inversion Hgo; subst. exact IH.
Qed.

Lemma kwalk_errno s p nf nosym e : FSModel.kwalk s p nf nosym = FSModel.WErr e -> walk_errno e.
Proof.
  unfold FSModel.kwalk. destruct (is_nil p); [intro H; inversion H; left; reflexivity|]. apply kwalk_q_errno.
Qed.

Section KB.
Variable s : fs.
Variable rp : bytes.
Variable fz : nat.
Hypothesis Hfz : fz <> 0%nat.
Hypothesis Hclosed : closed s.
Notation run := (run s rp).

(* openat2::resolve on the static kernel: the kernel's walk, one call *)
Theorem run_k_resolve t root path rflags nofollow :
  tget t root = Some ROOT -> has_nul path = false ->
  match FSModel.kwalk s path nofollow (has (N.lor OPENAT2_RESOLVE_RESOLVE rflags) RESOLVE_NO_SYMLINKS) with
  | FSModel.WOk o => run t (k_resolve fz true root path rflags nofollow) = Done ((fresh t, o) :: t) (Ok (fresh t))
  | FSModel.WErr n => run t (k_resolve fz true root path rflags nofollow) = Done t (Err (OsError n))
  | FSModel.WBudget => run t (k_resolve fz true root path rflags nofollow) = Done t (Err (OsError ELOOP))
  end.
Proof.
  intros Hroot Hnul. destruct Hclosed as (HPB & _ & _).
  unfold k_resolve. cbn [negb].
  change (N.to_nat OPENAT2_RETRIES) with (S 15). cbn [k_resolve_loop].
  set (oflags := if nofollow then N.lor OPENAT2_RESOLVE_OFLAGS OPENAT2_RESOLVE_NOFOLLOW else OPENAT2_RESOLVE_OFLAGS).
  set (res := N.lor OPENAT2_RESOLVE_RESOLVE rflags).
  assert (Hnf : has (openat2_flags oflags) O_NOFOLLOW = nofollow) by (unfold oflags; destruct nofollow; vm_compute; reflexivity).
  assert (Hop : has (openat2_flags oflags) O_PATH = true) by (unfold oflags; destruct nofollow; vm_compute; reflexivity).
  assert (Hir : has res RESOLVE_IN_ROOT = true) by (unfold res; apply has_lor_l; vm_compute; reflexivity).
  rewrite (run_bind s rp). unfold w_openat2. rewrite (tget_valid _ _ _ Hroot), Hnul, andb_false_r. cbn [negb Static.run].
  rewrite (to_c_string_id path Hnul). unfold answer. cbn [sem]. rewrite Hroot.
  destruct (Nat.ltb_spec ROOT (PB s)) as [_|Hb]; [|unfold ROOT, FSModel.ROOT in Hb; lia].
  rewrite Nat.eqb_refl, Hir, Hop, Hnf. cbn [andb].
  destruct (FSModel.kwalk s path nofollow (has res RESOLVE_NO_SYMLINKS)) as [o|n|] eqn:Ek.
  - cbn [as_fd]. pose proof (fresh_ge3 t). destruct (Z.leb_spec 0 (fresh t)); [reflexivity|lia].
  - cbn [as_fd]. rewrite (run_fail1 s rp fz Hfz). cbv iota.
    destruct (kwalk_errno s path nofollow _ n Ek) as [ -> | [ -> | [ -> | -> ] ] ]; reflexivity.
  - cbn [as_fd]. rewrite (run_fail1 s rp fz Hfz). reflexivity.
Qed.

End KB.

(* both backends, same arguments, same tree: same object or same errno *)
Theorem backends_agree s rp df fz pf gh o2 ps t root path nofollow rflags :
  FSProofs.wf s df -> links_ok s -> names_ok s -> closed s -> paths_found s -> paths_short s rp -> is_abs rp = true ->
  fz <> 0%nat -> ph_mnt gh = Some PROC_MNT -> ph_openat2 gh = o2 ->
  Frame s [(ph_fd gh, PB s)] t -> tget t root = Some ROOT -> has_nul path = false ->
  (EMPTY_PATH_IS_ENOENT = true \/ path <> []) ->
  let nosym := has rflags RESOLVE_NO_SYMLINKS in
  let kern := {| rs_kernel := true; rs_flags := rflags |} in
  let emu := {| rs_kernel := false; rs_flags := rflags |} in
  match FSModel.kwalk s path nofollow nosym with
  | FSModel.WOk o =>
      (exists t1 fd1, run s rp t (r_resolve fz true (S pf) gh ps kern root path nofollow) = Done t1 (Ok fd1) /\ tget t1 fd1 = Some o) /\
      (exists t2 fd2, run s rp t (r_resolve fz o2 (S pf) gh ps emu root path nofollow) = Done t2 (Ok fd2) /\ tget t2 fd2 = Some o)
  | FSModel.WErr n =>
      (exists t1, run s rp t (r_resolve fz true (S pf) gh ps kern root path nofollow) = Done t1 (Err (OsError n))) /\
      (exists t2, run s rp t (r_resolve fz o2 (S pf) gh ps emu root path nofollow) = Done t2 (Err (OsError n)))
  | FSModel.WBudget => True      (* more than 40 link traversals: outside C04's quantification (F-H) *)
  end.
Proof.
  intros Hwf Hl Hn Hcl Hpf Hps Habs Hfz Hmnt Ho2 Hfr Hroot Hnul Hp nosym kern emu.
  assert (Hns : has (N.lor OPENAT2_RESOLVE_RESOLVE rflags) RESOLVE_NO_SYMLINKS = nosym).
  { unfold nosym. destruct (has rflags RESOLVE_NO_SYMLINKS) eqn:E; [apply has_lor_r, E|].
    apply not_true_is_false. intro H. rewrite has_spec in H.
    assert (Hb : N.testbit rflags 2 = true).
    { specialize (H 2 eq_refl). rewrite N.lor_spec in H. apply orb_true_iff in H as [H|H]; [vm_compute in H; discriminate|exact H]. }
    assert (E' : has rflags RESOLVE_NO_SYMLINKS = true).
    { apply has_spec. intros i Hi. destruct (N.eq_dec i 2) as [->|Hne]; [exact Hb|].
      exfalso. change RESOLVE_NO_SYMLINKS with 4 in Hi. destruct i as [|p]; [discriminate|].
      destruct p as [p|p|]; try discriminate. destruct p as [p|p|]; try discriminate; try (destruct p; discriminate). contradiction. }
    congruence. }
  pose proof (run_k_resolve s rp fz Hfz Hcl t root path rflags nofollow Hroot Hnul) as Hk. rewrite Hns in Hk.
  pose proof (resolve_static s rp _ Hcl fz Hfz _
                (check_current_static s rp _ (CheckProofs.nf rp) _ Hn
                   (match o2 as b0 return ph_openat2 gh = b0 -> getpath_ok s rp [(ph_fd gh, PB s)] (CheckProofs.nf rp) (as_unsafe_path fz b0 (S pf) gh) with
                    | true => fun E => getpath_static s rp fz gh pf Hfz Hmnt E Habs Hn Hpf Hps
                    | false => fun E => getpath_static_emu s rp fz gh pf Hfz Hmnt E Habs Hn Hpf Hps
                    end Ho2))
                df Hwf Hl ps nosym nofollow t root path Hfr Hroot Hnul) as He.
  destruct (FSModel.kwalk s path nofollow nosym) as [o|n|] eqn:Ek; [| |exact I].
  - rewrite (FSProofs.emu_eq_kernel s df Hwf path nofollow nosym Hp) in He by (rewrite Ek; discriminate). rewrite Ek in He.
    split.
    + unfold r_resolve, kern. cbn [rs_kernel rs_flags]. eexists; eexists; split; [exact Hk|apply tget_new].
    + unfold r_resolve, emu. cbn [rs_kernel rs_flags]. fold nosym. rewrite resolve_is_gen. exact He.
  - rewrite (FSProofs.emu_eq_kernel s df Hwf path nofollow nosym Hp) in He by (rewrite Ek; discriminate). rewrite Ek in He.
    split.
    + unfold r_resolve, kern. cbn [rs_kernel rs_flags]. eexists; exact Hk.
    + unfold r_resolve, emu. cbn [rs_kernel rs_flags]. fold nosym. rewrite resolve_is_gen. exact He.
Qed.
