From PV Require Import Dyn BitsProofs PathProofs StaticProofs ProgTac StaticBal FaultProofs EffectProofs BeneathProofs DynProofs DynMkdir DynMkdirAll DynResolve.
From PV Require FSModel FSProofs.
From Coq Require Import Lia.
Open Scope N_scope.

(* C12, completeness: when every component that exists along the chain is a directory and the names are plain and
   not too long, the creation loop goes through -- mkdir_all has no reason to fail there, and does not *)

Definition dirs_ok (s : fs) : Prop := forall e, In e (ents s) -> (ent_dir e < length (kinds s))%nat.

Lemma dirs_ok_add_obj s d n k : dirs_ok s -> (d < length (kinds s))%nat -> dirs_ok (FSModel.add_obj s d n k).
Proof.
  intros H Hd e He. unfold FSModel.add_obj in *. cbn [FSModel.ents FSModel.kinds] in *. rewrite app_length. cbn [length].
  apply in_app_or in He. destruct He as [He|[<-|[]]]; [specialize (H e He); lia|cbn [ent_dir fst]; lia].
Qed.

Lemma find_ent_dir_in es o n c : FSModel.find_ent es o n = Some c -> exists e, In e es /\ ent_dir e = o.
Proof.
  induction es as [|[[d0 n0] c0] es IH]; [discriminate|]. cbn [FSModel.find_ent]. intros E.
  destruct (Nat.eqb_spec o d0) as [->|Hne]; cbn [andb] in E.
  - destruct (beq n n0); [exists (d0, n0, c0); split; [left; reflexivity|reflexivity]|].
    destruct (IH E) as (e & He & Hd). exists e. split; [right; exact He|exact Hd].
  - destruct (IH E) as (e & He & Hd). exists e. split; [right; exact He|exact Hd].
Qed.

Lemma lookup_fresh_dir s o n : dirs_ok s -> (length (kinds s) <= o)%nat -> lookup s o n = None.
Proof.
  intros H Ho. destruct (lookup s o n) as [c|] eqn:E; [|reflexivity]. exfalso.
  unfold FSModel.lookup in E. destruct (find_ent_dir_in _ _ _ _ E) as (e & He & Hd). specialize (H e He). lia.
Qed.

(* every component that exists is a directory *)
Fixpoint chain_ok (s : fs) (o : nat) (ps : list bytes) : Prop :=
  match ps with
  | [] => True
  | p :: rest => too_long p = false /\
                 match lookup s o p with
                 | None => Forall (fun q => too_long q = false) rest
                 | Some c => is_dir s c = true /\ chain_ok s c rest
                 end
  end.

Lemma mk_spec_fresh : forall ps s o, closed2 s -> dirs_ok s -> (o < length (kinds s))%nat -> is_dir s o = true ->
  Forall (fun p => Dyn.plain p = true) ps -> Forall (fun q => too_long q = false) ps ->
  match ps with [] => True | p :: _ => lookup s o p = None end ->
  exists c, snd (mk_spec s o ps) = inl c.
Proof.
  induction ps as [|p rest IH]; intros s o Hc Hdo Ho Hdir Hpl Hlen Hfirst; cbn [mk_spec]; [eexists; reflexivity|].
  inversion Hpl as [|? ? Hp Hprest]; subst. inversion Hlen as [|? ? Hl Hlrest]; subst.
  destruct (plain_facts _ Hp) as (Hnil & Hd & Hdd & Hsl & Hnu).
  unfold mk_dir, create_sem. rewrite Hdir, Hnil, Hsl, Hnu, Hd, Hdd, Hl, Hfirst. cbn [negb orb].
  set (s1 := FSModel.add_obj s o p FSModel.KDir). set (nw := length (kinds s)).
  assert (Hl1 : lookup s1 o p = Some nw) by (unfold s1; rewrite lookup_add_obj, Hfirst, Nat.eqb_refl, PathProofs.beq_refl; reflexivity).
  assert (Hd1 : is_dir s1 nw = true) by (unfold FSModel.is_dir, s1, nw; rewrite kind_add_obj_new; reflexivity).
  assert (Hdo1 : is_dir s1 o = true) by (unfold FSModel.is_dir, s1 in *; rewrite kind_add_obj_old by exact Ho; exact Hdir).
  unfold mk_open, open1. rewrite Hdo1, Hd, Hdd, Hl1. cbn [negb]. cbv iota beta. rewrite Hd1.
  assert (Hc1 : closed2 s1) by (apply closed2_add_obj; assumption).
  assert (Hdirs1 : dirs_ok s1) by (apply dirs_ok_add_obj; assumption).
  assert (Hnw : (nw < length (kinds s1))%nat) by (unfold s1, nw, FSModel.add_obj; cbn [FSModel.kinds]; rewrite app_length; cbn; lia).
  apply (IH s1 nw Hc1 Hdirs1 Hnw Hd1 Hprest Hlrest).
  destruct rest as [|q rest']; [exact I|]. unfold s1. rewrite lookup_add_obj. rewrite (lookup_fresh_dir s nw q Hdo (Nat.le_refl _)).
    destruct (Nat.eqb_spec nw o) as [E|_]; [unfold nw in E; lia|reflexivity].
Qed.

Theorem mk_spec_complete : forall ps s o, closed2 s -> dirs_ok s -> (o < length (kinds s))%nat -> is_dir s o = true ->
  Forall (fun p => Dyn.plain p = true) ps -> chain_ok s o ps -> exists c, snd (mk_spec s o ps) = inl c.
Proof.
  induction ps as [|p rest IH]; intros s o Hc Hdo Ho Hdir Hpl Hch; [eexists; reflexivity|].
  cbn [chain_ok] in Hch. destruct Hch as [Hl Hch].
  destruct (lookup s o p) as [c|] eqn:El.
  - destruct Hch as [Hcd Hrest]. inversion Hpl as [|? ? Hp Hprest]; subst.
    destruct (plain_facts _ Hp) as (Hnil & Hd & Hdd & Hsl & Hnu).
    cbn [mk_spec]. unfold mk_dir, create_sem. rewrite Hdir, Hnil, Hsl, Hnu, Hd, Hdd, Hl, El. cbn [negb orb].
    change (N.eqb EEXIST EEXIST) with true. cbv iota.
    unfold mk_open, open1. rewrite Hdir, Hd, Hdd, El. cbn [negb]. cbv iota beta. rewrite Hcd.
    destruct Hc as [(H0 & Hlk & Hpar) Hlen']. pose proof (Hlk _ _ _ El) as Hclt. unfold PB in Hclt.
    apply IH; try assumption. split; [split; [exact H0|split; assumption]|exact Hlen'].
  - apply (mk_spec_fresh (p :: rest) s o Hc Hdo Ho Hdir Hpl); [constructor; assumption|exact El].
Qed.

Theorem mkdir_all_kernel_succeeds s rp fz pfuel gh ps rs t root path mode o rm exp :
  fz <> 0%nat -> closed2 s -> dirs_ok s -> is_dir s ROOT = true ->
  ph_mnt gh = Some PROC_MNT -> ph_openat2 gh = true -> rs_kernel rs = true ->
  tget t root = Some ROOT -> tget t (ph_fd gh) = Some (PB s) -> has_nul path = false -> path <> [] ->
  N.ldiff mode MKDIR_ALL_MASK1 = 0 -> N.ldiff mode MKDIR_ALL_MASK2 = 0 ->
  let nosym := has (N.lor OPENAT2_RESOLVE_RESOLVE (rs_flags rs)) RESOLVE_NO_SYMLINKS in
  kpartial s path nosym = KPartial o rm ENOENT ->
  is_dir s o = true -> find_path s o = Some exp -> N.leb READLINK_BUF (N.of_nat (length (render rp exp))) = false ->
  existsb is_dotdot (parts_of (Some rm)) = false ->
  (* every remaining component that exists is a directory, and no name is longer than NAME_MAX *)
  chain_ok s o (parts_of (Some rm)) ->
  let s' := fst (mk_spec s o (parts_of (Some rm))) in
  exists t' fd c,
    Dyn.drun rp {| ds := s; dt := t; dseen := [] |} (root_mkdir_all fz true (S pfuel) gh ps rs root path mode) =
      DDone {| ds := s'; dt := t'; dseen := [] |} (Ok fd) /\ tget t' fd = Some c /\
    is_dir s' c = true /\ FSModel.kwalk s' path false nosym = WOk c /\ extends s s'.
Proof.
  intros Hfz Hc Hdo Hroot Hmnt Ho2 Hk Htr Htp Hnul Hne Hm1 Hm2 nosym Hkp Hdir Hpath Hshort Hdd Hch s'.
  assert (Holt : (o < length (kinds s))%nat) by (apply is_dir_lt; exact Hdir).
  assert (Hnulr : forall x, Some rm = Some x -> has_nul x = false).
  { intros x Ex. inversion Ex; subst x. unfold kpartial in Hkp. destruct (kw s path nosym) as [o'|e0]; [discriminate|].
    destruct (kpartial_go_in s nosym _ _ _ _ _ Hkp) as (a & r & Hin & _ & Hr). rewrite Hr.
    destruct r as [x|]; [|reflexivity]. exact (proj2 (partial_ancestors_no_nul path a (Some x) Hnul Hin) x eq_refl). }
  pose proof (parts_plain (Some rm) Hnulr Hdd) as Hplain.
  destruct (mk_spec_complete _ s o Hc Hdo Holt Hdir Hplain Hch) as (c & Hsucc).
  destruct (mkdir_all_kernel_post s rp fz pfuel gh ps rs t root path mode o rm exp Hfz Hc Hroot Hmnt Ho2 Hk Htr Htp Hnul Hne Hm1 Hm2 Hkp Hdir Hpath Hshort Hdd)
    as (Hext & t' & Hpost).
  rewrite Hsucc in Hpost. destruct Hpost as (fd & Hrun & Hget & Hd & Hw).
  exists t', fd, c. repeat split; assumption.
Qed.
