(* FaultProofs.v -- C10: panic sites, the bounded EAGAIN loops, and the
   fail-closed comparisons, for all kernel answers (hence all fault plans). *)
From PV Require Import Discipline ProgTac BitsProofs PathProofs DisciplineProofs OpathDisc RootDisc.
Open Scope N_scope.

Arguments N.eqb : simpl never.

(* With the source as it is now, the only reachable Panic sites are the
   thread-self candidate exhaustion and the Rc::try_unwrap expect. *)
Lemma allowed_now s : allowed_panic s -> s = PANIC_THREAD_SELF \/ s = PANIC_RC_UNWRAP.
Proof.
  intros [H|[H|[[H _]|[H _]]]]; [left; exact H|right; exact H|discriminate H|discriminate H].
Qed.

Definition known_sites (s : N) : Prop := s = PANIC_THREAD_SELF \/ s = PANIC_RC_UNWRAP.

Lemma okp_known {A} P (Q : A -> Prop) (p : prog A) : okp P allowed_panic Q p -> only_panics known_sites p.
Proof. intro H. induction H; constructor; auto. apply allowed_now. assumption. Qed.

(* ---- results: all Ret leaves satisfy Q ------------------------------------------ *)

Definition TC : call -> Prop := fun _ => True.
Definition TS : N -> Prop := fun _ => True.
Notation rets := (okp TC TS).

Lemma rets_any {A} (p : prog A) : rets (fun _ => True) p.
Proof. induction p; constructor; auto; exact I. Qed.

Definition not_eagain (r : result Z ekind) : Prop := r <> Err (OsError EAGAIN).

(* EAGAIN from openat2 never surfaces from the retry loops: it is retried, and
   after the last try reported as a SafetyViolation *)
Lemma k_resolve_loop_no_eagain fz n root path fl rs : rets not_eagain (k_resolve_loop fz n root path fl rs).
Proof.
  induction n as [|m IH]; cbn [k_resolve_loop]; [constructor; discriminate|].
  eapply okp_bind; [apply rets_any|]. intros r _.
  destruct r as [fd|e]; [constructor; discriminate|].
  destruct (N.eqb e ENOSYS); [constructor; discriminate|].
  destruct (N.eqb e EAGAIN) eqn:E; [exact IH|].
  constructor. intro H. inversion H; subst. discriminate E.
Qed.

Lemma openat2_retry_no_eagain fz n root path fl rs : rets not_eagain (openat2_retry fz n root path fl rs).
Proof.
  induction n as [|m IH]; cbn [openat2_retry]; [constructor; discriminate|].
  eapply okp_bind; [apply rets_any|]. intros r _.
  destruct r as [fd|e]; [constructor; discriminate|].
  destruct (N.eqb e EAGAIN) eqn:E; [exact IH|].
  constructor. intro H. inversion H; subst. discriminate E.
Qed.

Lemma k_open_loop_no_eagain fz n root path fl rs : rets not_eagain (k_open_loop fz n root path fl rs).
Proof. apply openat2_retry_no_eagain. Qed.

Lemma procfs_retries_positive : N.eqb PROCFS_OPENAT2_RETRIES 0 = false.
Proof. reflexivity. Qed.

Lemma openat2_resolve_no_eagain fz cfg root path fl rf : rets not_eagain (openat2_resolve fz cfg root path fl rf).
Proof.
  unfold openat2_resolve. destruct (negb cfg); [constructor; discriminate|].
  rewrite procfs_retries_positive. apply openat2_retry_no_eagain.
Qed.

(* F-J: requires the one-shot open to have a retry loop at all *)
Lemma open_retries_positive : N.eqb OPENAT2_OPEN_RETRIES 0 = false.
Proof. reflexivity. Qed.

Lemma k_open_no_eagain fz cfg root path rf fl : rets not_eagain (k_open fz cfg root path rf fl).
Proof.
  unfold k_open. destruct (negb cfg); [constructor; discriminate|].
  rewrite open_retries_positive. apply k_open_loop_no_eagain.
Qed.

Lemma k_resolve_no_eagain fz cfg root path rf nf : rets not_eagain (k_resolve fz cfg root path rf nf).
Proof.
  unfold k_resolve. destruct (negb cfg); [constructor; discriminate|]. apply k_resolve_loop_no_eagain.
Qed.

(* resolve_partial never turns a safety violation (in particular exhausted
   EAGAIN retries) into a partial result *)
Definition partial_not_from_violation (r : result lookup ekind) : Prop :=
  match r with
  | Ok (Partial _ _ e) => is_safety_violation e = false /\ e <> OsError EAGAIN
  | _ => True
  end.

Lemma k_resolve_partial_sound fz cfg root path rf nf :
  rets partial_not_from_violation (k_resolve_partial fz cfg root path rf nf).
Proof.
  unfold k_resolve_partial.
  eapply okp_bind; [apply k_resolve_no_eagain|]. intros r Hr.
  destruct r as [fd|e0]; [constructor; exact I|].
  assert (H0 : e0 <> OsError EAGAIN) by (intro; subst; apply Hr; reflexivity).
  revert H0. generalize (partial_ancestors path) e0. intro anc.
  induction anc as [|[p rem] rest IH]; intros last Hlast.
  - destruct PARTIAL_UNREACHABLE_PANICS; constructor; exact I.
  - destruct (is_safety_violation last) eqn:Esv; [constructor; exact I|].
    eapply okp_bind; [apply k_resolve_no_eagain|]. intros r2 Hr2.
    destruct r2 as [fd|e].
    + constructor. split; [exact Esv|exact Hlast].
    + apply IH. intro; subst; apply Hr2; reflexivity.
Qed.

(* ---- at most [n] calls of a given kind on any path ----------------------------- *)

Inductive calls_le {A} (f : call -> bool) : nat -> prog A -> Prop :=
| cl_ret n a : calls_le f n (Ret a)
| cl_call_hit n c k : f c = true -> (forall r, calls_le f n (k r)) -> calls_le f (S n) (Call c k)
| cl_call_miss n c k : f c = false -> (forall r, calls_le f n (k r)) -> calls_le f n (Call c k)
| cl_panic n s : calls_le f n (Panic s)
| cl_fuel n : calls_le f n OutOfFuel.

Lemma calls_le_mono {A} f n m (p : prog A) : calls_le f n p -> (n <= m)%nat -> calls_le f m p.
Proof.
  intro H. revert m. induction H as [n a | n c k Hf Hk IH | n c k Hf Hk IH | n s | n]; intros m' Hle.
  - constructor.
  - destruct m' as [|m'']; [lia|]. apply cl_call_hit; [assumption|]. intro r. apply IH. lia.
  - apply cl_call_miss; [assumption|]. intro r. apply IH. exact Hle.
  - constructor.
  - constructor.
Qed.

Lemma calls_le_bind {A B} f n m (p : prog A) (g : A -> prog B) :
  calls_le f n p -> (forall a, calls_le f m (g a)) -> calls_le f (n + m) (bind p g).
Proof.
  intros Hp Hg. induction Hp as [n a | n c k Hf Hk IH | n c k Hf Hk IH | n s | n]; cbn.
  - eapply calls_le_mono; [apply Hg|lia].
  - apply cl_call_hit; [assumption|]. intro r. apply IH.
  - apply cl_call_miss; [assumption|]. intro r. apply IH.
  - constructor.
  - constructor.
Qed.

Definition is_openat2 (c : call) : bool := match c with Openat2 _ _ _ _ _ => true | _ => false end.

Lemma frozen_no_openat2 fz : forall fd, calls_le is_openat2 0 (frozen fz fd).
Proof.
  induction fz as [|f IH]; intro fd; cbn [frozen]; [constructor|].
  apply cl_call_miss; [reflexivity|]. intro rt.
  generalize (thread_self_cands (as_num rt)). intro cands.
  induction cands as [|c rest IHc]; [constructor|].
  apply cl_call_miss; [reflexivity|]. intro r. destruct (as_stat r).
  - destruct (proc_subpath fd); [|constructor]. apply cl_call_miss; [reflexivity|]. intro; constructor.
  - change 0%nat with (0 + 0)%nat. apply calls_le_bind; [apply IH|]. intro. exact IHc.
Qed.

Lemma w_openat2_one fz fd p fl m rs : calls_le is_openat2 1 (w_openat2 fz fd p fl m rs).
Proof.
  unfold w_openat2. destruct (negb (valid_fd fd)); [constructor|].
  destruct (OPENAT2_NUL_EINVAL && has_nul p).
  { eapply calls_le_mono; [|apply Nat.le_0_1]. unfold fail1. change 0%nat with (0 + 0)%nat.
    apply calls_le_bind; [apply frozen_no_openat2|]. intro; constructor. }
  apply cl_call_hit; [reflexivity|]. intro r. destruct (as_fd r); [constructor|].
  unfold fail1. change 0%nat with (0 + 0)%nat. apply calls_le_bind; [apply frozen_no_openat2|]. intro; constructor.
Qed.

Lemma k_resolve_loop_bounded fz n root path fl rs :
  calls_le is_openat2 n (k_resolve_loop fz n root path fl rs).
Proof.
  induction n as [|m IH]; cbn [k_resolve_loop]; [constructor|].
  change (S m) with (1 + m)%nat. apply calls_le_bind; [apply w_openat2_one|].
  intros [fd|e]; [constructor|].
  destruct (N.eqb e ENOSYS); [constructor|]. destruct (N.eqb e EAGAIN); [exact IH|constructor].
Qed.

Lemma openat2_retry_bounded fz n root path fl rs :
  calls_le is_openat2 n (openat2_retry fz n root path fl rs).
Proof.
  induction n as [|m IH]; cbn [openat2_retry]; [constructor|].
  change (S m) with (1 + m)%nat. apply calls_le_bind; [apply w_openat2_one|].
  intros [fd|e]; [constructor|]. destruct (N.eqb e EAGAIN); [exact IH|constructor].
Qed.

(* statx-less kernels: mount-id comparisons fail closed *)
Lemma mntid_fail_closed a : opt_n_eqb (Some a) None = false /\ opt_n_eqb None (Some a) = false.
Proof. split; reflexivity. Qed.

