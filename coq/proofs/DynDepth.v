From PV Require Import Dyn BitsProofs PathProofs StaticProofs ProgTac StaticBal FaultProofs EffectProofs DynProofs DynMkdir DynRemove DynRemoveExact DynRemoveTotal DynResolve DynMkdirComplete DynRemoveConc DynInv.
From PV Require FSModel FSProofs.
From Coq Require Import Lia.
Open Scope N_scope.

(* ---- a depth bound for the trees the operations build: remove_all's fuel is sufficient ------------------------
   [depth_ok s]: a depth function with every directory entry one deeper than the directory holding it, bounded by
   the number of objects.  It is preserved by every operation that does not move a directory (a renamed directory
   changes the depth of a whole subtree: not treated), and it gives [deep s (#objects) c] for every c. *)

Definition depth_ok (s : fs) : Prop :=
  exists df : nat -> nat,
    (forall d n c, In (d, n, c) (ents s) -> is_dir s c = true -> df c = S (df d)) /\
    (forall o, (df o <= length (kinds s))%nat).

Lemma depth_deep s : depth_ok s -> forall c, deep s (length (kinds s)) c.
Proof.
  intros (df & Hstep & Hb).
  assert (H : forall k c, (length (kinds s) - df c <= k)%nat -> deep s k c).
  { induction k as [|k IH]; intros c Hk; cbn [deep].
    - intros n c' Hin. destruct (is_dir s c') eqn:E; [|reflexivity]. exfalso.
      pose proof (Hstep _ _ _ Hin E) as H1. pose proof (Hb c') as H2. lia.
    - intros n c' Hin E. apply IH. pose proof (Hstep _ _ _ Hin E) as H1. lia. }
  intro c. apply H. lia.
Qed.

Lemma depth_shrinks s s' : shrinks s s' -> depth_ok s -> depth_ok s'.
Proof.
  intros (Hk & _ & Hi) (df & Hstep & Hb). exists df. split.
  - intros d n c Hin E. apply (Hstep d n c (Hi _ Hin)). unfold FSModel.is_dir, FSModel.kind_of in *. rewrite <- Hk. exact E.
  - intro o. rewrite Hk. apply Hb.
Qed.

Lemma depth_add_ent s d n c : is_dir s c = false -> depth_ok s -> depth_ok (add_ent s d n c).
Proof.
  intros Hc (df & Hstep & Hb). exists df. split; [|exact Hb].
  intros d0 n0 c0 Hin E. unfold add_ent in Hin. cbn [FSModel.ents] in Hin. apply in_app_or in Hin.
  change (is_dir (add_ent s d n c) c0) with (is_dir s c0) in E.
  destruct Hin as [Hin|[Hin|[]]]; [exact (Hstep _ _ _ Hin E)|]. inversion Hin; subst. congruence.
Qed.

Lemma depth_add_obj s d n k : inv s -> (d < length (kinds s))%nat -> depth_ok s -> depth_ok (FSModel.add_obj s d n k).
Proof.
  intros Hi Hd (df & Hstep & Hb). set (nw := length (kinds s)).
  exists (fun o => if Nat.eqb o nw then S (df d) else df o). split.
  - intros d0 n0 c0 Hin E. unfold FSModel.add_obj in Hin. cbn [FSModel.ents] in Hin. apply in_app_or in Hin.
    destruct Hin as [Hin|[Hin|[]]].
    + destruct Hi as (_ & _ & He & _). destruct (He _ Hin) as (A & B & _). cbn [ent_dir ent_obj fst snd] in A, B.
      destruct (Nat.eqb_spec c0 nw) as [->|_]; [unfold nw in B; lia|]. destruct (Nat.eqb_spec d0 nw) as [->|_]; [unfold nw in A; lia|].
      apply (Hstep _ _ _ Hin). unfold FSModel.is_dir in *. rewrite kind_add_obj_old in E by exact B. exact E.
    + inversion Hin; subst d0 n0 c0. fold nw. rewrite Nat.eqb_refl. destruct (Nat.eqb_spec d nw) as [->|_]; [unfold nw in Hd; lia|reflexivity].
  - intro o. unfold FSModel.add_obj. cbn [FSModel.kinds]. rewrite app_length. cbn [length].
    destruct (Nat.eqb o nw); [pose proof (Hb d); lia|pose proof (Hb o); lia].
Qed.

Lemma reparent_nondir s c d : is_dir s c = false -> reparent s c d = s.
Proof. intro H. unfold reparent. rewrite H. reflexivity. Qed.

(* the operations *)
Lemma create_depth s d n k s' : create_sem s d n k = EUnit s' -> inv s -> depth_ok s -> depth_ok s'.
Proof.
  unfold create_sem. intros H Hi Hd.
  destruct (is_dir s d) eqn:Ed; cbn [negb] in H; [|discriminate].
  destruct (is_nil n); [discriminate|]. destruct (has_slash n || has_nul n); [discriminate|].
  destruct (is_dot n || is_dotdot n); [discriminate|]. destruct (too_long n); [discriminate|].
  destruct (lookup s d n); [discriminate|]. inversion H; subst s'. apply depth_add_obj; [exact Hi|exact (is_dir_lt _ _ Ed)|exact Hd].
Qed.

Lemma creat_depth s d n fl s' o : creat_sem s d n fl = EOpen s' o -> inv s -> depth_ok s -> depth_ok s'.
Proof.
  unfold creat_sem. intros H Hi Hd.
  destruct (has fl O_PATH || has fl O_DIRECTORY || negb (has fl O_NOFOLLOW)); [discriminate|].
  destruct (is_dir s d) eqn:Ed; cbn [negb] in H; [|discriminate].
  destruct (is_nil n); [discriminate|]. destruct (has_slash n || has_nul n); [discriminate|].
  destruct (is_dot n || is_dotdot n); [discriminate|]. destruct (too_long n); [discriminate|].
  destruct (lookup s d n) as [c|].
  - destruct (has fl O_EXCL); [discriminate|]. destruct (FSModel.kind_of s c); try discriminate. inversion H; subst. exact Hd.
  - inversion H; subst s' o. apply depth_add_obj; [exact Hi|exact (is_dir_lt _ _ Ed)|exact Hd].
Qed.

Lemma unlink_depth s d n fl s' : unlink_sem s d n fl = EUnit s' -> depth_ok s -> depth_ok s'.
Proof. intros H. exact (depth_shrinks _ _ (unlink_sem_shrinks _ _ _ _ _ H)). Qed.

Lemma link_depth s od on nd nn fl s' : link_sem s od on nd nn fl = EUnit s' -> depth_ok s -> depth_ok s'.
Proof.
  unfold link_sem. intros H Hd.
  destruct (negb (N.eqb fl 0) || negb (Dyn.plain on && Dyn.plain nn)); [discriminate|].
  destruct (is_dir s od); cbn [negb] in H; [|discriminate].
  destruct (lookup s od on) as [c|]; [|discriminate].
  destruct (is_dir s nd); cbn [negb] in H; [|discriminate].
  destruct (too_long nn); [discriminate|]. destruct (lookup s nd nn); [discriminate|].
  destruct (is_dir s c) eqn:Ec; [discriminate|]. inversion H; subst s'. apply depth_add_ent; assumption.
Qed.

(* renameat2 of something that is not a directory (onto nothing, or onto / in exchange with a non-directory) *)
Definition moves_no_dir (s : fs) (od : nat) (on : bytes) (nd : nat) (nn : bytes) : bool :=
  match lookup s od on with
  | Some c => negb (is_dir s c) && match lookup s nd nn with Some e => negb (is_dir s e) | None => true end
  | None => true
  end.

Lemma is_dir_del s d n o : is_dir (del_ent s d n) o = is_dir s o. Proof. reflexivity. Qed.
Lemma is_dir_add s d n c o : is_dir (add_ent s d n c) o = is_dir s o. Proof. reflexivity. Qed.

Lemma rename_depth s od on nd nn fl s' : rename_sem s od on nd nn fl = EUnit s' -> moves_no_dir s od on nd nn = true ->
  depth_ok s -> depth_ok s'.
Proof.
  unfold rename_sem, moves_no_dir. intros H Hm Hd.
  destruct (negb (Dyn.plain on && Dyn.plain nn)); [discriminate|].
  destruct (negb (N.eqb fl 0 || N.eqb fl RENAME_NOREPLACE || N.eqb fl RENAME_EXCHANGE)); [discriminate|].
  destruct (negb (is_dir s od) || negb (is_dir s nd)); [discriminate|].
  destruct (too_long on); [discriminate|].
  destruct (lookup s od on) as [c|]; [|discriminate].
  destruct (too_long nn); [discriminate|].
  apply andb_true_iff in Hm. destruct Hm as [Hc He]. apply negb_true_iff in Hc. rewrite Hc in H. cbn [andb] in H.
  destruct (lookup s nd nn) as [e|].
  - apply negb_true_iff in He. rewrite He in H. cbn [andb negb] in H.
    destruct (N.eqb fl RENAME_NOREPLACE); [discriminate|].
    destruct (N.eqb fl RENAME_EXCHANGE).
    + destruct (Nat.eqb c e); inversion H; subst; [exact Hd|].
      rewrite reparent_nondir by (rewrite reparent_nondir by (rewrite !is_dir_add, !is_dir_del; exact Hc); rewrite !is_dir_add, !is_dir_del; exact He).
      rewrite reparent_nondir by (rewrite !is_dir_add, !is_dir_del; exact Hc).
      apply depth_add_ent; [rewrite is_dir_add, !is_dir_del; exact He|]. apply depth_add_ent; [rewrite !is_dir_del; exact Hc|].
      apply (depth_shrinks (del_ent s od on)); [apply del_ent_shrinks|]. apply (depth_shrinks s); [apply del_ent_shrinks|exact Hd].
    + destruct (Nat.eqb c e); inversion H; subst; [exact Hd|].
      apply depth_add_ent; [rewrite !is_dir_del; exact Hc|].
      apply (depth_shrinks (del_ent s od on)); [apply del_ent_shrinks|]. apply (depth_shrinks s); [apply del_ent_shrinks|exact Hd].
  - destruct (N.eqb fl RENAME_EXCHANGE); [discriminate|]. inversion H; subst s'.
    rewrite reparent_nondir by (rewrite is_dir_add, is_dir_del; exact Hc).
    apply depth_add_ent; [rewrite is_dir_del; exact Hc|]. apply (depth_shrinks s); [apply del_ent_shrinks|exact Hd].
Qed.

Lemma mk_spec_depth : forall ps s o, inv s -> depth_ok s -> depth_ok (fst (mk_spec s o ps)).
Proof.
  induction ps as [|p rest IH]; intros s o Hi Hd; cbn [mk_spec]; [exact Hd|].
  destruct (mk_dir s o p) as [s1|e] eqn:Ed; [|exact Hd].
  assert (H1 : inv s1 /\ depth_ok s1).
  { unfold mk_dir in Ed. destruct (create_sem s o p FSModel.KDir) as [|e|s2|s2 o2] eqn:Ec; try discriminate.
    - destruct (N.eqb e EEXIST); inversion Ed; subst; split; assumption.
    - inversion Ed; subst. split; [exact (create_inv _ _ _ _ _ Ec Hi)|exact (create_depth _ _ _ _ _ Ec Hi Hd)]. }
  destruct H1 as [Hi1 Hd1]. destruct (mk_open s1 o p) as [c|e]; [apply IH; assumption|exact Hd1].
Qed.

(* operation lists that move no directory *)
Definition op_ok (s : fs) (o : op) : bool :=
  match o with
  | ORename od on nd nn _ => moves_no_dir s od on nd nn
  | _ => true
  end.

Fixpoint run_ops (s : fs) (ops : list op) : option fs :=
  match ops with
  | [] => Some s
  | o :: rest => if op_ok s o then run_ops (apply_op s o) rest else None
  end.

Lemma apply_op_depth s o : op_ok s o = true -> inv s -> depth_ok s -> depth_ok (apply_op s o).
Proof.
  intros Hok Hi Hd. destruct (no_open_from_unit_ops s) as (N1 & N2 & N3 & N4).
  destruct o as [d n k|d n fl|d n fl|od on nd nn fl|od on nd nn fl|o ps|f d n]; cbn [apply_op op_ok] in *.
  - destruct (create_sem s d n k) eqn:E; cbn [tree_of]; try exact Hd; [exact (create_depth _ _ _ _ _ E Hi Hd)|exfalso; exact (N1 _ _ _ _ _ E)].
  - destruct (creat_sem s d n fl) eqn:E; cbn [tree_of]; try exact Hd; [exfalso; exact (creat_no_unit _ _ _ _ _ E)|exact (creat_depth _ _ _ _ _ _ E Hi Hd)].
  - destruct (unlink_sem s d n fl) eqn:E; cbn [tree_of]; try exact Hd; [exact (unlink_depth _ _ _ _ _ E Hd)|exfalso; exact (N2 _ _ _ _ _ E)].
  - destruct (link_sem s od on nd nn fl) eqn:E; cbn [tree_of]; try exact Hd; [exact (link_depth _ _ _ _ _ _ _ E Hd)|exfalso; exact (N3 _ _ _ _ _ _ _ E)].
  - destruct (rename_sem s od on nd nn fl) eqn:E; cbn [tree_of]; try exact Hd; [exact (rename_depth _ _ _ _ _ _ _ E Hok Hd)|exfalso; exact (N4 _ _ _ _ _ _ _ E)].
  - apply mk_spec_depth; assumption.
  - destruct (rm_all f s d n) as [[s' r]|] eqn:E; [exact (depth_shrinks _ _ (rm_all_shrinks _ _ _ _ _ _ E) Hd)|exact Hd].
Qed.

Lemma depth_root_only : depth_ok root_only.
Proof. exists (fun _ => 0%nat). split; [intros d n c []|intro o; cbn; lia]. Qed.

Theorem reachable_depth ops s : run_ops root_only ops = Some s -> inv s /\ depth_ok s.
Proof.
  assert (H : forall ops s0 s, inv s0 -> depth_ok s0 -> run_ops s0 ops = Some s -> inv s /\ depth_ok s).
  { induction ops0 as [|o ops0 IH]; intros s0 s1 Hi Hd Hr; cbn [run_ops] in Hr; [inversion Hr; subst; split; assumption|].
    destruct (op_ok s0 o) eqn:Eok; [|discriminate].
    exact (IH _ _ (apply_op_inv s0 o Hi) (apply_op_depth s0 o Eok Hi Hd) Hr). }
  exact (H ops root_only s inv_root_only depth_root_only).
Qed.

(* remove_all never runs out of fuel on such a tree: #objects + #entries + 6 is enough, whatever it is asked to remove *)
Theorem remove_all_terminates_on_reachable ops s d name f :
  run_ops root_only ops = Some s -> (length (kinds s) + length (ents s) + 6 <= f)%nat -> rm_all f s d name <> None.
Proof.
  intros Hr Hf. destruct (reachable_depth ops s Hr) as [Hi Hd]. destruct (inv_facts s Hi) as (_ & Hok & _).
  apply (rm_all_total (length (kinds s)) f s d name Hok Hf). intros c _ _. exact (depth_deep s Hd c).
Qed.
