(* StaticProcfs.v -- C01: as_unsafe_path on the static kernel's minimal procfs.
   Discharges the d_path premise of StaticProofs.check_current_static for the
   configuration "openat2 available to the procfs handle": reading
   /proc/thread-self/fd/N through the ProcfsHandle returns the kernel's rendering
   of the object descriptor N is open on, and leaves the descriptor table as it was. *)
From PV Require Import Static PathProofs StaticProofs CheckProofs ProcfsProps.
From PV Require FSModel FSProofs.
Open Scope N_scope.

Arguments N.lor : simpl never.
Arguments N.land : simpl never.
Arguments N.eqb : simpl never.
Arguments N.leb : simpl never.

(* ---- decimal numbers ----------------------------------------------------------------- *)

Definition step (a c : N) : N := a * 10 + (c - 48).

Lemma num_app x y : num (x ++ y) = fold_left step y (num x).
Proof. unfold num. rewrite fold_left_app. reflexivity. Qed.

(* dec_fuel conses the digits of n in front of acc *)
Lemma dec_fuel_digits f : forall n acc, n < 10 ^ N.of_nat f ->
  exists D, dec_fuel f n acc = D ++ acc /\ num D = n /\ Forall (fun c => 48 <= c < 58) D.
Proof.
  induction f as [|f IH]; intros n acc Hn.
  - exists []. change (N.of_nat 0) with 0 in Hn. rewrite N.pow_0_r in Hn. assert (n = 0) by lia. subst. repeat split. constructor.
  - cbn [dec_fuel].
    assert (Hq : n / 10 < 10 ^ N.of_nat f).
    { rewrite Nat2N.inj_succ, N.pow_succ_r' in Hn. apply N.div_lt_upper_bound; lia. }
    assert (Hm : n mod 10 < 10) by (apply N.mod_lt; lia).
    assert (Hdm : n = 10 * (n / 10) + n mod 10) by (apply N.div_mod; lia).
    remember (n mod 10) as m eqn:Em. remember (n / 10) as q eqn:Eq. clear Em Eq.
    destruct (N.eqb_spec q 0) as [E|Hne].
    + exists [48 + m]. split; [reflexivity|]. split; [|repeat constructor; lia].
      unfold num. cbn [fold_left]. unfold step. lia.
    + destruct (IH q ((48 + m) :: acc) Hq) as (D & HD & Hnum & Hr).
      exists (D ++ [48 + m]). split; [rewrite HD, <- app_assoc; reflexivity|]. split.
      * rewrite num_app, Hnum. cbn [fold_left]. unfold step. lia.
      * apply Forall_app. split; [exact Hr|repeat constructor; lia].
Qed.

Lemma dec_digits n : exists D, dec n = D /\ num D = n /\ Forall (fun c => 48 <= c < 58) D.
Proof.
  unfold dec.
  assert (Hn : n < 10 ^ N.of_nat (S (N.to_nat (N.log2 n)))).
  { rewrite Nat2N.inj_succ, N2Nat.id.
    destruct (N.eq_dec n 0) as [->|Hne]; [cbn; lia|].
    assert (0 < n) by lia.
    pose proof (N.log2_spec n H) as [_ Hlt].
    apply (N.lt_le_trans _ _ _ Hlt). apply N.pow_le_mono_l. lia. }
  destruct (dec_fuel_digits _ n [] Hn) as (D & HD & Hnum & Hr).
  rewrite app_nil_r in HD. exists D. repeat split; assumption.
Qed.

Lemma num_dec n : num (dec n) = n.
Proof. destruct (dec_digits n) as (D & -> & H & _). exact H. Qed.

Lemma dec_no_nul n : has_nul (dec n) = false.
Proof.
  destruct (dec_digits n) as (D & -> & _ & Hr). unfold has_nul, has_byte.
  induction Hr as [|c D Hc _ IH]; [reflexivity|]. cbn [existsb]. rewrite IH.
  destruct (N.eqb_spec 0 c); [lia|reflexivity].
Qed.

Lemma parse_fd_dec n : parse_fd (b "fd/" ++ dec n) = Some (Z.of_N n).
Proof. change (b "fd/" ++ dec n) with (102 :: 100 :: 47 :: dec n). cbn [parse_fd]. rewrite num_dec. reflexivity. Qed.

(* ---- the descriptor table ------------------------------------------------------------ *)

Lemma tfind_fresh t : tfind t (fresh t) = None.
Proof.
  destruct (tfind t (fresh t)) as [o|] eqn:E; [|reflexivity].
  apply tfind_in, fresh_gt in E. lia.
Qed.

Lemma tdel_notin t f : tfind t f = None -> tdel t f = t.
Proof.
  induction t as [|[k o] t IH]; intro H; [reflexivity|]. cbn [tfind] in H. cbn [tdel filter fst].
  destruct (Z.eqb_spec k f); [discriminate|]. cbn [negb]. f_equal. apply IH, H.
Qed.

Lemma tdel_cons_same t f o : tfind t f = None -> tdel ((f, o) :: t) f = t.
Proof. intro H. cbn [tdel filter fst]. rewrite Z.eqb_refl. cbn [negb]. apply tdel_notin, H. Qed.

Lemma tdel_new t o : tdel ((fresh t, o) :: t) (fresh t) = t.
Proof. cbn [tdel filter fst]. rewrite Z.eqb_refl. cbn [negb]. apply tdel_notin, tfind_fresh. Qed.

Lemma tdel_new2 t o1 o2 :
  tdel ((fresh ((fresh t, o1) :: t), o2) :: (fresh t, o1) :: t) (fresh t) = (fresh ((fresh t, o1) :: t), o2) :: t.
Proof.
  cbn [tdel filter fst].
  assert (Hne : fresh ((fresh t, o1) :: t) <> fresh t).
  { pose proof (fresh_gt ((fresh t, o1) :: t) (fresh t) o1 (or_introl eq_refl)). lia. }
  destruct (Z.eqb_spec (fresh ((fresh t, o1) :: t)) (fresh t)); [contradiction|]. cbn [negb].
  rewrite Z.eqb_refl. cbn [negb]. f_equal. apply tdel_notin, tfind_fresh.
Qed.

(* ---- as_unsafe_path ------------------------------------------------------------------ *)

Section PF.
Variable s : fs.
Variable rp : bytes.
Variable fz : nat.
Hypothesis Hfz : fz <> 0%nat.
Variable gh : phandle.
Hypothesis Hmnt : ph_mnt gh = Some PROC_MNT.
Hypothesis Ho2 : ph_openat2 gh = true.

Notation run := (run s rp).

Lemma run_fetch_mnt t fd o : tget t fd = Some o ->
  run t (fetch_mnt_id fz fd []) = Done t (Ok (Some (if Nat.leb (PB s) o then PROC_MNT else FS_MNT))).
Proof.
  intro Hfd. unfold fetch_mnt_id, w_statx, simple1, rustix_path.
  rewrite (tget_valid _ _ _ Hfd). cbn [negb has_nul has_byte existsb bind Static.run].
  unfold answer. cbn [sem]. rewrite Hfd. cbn [is_nil as_statx bind Static.run].
  change (intersects STATX_WANT_MASK STATX_WANT_MASK) with true. reflexivity.
Qed.

Lemma run_verify t fd o : tget t fd = Some o -> (PB s <= o)%nat ->
  run t (verify_same_procfs_mnt fz gh fd) = Done t (Ok tt).
Proof.
  intros Hfd Hle. unfold verify_same_procfs_mnt, verify_same_mnt, bindR.
  rewrite (run_bind s rp), (run_bind s rp), (run_fetch_mnt t fd o Hfd).
  destruct (Nat.leb_spec (PB s) o) as [_|Hlt]; [|lia].
  rewrite Hmnt. cbn [opt_n_eqb]. rewrite (N.eqb_refl PROC_MNT). cbn [Static.run].
  unfold verify_is_procfs, bindR, os, map_err, w_fstatfs.
  rewrite (tget_valid _ _ _ Hfd). cbn [negb bind Static.run].
  unfold answer. cbn [sem]. rewrite Hfd.
  destruct (Nat.leb_spec (PB s) o) as [_|Hlt]; [|lia].
  cbn [as_fstype bind Static.run]. rewrite (N.eqb_refl PROC_SUPER_MAGIC). reflexivity.
Qed.

Lemma run_w_openat2 t fd path o' oflags resolve :
  valid_fd fd = true -> has_nul path = false ->
  (forall fl m r, sem s rp t (Openat2 fd path fl m r) = SNew o') ->
  run t (w_openat2 fz fd path oflags 0 resolve) = Done ((fresh t, o') :: t) (Ok (fresh t)).
Proof.
  intros Hv Hnul Hsem. unfold w_openat2. rewrite Hv, Hnul, andb_false_r. cbn [negb Static.run].
  rewrite (to_c_string_id path Hnul). unfold answer. rewrite Hsem.
  cbn [as_fd]. pose proof (fresh_ge3 t). destruct (Z.leb_spec 0 (fresh t)); [reflexivity|lia].
Qed.

Lemma run_openat2_resolve t fd path o' oflags rflags :
  valid_fd fd = true -> has_nul path = false ->
  (forall fl m r, sem s rp t (Openat2 fd path fl m r) = SNew o') ->
  run t (openat2_resolve fz true fd path oflags rflags) = Done ((fresh t, o') :: t) (Ok (fresh t)).
Proof.
  intros Hv Hnul Hsem. unfold openat2_resolve. cbn [negb].
  destruct (N.eqb_spec PROCFS_OPENAT2_RETRIES 0) as [E|Hne].
  - unfold os, map_err. rewrite (run_bind s rp), (run_w_openat2 t fd path o' _ _ Hv Hnul Hsem). reflexivity.
  - destruct (N.to_nat PROCFS_OPENAT2_RETRIES) as [|m] eqn:Em; [lia|].
    cbn [openat2_retry]. rewrite (run_bind s rp), (run_w_openat2 t fd path o' _ _ Hv Hnul Hsem). reflexivity.
Qed.

Theorem run_as_unsafe_path pf t fd o exp :
  tget t (ph_fd gh) = Some (PB s) ->
  tget t fd = Some o -> find_path s o = Some exp ->
  N.leb READLINK_BUF (N.of_nat (length (render rp exp))) = false ->
  run t (as_unsafe_path fz true (S pf) gh fd) = Done t (Ok (render rp exp)).
Proof.
  intros HP Hfd Hpath Hlen.
  pose proof (tget_pos _ _ _ Hfd) as Hpos.
  unfold as_unsafe_path. rewrite (proc_subpath_nonneg fd Hpos).
  set (sub := b "fd/" ++ dec (Z.to_N fd)).
  assert (Hsubnul : has_nul sub = false).
  { unfold sub, has_nul. rewrite has_byte_app. fold (has_nul (dec (Z.to_N fd))). rewrite dec_no_nul. reflexivity. }
  unfold preadlink, bindR. rewrite (run_bind s rp).
  (* ---- popen ---- *)
  cbn [popen]. unfold bindR. rewrite (run_bind s rp).
  (* open_base *)
  assert (Hbase : run t (open_base fz true gh ProcThreadSelf) = Done ((fresh t, P_THREAD s) :: t) (Ok (fresh t))).
  { unfold open_base, bindR. rewrite (run_bind s rp).
    assert (Hinto : run t (into_path fz (ph_fd gh) ProcThreadSelf) = Done t (b "thread-self")).
    { unfold into_path. cbn [Static.run]. unfold answer at 1. cbn [sem as_num thread_self_cands].
      rewrite (run_bind s rp). unfold w_fstatat, simple1, rustix_path. rewrite (tget_valid _ _ _ HP).
      change (has_nul (b "thread-self")) with false. cbn [negb Static.run]. unfold answer. cbn [sem].
      rewrite (tget_not_cwd _ _ _ HP), HP. change (is_nil (b "thread-self")) with false.
      rewrite Nat.eqb_refl. change (beq (b "thread-self") (b "thread-self")) with true. cbn [andb as_stat Static.run].
      reflexivity. }
    rewrite Hinto. rewrite (run_bind s rp). unfold presolve. rewrite Ho2.
    change (procfs_flags_invalid OPEN_BASE_FLAGS) with false. cbv iota.
    rewrite (run_openat2_resolve t (ph_fd gh) (b "thread-self") (P_THREAD s) _ _ (tget_valid _ _ _ HP) eq_refl).
    2:{ intros fl m r. cbn [sem]. rewrite HP. destruct (Nat.ltb_spec (PB s) (PB s)) as [Hb|_]; [lia|]. rewrite Nat.eqb_refl. reflexivity. }
    rewrite (run_bind s rp), (run_verify _ (fresh t) (P_THREAD s) (tget_new t _)) by (unfold P_THREAD; lia).
    reflexivity. }
  rewrite Hbase. set (f1 := fresh t). set (t1 := (f1, P_THREAD s) :: t).
  assert (Hf1 : tget t1 f1 = Some (P_THREAD s)) by apply tget_new.
  assert (Hfd1 : tget t1 fd = Some o) by (apply tget_new_old; exact Hfd).
  (* the lookup of fd/N below the thread directory *)
  rewrite (run_bind s rp). unfold presolve. rewrite Ho2.
  change (procfs_flags_invalid (N.lor PROCFS_READLINK_FLAGS PROCFS_OPEN_FORCED)) with false. cbv iota.
  rewrite (run_openat2_resolve t1 f1 sub (P_LINK s o) _ _ (tget_valid _ _ _ Hf1) Hsubnul).
  2:{ intros fl m r. cbn [sem]. rewrite Hf1.
      destruct (Nat.ltb_spec (P_THREAD s) (PB s)) as [Hb|_]; [unfold P_THREAD in Hb; lia|].
      assert (E1 : Nat.eqb (P_THREAD s) (PB s) = false) by (apply Nat.eqb_neq; unfold P_THREAD; lia).
      rewrite E1, Nat.eqb_refl. unfold sub. rewrite parse_fd_dec, Z2N.id by exact Hpos.
      rewrite Hfd1. reflexivity. }
  set (f2 := fresh t1). set (t2 := (f2, P_LINK s o) :: t1).
  assert (Hf2 : tget t2 f2 = Some (P_LINK s o)) by apply tget_new.
  rewrite (run_bind s rp), (run_bind s rp), (run_verify t2 f2 (P_LINK s o) Hf2) by (unfold P_LINK; lia).
  cbv beta iota. cbn [Static.run]. cbv beta iota. cbn [bind].
  rewrite (run_bind s rp), run_close. cbn [Static.run]. cbv beta iota.
  unfold t2, f2, t1, f1. rewrite tdel_new2. fold f1. fold t1. fold f2.
  (* the readlink of the magic-link *)
  set (t3 := (f2, P_LINK s o) :: t).
  assert (Hf3 : tget t3 f2 = Some (P_LINK s o)).
  { unfold t3, tget. pose proof (fresh_ge3 t1). destruct (Z.ltb_spec f2 0); [unfold f2 in *; lia|]. cbn [tfind]. rewrite Z.eqb_refl. reflexivity. }
  rewrite (run_bind s rp). unfold os, map_err, w_readlinkat, rustix_path.
  rewrite (tget_valid _ _ _ Hf3). cbn [negb has_nul has_byte existsb bind Static.run].
  unfold answer. cbn [sem]. rewrite Hf3. cbn [is_nil negb].
  assert (Hnb : FSModel.link_body s (P_LINK s o) = None).
  { unfold FSModel.link_body, FSModel.kind_of. rewrite nth_overflow by (unfold P_LINK, PB; lia). reflexivity. }
  rewrite Hnb.
  assert (Hle : Nat.leb (PB s + NP) (P_LINK s o) = true) by (apply Nat.leb_le; unfold P_LINK; lia).
  rewrite Hle. replace (P_LINK s o - (PB s + NP))%nat with o by (unfold P_LINK; lia).
  rewrite Hpath. cbn [as_bytes]. rewrite Hlen. cbn [bind Static.run].
  rewrite (run_bind s rp), run_close. cbn [Static.run].
  unfold t3. rewrite tdel_cons_same; [reflexivity|].
  destruct (tfind t f2) as [x|] eqn:E; [|reflexivity].
  apply tfind_in in E. pose proof (fresh_gt t f2 x E). pose proof (fresh_gt t1 f1 (P_THREAD s) (or_introl eq_refl)).
  unfold f2, f1 in *. lia.
Qed.

End PF.

(* ---- the d_path premise, discharged --------------------------------------------------- *)

(* properties of the tree (not of the code): every object has one path, [find_path]
   finds it, and its rendering fits the library's readlink buffer.  Hard links give an
   object two paths: such trees are outside this theorem (the kernel answers with the
   path the descriptor was opened by, which a table of objects cannot express). *)
Definition paths_found (s : fs) : Prop :=
  forall o exp, FSModel.descend s ROOT exp = Some o -> find_path s o = Some exp.
Definition paths_short (s : fs) (rp : bytes) : Prop :=
  forall o exp, FSModel.descend s ROOT exp = Some o ->
    N.leb READLINK_BUF (N.of_nat (length (render rp exp))) = false.

Lemma render_abs exp : forall acc, is_abs acc = true ->
  is_abs (fold_left (fun a c => a ++ SLASH :: c) exp acc) = true.
Proof.
  induction exp as [|c t IH]; intros acc H; cbn [fold_left]; [exact H|]. apply IH.
  destruct acc; [discriminate|exact H].
Qed.

Lemma render_nf exp : Forall name_ok exp -> forall acc,
  nf (fold_left (fun a c => a ++ SLASH :: c) exp acc) = nf acc ++ exp.
Proof.
  induction 1 as [|c t Hc _ IH]; intro acc; cbn [fold_left]; [rewrite app_nil_r; reflexivity|].
  rewrite IH, nf_slash, (nf_name c Hc), <- app_assoc. reflexivity.
Qed.

Theorem getpath_static s rp fz gh pf :
  fz <> 0%nat -> ph_mnt gh = Some PROC_MNT -> ph_openat2 gh = true ->
  is_abs rp = true -> names_ok s -> paths_found s -> paths_short s rp ->
  getpath_ok s rp [(ph_fd gh, PB s)] (nf rp) (as_unsafe_path fz true (S pf) gh).
Proof.
  intros Hfz Hmnt Ho2 Habs Hnames Hfound Hshort t fd o exp Hfr Hfd Hexp.
  destruct (Hfr (ph_fd gh) (PB s) (or_introl eq_refl)) as [HP _].
  exists (render rp exp). split; [|split].
  - apply (run_as_unsafe_path s rp fz Hfz gh Hmnt Ho2 pf t fd o exp HP Hfd (Hfound o exp Hexp) (Hshort o exp Hexp)).
  - apply render_abs, Habs.
  - apply render_nf. exact (descend_names s Hnames exp ROOT o Hexp).
Qed.
