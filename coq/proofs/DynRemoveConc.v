From PV Require Import Dyn BitsProofs PathProofs StaticProofs ProgTac StaticBal FaultProofs EffectProofs DynProofs DynMkdir DynRemove DynRemoveExact.
From PV Require FSModel FSProofs.
From Coq Require Import Lia.
Open Scope N_scope.

(* ---- C13, racing removers: remove_all under interference --------------------------------------------------
   [rc tk s s' r]: the task [tk] of dir.rs remove_all, started in tree [s], ends in tree [s'] with result [r],
   the environment taking any number of [shrinks] steps -- entries disappear, nothing is added or modified: what
   every other remove_all caller does -- between any two system calls.  Without such steps it is [rm_all]. *)

Inductive task :=
| TInode (d : nat) (n : bytes)                    (* remove_inode: unlinkat, then unlinkat(AT_REMOVEDIR) *)
| TAll (d : nat) (n : bytes)                      (* remove_all *)
| TRounds (d : nat) (n : bytes) (c : nat)         (* the scan loop over the opened directory c, then remove_inode *)
| TEntries (c : nat) (names : list bytes) (seen : bool).  (* one pass over a listing *)

Definition tol (r : result bool ekind) : bool := match r with Ok _ => true | Err e => errno_is e ENOENT end.
Definition code (r : eres) : N := match r with EErr e => e | _ => ENOSYS end.

Inductive rc : task -> fs -> fs -> result bool ekind -> Prop :=
| rc_env tk s s1 s' r : shrinks s s1 -> rc tk s1 s' r -> rc tk s s' r
(* remove_inode *)
| rc_unlink_ok d n s s1 : unlink_sem s d n 0 = EUnit s1 -> rc (TInode d n) s s1 (Ok true)
| rc_rmdir_ok d n s s2 s3 : (forall s1, unlink_sem s d n 0 <> EUnit s1) -> shrinks s s2 ->
    unlink_sem s2 d n AT_REMOVEDIR = EUnit s3 -> rc (TInode d n) s s3 (Ok true)
| rc_rmdir_err d n s s2 : (forall s1, unlink_sem s d n 0 <> EUnit s1) -> shrinks s s2 ->
    (forall s3, unlink_sem s2 d n AT_REMOVEDIR <> EUnit s3) ->
    rc (TInode d n) s s2 (Err (OsError (if N.eqb (code (unlink_sem s2 d n AT_REMOVEDIR)) ENOTDIR then code (unlink_sem s d n 0)
                                        else code (unlink_sem s2 d n AT_REMOVEDIR))))
(* remove_all *)
| rc_all_slash d n s : has_slash n = true -> rc (TAll d n) s s (Err SafetyViolation)
| rc_all_dots d n s : has_slash n = false -> REMOVE_ALL_REFUSES_DOTS && dot_or_dotdot n = true -> rc (TAll d n) s s (Err InvalidArgument)
| rc_all_done d n s s1 r : has_slash n = false -> REMOVE_ALL_REFUSES_DOTS && dot_or_dotdot n = false ->
    rc (TInode d n) s s1 r -> tol r = true -> rc (TAll d n) s s1 (Ok true)
| rc_all_noent d n s s1 r s2 e : has_slash n = false -> REMOVE_ALL_REFUSES_DOTS && dot_or_dotdot n = false ->
    rc (TInode d n) s s1 r -> tol r = false -> shrinks s1 s2 -> mk_open s2 d n = inr e ->
    rc (TAll d n) s s2 (if N.eqb e ENOENT then Ok true else Err (OsError e))
| rc_all_dir d n s s1 r s2 c s' r' : has_slash n = false -> REMOVE_ALL_REFUSES_DOTS && dot_or_dotdot n = false ->
    rc (TInode d n) s s1 r -> tol r = false -> shrinks s1 s2 -> mk_open s2 d n = inl c ->
    rc (TRounds d n c) s2 s' r' -> rc (TAll d n) s s' r'
(* the scan loop *)
| rc_round_err d n c s s1 e : rc (TEntries c (dir_names s c) false) s s1 (Err e) -> rc (TRounds d n c) s s1 (Err e)
| rc_round_again d n c s s1 s' r : rc (TEntries c (dir_names s c) false) s s1 (Ok true) -> rc (TRounds d n c) s1 s' r ->
    rc (TRounds d n c) s s' r
| rc_round_fin d n c s s1 s2 r : rc (TEntries c (dir_names s c) false) s s1 (Ok false) -> rc (TInode d n) s1 s2 r ->
    rc (TRounds d n c) s s2 (if tol r then Ok true else r)
(* one pass *)
| rc_ent_nil c seen s : rc (TEntries c [] seen) s s (Ok seen)
| rc_ent_skip c n rest seen s s' r : dot_or_dotdot n = true -> rc (TEntries c rest seen) s s' r -> rc (TEntries c (n :: rest) seen) s s' r
| rc_ent_err c n rest seen s s1 e : dot_or_dotdot n = false -> rc (TAll c n) s s1 (Err e) -> errno_is e ENOENT = false ->
    rc (TEntries c (n :: rest) seen) s s1 (Err e)
| rc_ent_ok c n rest seen s s1 r1 s' r : dot_or_dotdot n = false -> rc (TAll c n) s s1 r1 -> tol r1 = true ->
    rc (TEntries c rest true) s1 s' r -> rc (TEntries c (n :: rest) seen) s s' r.

(* ---- the calls on ordinary short names ---------------------------------------------------------------- *)

Definition nm_ok (n : bytes) : Prop := Dyn.plain n = true /\ too_long n = false.
Definition tree_ok (s : fs) : Prop := uniq s /\ forall e, In e (ents s) -> nm_ok (ent_name e).

Lemma tree_ok_shrinks s s' : shrinks s s' -> tree_ok s -> tree_ok s'.
Proof. intros Hs [Hu Hn]. split; [exact (uniq_shrinks _ _ Hs Hu)|]. destruct Hs as (_ & _ & Hi). intros e He. apply Hn, Hi, He. Qed.

Lemma name_err_short n : too_long n = false -> FSModel.name_err n = ENOENT.
Proof. intro H. unfold FSModel.name_err. unfold too_long in H. rewrite H. reflexivity. Qed.

Lemma unlink0_spec s d n : nm_ok n -> is_dir s d = true ->
  unlink_sem s d n 0 = match lookup s d n with
                       | None => EErr ENOENT
                       | Some c => if is_dir s c then EErr EISDIR else EUnit (del_ent s d n)
                       end.
Proof.
  intros [Hp Hl] Hd. destruct (plain_facts _ Hp) as (Hnil & Hdot & Hdd & Hsl & Hnu).
  unfold unlink_sem. rewrite Hd, Hnil, Hsl, Hnu, Hdot, Hdd, (name_err_short _ Hl). reflexivity.
Qed.

Lemma rmdir_spec s d n : nm_ok n -> is_dir s d = true ->
  unlink_sem s d n AT_REMOVEDIR = match lookup s d n with
                                  | None => EErr ENOENT
                                  | Some c => if negb (is_dir s c) then EErr ENOTDIR
                                              else if has_child s c then EErr ENOTEMPTY else EUnit (del_ent s d n)
                                  end.
Proof.
  intros [Hp Hl] Hd. destruct (plain_facts _ Hp) as (Hnil & Hdot & Hdd & Hsl & Hnu).
  unfold unlink_sem. rewrite Hd, Hnil, Hsl, Hnu, Hdot, Hdd, (name_err_short _ Hl). reflexivity.
Qed.

Lemma mk_open_spec s d n : nm_ok n -> is_dir s d = true ->
  mk_open s d n = match lookup s d n with
                  | Some c => if is_dir s c then inl c else inr ENOTDIR
                  | None => inr ENOENT
                  end.
Proof.
  intros [Hp Hl] Hd. destruct (plain_facts _ Hp) as (Hnil & Hdot & Hdd & Hsl & Hnu).
  unfold mk_open, open1. rewrite Hd, Hdot, Hdd, (name_err_short _ Hl). cbn [negb]. destruct (lookup s d n); reflexivity.
Qed.

(* entries only disappear: a name that is absent stays absent, a name that is there was there, with the same object *)
Lemma lookup_shrinks_none s s' d n : shrinks s s' -> lookup s d n = None -> lookup s' d n = None.
Proof.
  intros (_ & _ & Hi) Hn. destruct (lookup s' d n) as [c|] eqn:E; [|reflexivity]. exfalso.
  unfold FSModel.lookup in *. destruct (find_ent_in _ _ _ _ E) as (n' & Hin & Hb). apply Hi in Hin.
  assert (Hex : forall es, In (d, n', c) es -> FSModel.find_ent es d n <> None).
  { induction es as [|[[d0 n0] c0] es IH]; [intros []|]. intros [H|H]; cbn [FSModel.find_ent].
    - inversion H; subst. rewrite Nat.eqb_refl, Hb. discriminate.
    - destruct (Nat.eqb d d0 && beq n n0); [discriminate|apply IH, H]. }
  exact (Hex _ Hin Hn).
Qed.

Lemma lookup_shrinks_some s s' d n c : shrinks s s' -> uniq s -> lookup s' d n = Some c -> lookup s d n = Some c.
Proof.
  intros (_ & _ & Hi) Hu E. unfold FSModel.lookup in E. destruct (find_ent_in _ _ _ _ E) as (n' & Hin & Hb).
  exact (lookup_in_uniq s d n n' c Hu (Hi _ Hin) Hb).
Qed.

(* ---- convergence ---------------------------------------------------------------------------------------- *)
Definition dots (names : list bytes) : Prop := Forall (fun n => dot_or_dotdot n = true) names.

Definition Pre (tk : task) (s : fs) : Prop :=
  tree_ok s /\
  match tk with
  | TInode d n | TAll d n => nm_ok n /\ is_dir s d = true
  | TRounds d n c => nm_ok n /\ is_dir s d = true /\ is_dir s c = true /\ (forall c', lookup s d n = Some c' -> c' = c)
  | TEntries c names seen => is_dir s c = true /\ Forall nm_ok names
  end.

Definition Post (tk : task) (s' : fs) (r : result bool ekind) : Prop :=
  match tk with
  | TInode d n => (tol r = true /\ lookup s' d n = None) \/
                  (r = Err (OsError ENOTEMPTY) /\ exists c, lookup s' d n = Some c /\ is_dir s' c = true /\ has_child s' c = true)
  | TAll d n | TRounds d n _ => (exists b, r = Ok b) /\ lookup s' d n = None
  | TEntries c names seen => exists b, r = Ok b /\ (b = false -> seen = false /\ dots names)
  end.

Lemma Pre_shrinks tk s s1 : shrinks s s1 -> Pre tk s -> Pre tk s1.
Proof.
  unfold Pre. intros Hs [Ht H]. split; [exact (tree_ok_shrinks _ _ Hs Ht)|].
  destruct tk as [d n|d n|d n c|c names seen]; cbn in *.
  - destruct H as [Hn Hd]. split; [exact Hn|]. rewrite (is_dir_shrinks _ _ d Hs). exact Hd.
  - destruct H as [Hn Hd]. split; [exact Hn|]. rewrite (is_dir_shrinks _ _ d Hs). exact Hd.
  - destruct H as (Hn & Hd & Hc & Hl). rewrite !(is_dir_shrinks _ _ _ Hs). split; [exact Hn|]. split; [exact Hd|]. split; [exact Hc|].
    intros c' E. apply Hl. exact (lookup_shrinks_some _ _ _ _ _ Hs (proj1 Ht) E).
  - destruct H as [Hc Hn]. rewrite (is_dir_shrinks _ _ c Hs). split; assumption.
Qed.

Lemma nm_ok_facts n : nm_ok n -> has_slash n = false /\ dot_or_dotdot n = false.
Proof. intros [Hp _]. destruct (plain_facts _ Hp) as (_ & Hd & Hdd & Hsl & _). unfold dot_or_dotdot. rewrite Hd, Hdd. split; [exact Hsl|reflexivity]. Qed.

Lemma unlink_unit_del s d n fl s1 : unlink_sem s d n fl = EUnit s1 -> s1 = del_ent s d n.
Proof.
  unfold unlink_sem. intro H.
  repeat (first [discriminate | match type of H with context [match ?x with _ => _ end] => destruct x end]); inversion H; reflexivity.
Qed.

Lemma dir_names_dots s c : tree_ok s -> dots (dir_names s c) -> has_child s c = false.
Proof.
  intros [_ Hn] Hd. unfold dir_names, dots, has_child in *. induction (ents s) as [|e es IH]; [reflexivity|].
  cbn [filter existsb map] in *. destruct (Nat.eqb (ent_dir e) c) eqn:E.
  - exfalso. cbn [map] in Hd. inversion Hd as [|? ? H1 _]; subst. destruct (nm_ok_facts _ (Hn e (or_introl eq_refl))) as [_ H2]. congruence.
  - cbn [orb]. apply IH; [intros e' He'; apply Hn; right; exact He'|exact Hd].
Qed.

Theorem rc_converges tk s s' r : rc tk s s' r -> Pre tk s -> shrinks s s' /\ Post tk s' r.
Proof.
  induction 1 as
    [tk s s1 s' r Hs _ IH
    |d n s s1 Hu
    |d n s s2 s3 Hu Hs Hr
    |d n s s2 Hu Hs Hr
    |d n s Hsl
    |d n s Hsl Hdots
    |d n s s1 r Hsl Hdots _ IHi Htol
    |d n s s1 r s2 e Hsl Hdots _ IHi Htol Hs Hop
    |d n s s1 r s2 c s' r' Hsl Hdots _ IHi Htol Hs Hop _ IHr
    |d n c s s1 e _ IHe
    |d n c s s1 s' r _ IHe _ IHr
    |d n c s s1 s2 r _ IHe _ IHi
    |c seen s
    |c n rest seen s s' r Hdot _ IH
    |c n rest seen s s1 e Hdot _ IHa Hne
    |c n rest seen s s1 r1 s' r Hdot _ IHa Htol _ IHe]; intros Hpre.
  - (* environment *)
    destruct (IH (Pre_shrinks _ _ _ Hs Hpre)) as [Hs' Hp]. split; [exact (shrinks_trans _ _ _ Hs Hs')|exact Hp].
  - (* unlink went through *)
    split; [exact (unlink_sem_shrinks _ _ _ _ _ Hu)|]. left. split; [reflexivity|]. rewrite (unlink_unit_del _ _ _ _ _ Hu). apply lookup_del_ent.
  - (* rmdir went through *)
    split; [exact (shrinks_trans _ _ _ Hs (unlink_sem_shrinks _ _ _ _ _ Hr))|]. left. split; [reflexivity|].
    rewrite (unlink_unit_del _ _ _ _ _ Hr). apply lookup_del_ent.
  - (* both failed *)
    split; [exact Hs|]. destruct Hpre as [Ht [Hn Hd]]. cbn [Post].
    assert (Hd2 : is_dir s2 d = true) by (rewrite (is_dir_shrinks _ _ d Hs); exact Hd).
    rewrite (rmdir_spec s2 d n Hn Hd2) in *.
    destruct (lookup s2 d n) as [c|] eqn:El2.
    + pose proof (lookup_shrinks_some _ _ _ _ _ Hs (proj1 Ht) El2) as El.
      rewrite (unlink0_spec s d n Hn Hd), El in Hu. rewrite (unlink0_spec s d n Hn Hd), El.
      rewrite (is_dir_shrinks _ _ c Hs) in *.
      destruct (is_dir s c) eqn:Ec; cbn [negb] in *.
      * destruct (has_child s2 c) eqn:Eh; [|exfalso; exact (Hr _ eq_refl)].
        right. split; [reflexivity|]. exists c. rewrite (is_dir_shrinks _ _ c Hs). repeat split; assumption.
      * exfalso. exact (Hu _ eq_refl).
    + left. split; [reflexivity|reflexivity].
  - exfalso. destruct Hpre as [_ [Hn _]]. destruct (nm_ok_facts _ Hn) as [H _]. congruence.
  - exfalso. destruct Hpre as [_ [Hn _]]. destruct (nm_ok_facts _ Hn) as [_ H]. rewrite H, andb_false_r in Hdots. discriminate.
  - (* remove_inode tolerated *)
    destruct (IHi Hpre) as [Hs1 Hp]. split; [exact Hs1|]. cbn [Post] in *. destruct Hp as [[_ Hl]|[-> _]]; [|discriminate Htol].
    split; [eexists; reflexivity|exact Hl].
  - (* the open failed *)
    destruct (IHi Hpre) as [Hs1 Hp]. split; [exact (shrinks_trans _ _ _ Hs1 Hs)|]. cbn [Post] in *.
    destruct Hpre as [Ht [Hn Hd]]. pose proof (shrinks_trans _ _ _ Hs1 Hs) as Hs02.
    assert (Hd2 : is_dir s2 d = true) by (rewrite (is_dir_shrinks _ _ d Hs02); exact Hd).
    rewrite (mk_open_spec s2 d n Hn Hd2) in Hop.
    destruct Hp as [[Ht' _]|(-> & c & Hl1 & Hc1 & _)]; [congruence|].
    destruct (lookup s2 d n) as [c'|] eqn:El2.
    + pose proof (lookup_shrinks_some _ _ _ _ _ Hs (proj1 (tree_ok_shrinks _ _ Hs1 Ht)) El2) as El1'. rewrite Hl1 in El1'. inversion El1'; subst c'.
      rewrite (is_dir_shrinks _ _ c Hs), Hc1 in Hop. discriminate.
    + inversion Hop; subst e. change (N.eqb ENOENT ENOENT) with true. cbv iota. split; [eexists; reflexivity|reflexivity].
  - (* the open found the directory *)
    destruct (IHi Hpre) as [Hs1 Hp]. cbn [Post] in Hp.
    destruct Hpre as [Ht [Hn Hd]]. pose proof (shrinks_trans _ _ _ Hs1 Hs) as Hs02.
    assert (Hd2 : is_dir s2 d = true) by (rewrite (is_dir_shrinks _ _ d Hs02); exact Hd).
    rewrite (mk_open_spec s2 d n Hn Hd2) in Hop.
    destruct (lookup s2 d n) as [c'|] eqn:El2; [|discriminate].
    destruct (is_dir s2 c') eqn:Ec; [|discriminate]. inversion Hop; subst c'.
    assert (Hpre2 : Pre (TRounds d n c) s2).
    { split; [exact (tree_ok_shrinks _ _ Hs02 Ht)|]. cbn. split; [exact Hn|]. split; [exact Hd2|]. split; [exact Ec|]. intros c' E. congruence. }
    destruct (IHr Hpre2) as [Hs2 Hp2]. split; [exact (shrinks_trans _ _ _ Hs02 Hs2)|exact Hp2].
  - (* a pass cannot fail *)
    exfalso. destruct Hpre as [Ht (Hn & Hd & Hc & Hl)].
    assert (HpreE : Pre (TEntries c (dir_names s c) false) s).
    { split; [exact Ht|]. cbn. split; [exact Hc|]. unfold dir_names. apply Forall_forall. intros x Hx. apply in_map_iff in Hx.
      destruct Hx as (e0 & <- & He0). apply filter_In in He0. exact (proj2 Ht e0 (proj1 He0)). }
    destruct (IHe HpreE) as [_ (b & Hb & _)]. discriminate.
  - (* another round *)
    destruct Hpre as [Ht (Hn & Hd & Hc & Hl)].
    assert (HpreE : Pre (TEntries c (dir_names s c) false) s).
    { split; [exact Ht|]. cbn. split; [exact Hc|]. unfold dir_names. apply Forall_forall. intros x Hx. apply in_map_iff in Hx.
      destruct Hx as (e0 & <- & He0). apply filter_In in He0. exact (proj2 Ht e0 (proj1 He0)). }
    destruct (IHe HpreE) as [Hs1 _].
    destruct (IHr (Pre_shrinks (TRounds d n c) _ _ Hs1 (conj Ht (conj Hn (conj Hd (conj Hc Hl)))))) as [Hs2 Hp2].
    split; [exact (shrinks_trans _ _ _ Hs1 Hs2)|exact Hp2].
  - (* the pass saw nothing: the directory is empty and stays empty, remove_inode goes through or finds nothing *)
    destruct Hpre as [Ht (Hn & Hd & Hc & Hl)].
    assert (HpreE : Pre (TEntries c (dir_names s c) false) s).
    { split; [exact Ht|]. cbn. split; [exact Hc|]. unfold dir_names. apply Forall_forall. intros x Hx. apply in_map_iff in Hx.
      destruct Hx as (e0 & <- & He0). apply filter_In in He0. exact (proj2 Ht e0 (proj1 He0)). }
    destruct (IHe HpreE) as [Hs1 (b & Hb & Hfalse)]. inversion Hb; subst b. destruct (Hfalse eq_refl) as [_ Hdots].
    pose proof (dir_names_dots s c Ht Hdots) as Hempty.
    assert (HpreI : Pre (TInode d n) s1).
    { split; [exact (tree_ok_shrinks _ _ Hs1 Ht)|]. cbn. split; [exact Hn|]. rewrite (is_dir_shrinks _ _ d Hs1). exact Hd. }
    destruct (IHi HpreI) as [Hs2 Hp]. split; [exact (shrinks_trans _ _ _ Hs1 Hs2)|]. cbn [Post] in *.
    destruct Hp as [[Ht' Hl2]|(-> & c0 & Hl2 & Hc0 & Hh0)].
    + rewrite Ht'. split; [eexists; reflexivity|exact Hl2].
    + exfalso. pose proof (shrinks_trans _ _ _ Hs1 Hs2) as Hs02.
      pose proof (lookup_shrinks_some _ _ _ _ _ Hs02 (proj1 Ht) Hl2) as El. pose proof (Hl _ El) as E. subst c0.
      pose proof (has_child_shrinks _ _ c Hs02 Hh0) as Hh. congruence.
  - split; [apply shrinks_refl|]. cbn. exists seen. split; [reflexivity|]. intros ->. split; [reflexivity|constructor].
  - destruct Hpre as [Ht [Hc Hn]]. inversion Hn as [|? ? _ Hrest]; subst.
    destruct (IH (conj Ht (conj Hc Hrest))) as [Hs (b & Hb & Hf)]. split; [exact Hs|]. cbn. exists b. split; [exact Hb|].
    intros E. destruct (Hf E) as [H1 H2]. split; [exact H1|constructor; assumption].
  - exfalso. destruct Hpre as [Ht [Hc Hn]]. inversion Hn as [|? ? Hn1 _]; subst.
    destruct (IHa (conj Ht (conj Hn1 Hc))) as [_ [(b & Hb) _]]. discriminate.
  - destruct Hpre as [Ht [Hc Hn]]. inversion Hn as [|? ? Hn1 Hrest]; subst.
    destruct (IHa (conj Ht (conj Hn1 Hc))) as [Hs1 _].
    assert (HpreE : Pre (TEntries c rest true) s1).
    { split; [exact (tree_ok_shrinks _ _ Hs1 Ht)|]. cbn. split; [rewrite (is_dir_shrinks _ _ c Hs1); exact Hc|exact Hrest]. }
    destruct (IHe HpreE) as [Hs2 (b & Hb & Hf)]. split; [exact (shrinks_trans _ _ _ Hs1 Hs2)|]. cbn. exists b. split; [exact Hb|].
    intros E. destruct (Hf E) as [H1 _]. discriminate.
Qed.

(* ---- without interference [rc] is rm_all (the function dir.rs remove_all was refined to) ---------------- *)

Definition lift (r : result unit ekind) : result bool ekind := match r with Ok _ => Ok true | Err e => Err e end.

Lemma inode_rc s d n : rc (TInode d n) s (fst (rm_inode s d n)) (lift (snd (rm_inode s d n))).
Proof.
  unfold rm_inode.
  destruct (unlink_sem s d n 0) as [|ue|s1|s1 o1] eqn:E1.
  - assert (H1 : forall x, unlink_sem s d n 0 <> EUnit x) by (intros x Hx; rewrite E1 in Hx; discriminate).
    destruct (unlink_sem s d n AT_REMOVEDIR) as [|re|s3|s3 o3] eqn:E2; cbn [fst snd lift].
    + assert (H2 : forall x, unlink_sem s d n AT_REMOVEDIR <> EUnit x) by (intros x Hx; rewrite E2 in Hx; discriminate).
      pose proof (rc_rmdir_err d n s s H1 (shrinks_refl s) H2) as H. rewrite E1, E2 in H. exact H.
    + assert (H2 : forall x, unlink_sem s d n AT_REMOVEDIR <> EUnit x) by (intros x Hx; rewrite E2 in Hx; discriminate).
      pose proof (rc_rmdir_err d n s s H1 (shrinks_refl s) H2) as H. rewrite E1, E2 in H. exact H.
    + exact (rc_rmdir_ok d n s s s3 H1 (shrinks_refl s) E2).
    + assert (H2 : forall x, unlink_sem s d n AT_REMOVEDIR <> EUnit x) by (intros x Hx; rewrite E2 in Hx; discriminate).
      pose proof (rc_rmdir_err d n s s H1 (shrinks_refl s) H2) as H. rewrite E1, E2 in H. exact H.
  - assert (H1 : forall x, unlink_sem s d n 0 <> EUnit x) by (intros x Hx; rewrite E1 in Hx; discriminate).
    destruct (unlink_sem s d n AT_REMOVEDIR) as [|re|s3|s3 o3] eqn:E2; cbn [fst snd lift].
    + assert (H2 : forall x, unlink_sem s d n AT_REMOVEDIR <> EUnit x) by (intros x Hx; rewrite E2 in Hx; discriminate).
      pose proof (rc_rmdir_err d n s s H1 (shrinks_refl s) H2) as H. rewrite E1, E2 in H. exact H.
    + assert (H2 : forall x, unlink_sem s d n AT_REMOVEDIR <> EUnit x) by (intros x Hx; rewrite E2 in Hx; discriminate).
      pose proof (rc_rmdir_err d n s s H1 (shrinks_refl s) H2) as H. rewrite E1, E2 in H. exact H.
    + exact (rc_rmdir_ok d n s s s3 H1 (shrinks_refl s) E2).
    + assert (H2 : forall x, unlink_sem s d n AT_REMOVEDIR <> EUnit x) by (intros x Hx; rewrite E2 in Hx; discriminate).
      pose proof (rc_rmdir_err d n s s H1 (shrinks_refl s) H2) as H. rewrite E1, E2 in H. exact H.
  - cbn [fst snd lift]. exact (rc_unlink_ok d n s s1 E1).
  - assert (H1 : forall x, unlink_sem s d n 0 <> EUnit x) by (intros x Hx; rewrite E1 in Hx; discriminate).
    destruct (unlink_sem s d n AT_REMOVEDIR) as [|re|s3|s3 o3] eqn:E2; cbn [fst snd lift].
    + assert (H2 : forall x, unlink_sem s d n AT_REMOVEDIR <> EUnit x) by (intros x Hx; rewrite E2 in Hx; discriminate).
      pose proof (rc_rmdir_err d n s s H1 (shrinks_refl s) H2) as H. rewrite E1, E2 in H. exact H.
    + assert (H2 : forall x, unlink_sem s d n AT_REMOVEDIR <> EUnit x) by (intros x Hx; rewrite E2 in Hx; discriminate).
      pose proof (rc_rmdir_err d n s s H1 (shrinks_refl s) H2) as H. rewrite E1, E2 in H. exact H.
    + exact (rc_rmdir_ok d n s s s3 H1 (shrinks_refl s) E2).
    + assert (H2 : forall x, unlink_sem s d n AT_REMOVEDIR <> EUnit x) by (intros x Hx; rewrite E2 in Hx; discriminate).
      pose proof (rc_rmdir_err d n s s H1 (shrinks_refl s) H2) as H. rewrite E1, E2 in H. exact H.
Qed.

Lemma entries_rc rec c : (forall s n s' r, rec s n = Some (s', r) -> rc (TAll c n) s s' (lift r)) ->
  forall g s buf seen s' r, rm_entries rec g s c buf true seen = Some (s', r) -> rc (TEntries c buf seen) s s' r.
Proof.
  intro Hrec. induction g as [|g IH]; intros s buf seen s' r H; cbn [rm_entries] in H; [discriminate|].
  destruct buf as [|n rest]; [inversion H; subst; apply rc_ent_nil|].
  destruct (dot_or_dotdot n) eqn:Ed; [apply rc_ent_skip; [exact Ed|apply IH; exact H]|].
  destruct (rec s n) as [[s1 r1]|] eqn:Er; [|discriminate]. pose proof (Hrec _ _ _ _ Er) as Hall.
  destruct r1 as [u|e]; cbn [ignore_enoent] in H.
  - eapply rc_ent_ok; [exact Ed|exact Hall|reflexivity|apply IH; exact H].
  - destruct (errno_is e ENOENT) eqn:Ee.
    + eapply rc_ent_ok; [exact Ed|exact Hall|exact Ee|apply IH; exact H].
    + inversion H; subst. eapply rc_ent_err; [exact Ed|exact Hall|exact Ee].
Qed.

Lemma scan_rc rec c : (forall s n s' r, rec s n = Some (s', r) -> rc (TAll c n) s s' (lift r)) ->
  forall g s s' r, rm_entries rec g s c [] false false = Some (s', r) -> rc (TEntries c (dir_names s c) false) s s' r.
Proof.
  intros Hrec g s s' r H. destruct g as [|g]; [discriminate|]. cbn [rm_entries] in H.
  destruct g as [|g]; [discriminate|]. cbn [rm_entries] in H. change (dot_or_dotdot [DOT]) with true in H. cbv iota in H.
  destruct g as [|g]; [discriminate|]. cbn [rm_entries] in H. change (dot_or_dotdot [DOT; DOT]) with true in H. cbv iota in H.
  exact (entries_rc rec c Hrec g s _ false s' r H).
Qed.

Lemma rounds_rc rec d n c g0 : (forall s n s' r, rec s n = Some (s', r) -> rc (TAll c n) s s' (lift r)) ->
  forall g s s' r,
  rm_rounds (fun s2 => rm_entries rec g0 s2 c [] false false)
            (fun s2 => let '(s3, r) := rm_inode s2 d n in (s3, ignore_enoent r)) g s = Some (s', r) ->
  rc (TRounds d n c) s s' (lift r).
Proof.
  intro Hrec. induction g as [|g IH]; intros s s' r H; cbn [rm_rounds] in H; [discriminate|].
  destruct (rm_entries rec g0 s c [] false false) as [[s1 [[|]|e]]|] eqn:Es; try discriminate.
  - eapply rc_round_again; [exact (scan_rc rec c Hrec _ _ _ _ Es)|apply IH; exact H].
  - pose proof (scan_rc rec c Hrec _ _ _ _ Es) as Hscan. pose proof (inode_rc s1 d n) as Hi.
    destruct (rm_inode s1 d n) as [s3 r3]. cbn [fst snd] in Hi. inversion H; subst s' r.
    pose proof (rc_round_fin d n c s s1 s3 _ Hscan Hi) as Hfin.
    destruct r3 as [u|e]; cbn [lift tol ignore_enoent] in *; [exact Hfin|]. destruct (errno_is e ENOENT); exact Hfin.
  - inversion H; subst. apply rc_round_err. exact (scan_rc rec c Hrec _ _ _ _ Es).
Qed.

Theorem rm_all_rc : forall f s d n s' r, rm_all f s d n = Some (s', r) -> rc (TAll d n) s s' (lift r).
Proof.
  induction f as [|f IH]; intros s d n s' r H; cbn [rm_all] in H; [discriminate|].
  destruct (has_slash n) eqn:Esl; [inversion H; subst s' r; apply rc_all_slash; exact Esl|].
  destruct (REMOVE_ALL_REFUSES_DOTS && dot_or_dotdot n) eqn:Edots; [inversion H; subst s' r; apply rc_all_dots; [exact Esl|exact Edots]|].
  pose proof (inode_rc s d n) as Hi. destruct (rm_inode s d n) as [s1 r1]. cbn [fst snd] in Hi.
  destruct (ignore_enoent r1) as [u|e0] eqn:Eig.
  - inversion H; subst. eapply rc_all_done; [exact Esl|exact Edots|exact Hi|].
    destruct r1 as [u1|e1]; cbn [lift tol]; [reflexivity|]. cbn [ignore_enoent] in Eig. destruct (errno_is e1 ENOENT); [reflexivity|discriminate].
  - assert (Htol : tol (lift r1) = false).
    { destruct r1 as [u1|e1]; cbn [ignore_enoent] in Eig; [discriminate|]. cbn [lift tol]. destruct (errno_is e1 ENOENT); [discriminate|reflexivity]. }
    destruct (mk_open s1 d n) as [c|e] eqn:Eo.
    + eapply rc_all_dir; [exact Esl|exact Edots|exact Hi|exact Htol|apply shrinks_refl|exact Eo|].
      exact (rounds_rc (fun s3 n0 => rm_all f s3 c n0) d n c f (fun s3 n0 s4 r4 Hr => IH s3 c n0 s4 r4 Hr) f s1 s' r H).
    + pose proof (rc_all_noent d n s s1 _ s1 e Esl Edots Hi Htol (shrinks_refl s1) Eo) as Hn.
      destruct (N.eqb e ENOENT); inversion H; subst; exact Hn.
Qed.

(* ---- the race clause: whatever the other removers do and whenever, remove_all reports success and the name is gone *)
Theorem remove_all_converges_under_racing_removers s d n s' r :
  rc (TAll d n) s s' r -> tree_ok s -> nm_ok n -> is_dir s d = true ->
  (exists b, r = Ok b) /\ lookup s' d n = None /\ shrinks s s'.
Proof.
  intros H Ht Hn Hd. destruct (rc_converges _ _ _ _ H (conj Ht (conj Hn Hd))) as [Hs [Hr Hl]]. split; [exact Hr|]. split; [exact Hl|exact Hs].
Qed.

(* non-vacuity: a/ holds f and g.  We unlink a (EISDIR), rmdir a (ENOTEMPTY); before we open a, another remover takes
   a/f away; we open a, our pass removes g and has seen an entry; the second pass sees nothing; rmdir a. *)
Definition ex_s0 : fs :=
  {| kinds := [FSModel.KDir; FSModel.KDir; FSModel.KReg; FSModel.KReg]; parents := [0; 0; 1; 1]%nat;
     ents := [(0%nat, b "a", 1%nat); (1%nat, b "f", 2%nat); (1%nat, b "g", 3%nat)] |}.
Definition ex_s1 : fs := del_ent ex_s0 1 (b "f").
Definition ex_s2 : fs := {| kinds := kinds ex_s0; parents := parents ex_s0; ents := [] |}.

Example racing_run :
  rc (TAll 0 (b "a")) ex_s0 ex_s2 (Ok true) /\ tree_ok ex_s0 /\ nm_ok (b "a") /\ is_dir ex_s0 0 = true.
Proof.
  split.
  - pose proof (inode_rc ex_s0 0 (b "a")) as Hi.
    assert (Er : rm_inode ex_s0 0 (b "a") = (ex_s0, Err (OsError ENOTEMPTY))) by (vm_compute; reflexivity).
    rewrite Er in Hi. cbn [fst snd lift] in Hi.
    eapply (rc_all_dir 0%nat (b "a") ex_s0 ex_s0 _ ex_s1 1%nat); [reflexivity|reflexivity|exact Hi|reflexivity| |vm_compute; reflexivity|].
    + repeat split; try reflexivity. unfold ex_s1, del_ent. cbn [FSModel.ents]. apply incl_filter.
    + assert (Hrounds : rm_rounds (fun s2 => rm_entries (fun s3 n0 => rm_all 8 s3 1 n0) 8 s2 1 [] false false)
                                  (fun s2 => let '(s3, r) := rm_inode s2 0 (b "a") in (s3, ignore_enoent r)) 8 ex_s1 = Some (ex_s2, Ok tt))
        by (vm_compute; reflexivity).
      exact (rounds_rc (fun s3 n0 => rm_all 8 s3 1 n0) 0%nat (b "a") 1%nat 8 (fun s3 n0 s4 r4 Hr => rm_all_rc 8 s3 1 n0 s4 r4 Hr) 8 ex_s1 ex_s2 (Ok tt) Hrounds).
  - split; [|split; [split; reflexivity|reflexivity]].
    split.
    + intros d n1 n2 c1 c2 H1 H2 Hb. cbn in H1, H2.
      destruct H1 as [H1|[H1|[H1|[]]]]; destruct H2 as [H2|[H2|[H2|[]]]]; inversion H1; inversion H2; subst; try reflexivity; vm_compute in Hb; discriminate.
    + intros e [<-|[<-|[<-|[]]]]; split; reflexivity.
Qed.
