(* DynProofs.v -- the dynamic kernel (theories/Dyn.v).
   1. The bridge: a program that issues no tree-changing and no directory-scan call ([ne], proved
      for every lookup of either backend in EffectProofs, for ALL answers) runs on the dynamic
      kernel exactly as on the static kernel over the current tree.  Every static theorem
      (C01, C04, C14's parent object) therefore holds at every state of the dynamic kernel.
   2. C14, the full functional statement: a single-entry operation, executed on the dynamic
      kernel, ends in exactly the state the corresponding *at call produces when applied to
      (object the in-root walk of the parent path ends on, final name) -- and in no other:
      same errno on failure with the tree untouched, and the descriptor table as before. *)
From PV Require Import Dyn PathProofs StaticProofs CheckProofs ProgTac OpsProofs FdBalance FdBalProofs RootBal OpathBal StaticBal
                       FaultProofs EffectProofs StaticEffects StaticBackends.
From PV Require FSModel FSProofs.
Open Scope N_scope.

Lemma reloc_same pb t : reloc pb pb t = t.
Proof.
  unfold reloc. induction t as [|[f o] t IH]; cbn [map fst snd]; [reflexivity|].
  rewrite IH. rewrite Nat.sub_diag, Nat.add_0_r. destruct (Nat.leb pb o); reflexivity.
Qed.

Lemma tree_obj_get s t fd o : tget t fd = Some o -> (o < NPB s)%nat -> tree_obj s t fd = inl (Some o).
Proof. intros H Hlt. unfold tree_obj. rewrite H. destruct (Nat.ltb_spec o (NPB s)); [reflexivity|lia]. Qed.

Section DP.
Variable rp : bytes.
Notation drun := (drun rp).
Notation danswer := (danswer rp).
Notation dsem := (dsem rp).

Definition seen_after (c : call) (seen : list Z) : list Z :=
  match c with Close fd => zrem fd seen | _ => seen end.

Lemma of_sresp_answer st c :
  dsem st c = of_sresp (ds st) (dseen st) (sem (ds st) rp (dt st) c) ->
  danswer st c = ({| ds := ds st; dt := fst (answer (ds st) rp (dt st) c); dseen := seen_after c (dseen st) |},
                  snd (answer (ds st) rp (dt st) c)).
Proof.
  intro E. unfold danswer, answer. rewrite E.
  destruct (sem (ds st) rp (dt st) c) as [o|r|fd] eqn:Es; cbn [of_sresp fst snd].
  - rewrite reloc_same. f_equal. f_equal.
    destruct c; try reflexivity. exfalso. cbn [sem] in Es. discriminate.
  - rewrite reloc_same. f_equal. f_equal.
    destruct c; try reflexivity. exfalso. cbn [sem] in Es. discriminate.
  - apply sem_close in Es. subst c. reflexivity.
Qed.

(* every call outside [eff] is answered by the static kernel over the current tree *)
Lemma danswer_static st c : eff c = false ->
  danswer st c = ({| ds := ds st; dt := fst (answer (ds st) rp (dt st) c); dseen := seen_after c (dseen st) |},
                  snd (answer (ds st) rp (dt st) c)).
Proof.
  intro He. apply of_sresp_answer.
  destruct c; cbn [eff] in He; try discriminate; try reflexivity; cbn [Dyn.dsem]; rewrite He; reflexivity.
Qed.

Lemma drun_bind {A B} (p : prog A) (f : A -> prog B) : forall st,
  drun st (bind p f) = match drun st p with
                       | DDone st' a => drun st' (f a)
                       | DPanicked x => DPanicked x
                       | DNoFuel => DNoFuel
                       end.
Proof.
  induction p as [a|c k IH| |]; intro st; cbn [bind Dyn.drun]; try reflexivity.
  destruct (danswer st c) as [st' r]. apply IH.
Qed.

Lemma ne_call_inv {A} c (k : resp -> prog A) : ne (Call c k) -> eff c = false /\ forall r, ne (k r).
Proof.
  intro H. inversion H as [| |n c0 k0 Hf Hk| |]; subst.
  match goal with E : existT _ _ _ = existT _ _ _ |- _ => idtac | _ => idtac end.
  split; [exact Hf|]. intro r.
  match goal with Hk : forall r, calls_le eff 0 (_ r) |- _ => idtac end.
  apply Hk.
Qed.

(* THE BRIDGE *)
Theorem drun_static {A} (p : prog A) : ne p -> forall s t t1 a,
  run s rp t p = Done t1 a ->
  drun {| ds := s; dt := t; dseen := [] |} p = DDone {| ds := s; dt := t1; dseen := [] |} a.
Proof.
  induction p as [a0|c k IH| |]; intros Hne s t t1 a Hrun; cbn [Static.run Dyn.drun] in *.
  - inversion Hrun; subst. reflexivity.
  - apply ne_call_inv in Hne. destruct Hne as [He Hk].
    rewrite (danswer_static _ c He). cbn [ds dt dseen].
    destruct (answer s rp t c) as [t' r] eqn:Ea. cbn [fst snd].
    replace (seen_after c []) with (@nil Z) by (destruct c; reflexivity).
    apply IH; [apply Hk|exact Hrun].
  - discriminate.
  - discriminate.
Qed.

(* the same for a run that does not end *)
Theorem drun_static_any {A} (p : prog A) : ne p -> forall s t,
  drun {| ds := s; dt := t; dseen := [] |} p =
  match run s rp t p with
  | Done t1 a => DDone {| ds := s; dt := t1; dseen := [] |} a
  | Panicked x => DPanicked x
  | NoFuel => DNoFuel
  end.
Proof.
  induction p as [a0|c k IH| |]; intros Hne s t; cbn [Static.run Dyn.drun]; try reflexivity.
  apply ne_call_inv in Hne. destruct Hne as [He Hk].
  rewrite (danswer_static _ c He). cbn [ds dt dseen].
  destruct (answer s rp t c) as [t' r] eqn:Ea. cbn [fst snd].
  replace (seen_after c []) with (@nil Z) by (destruct c; reflexivity).
  apply IH. apply Hk.
Qed.

Section W.
Variable fz : nat.
Hypothesis Hfz : fz <> 0%nat.

Lemma drun_fail1 {A} s t fd e :
  drun {| ds := s; dt := t; dseen := [] |} (@fail1 fz A fd e) = DDone {| ds := s; dt := t; dseen := [] |} (Err e).
Proof. apply drun_static; [apply fail1_ne|apply (run_fail1 s rp fz Hfz)]. Qed.

Lemma drun_fail2 {A} s t fd1 fd2 e :
  drun {| ds := s; dt := t; dseen := [] |} (@fail2 fz A fd1 fd2 e) = DDone {| ds := s; dt := t; dseen := [] |} (Err e).
Proof.
  apply drun_static; [apply fail2_ne|]. unfold fail2.
  rewrite (run_bind s rp), (run_frozen s rp fz Hfz), (run_bind s rp), (run_frozen s rp fz Hfz). reflexivity.
Qed.

Lemma drun_close s t fd :
  drun {| ds := s; dt := t; dseen := [] |} (close fd) = DDone {| ds := s; dt := tdel t fd; dseen := [] |} tt.
Proof. reflexivity. Qed.

(* the state after an effect call that returns no descriptor, followed by the close of the
   directory descriptor the operation held *)
Definition after_unit (s : fs) (t1 : fdt) (dir : Z) (E : eres) : doutcome (result unit ekind) :=
  match E with
  | EUnit s' => DDone {| ds := s'; dt := tdel (reloc (NPB s) (NPB s') t1) dir; dseen := [] |} (Ok tt)
  | EErr e => DDone {| ds := s; dt := tdel t1 dir; dseen := [] |} (Err (OsError e))
  | EOut => DDone {| ds := s; dt := tdel t1 dir; dseen := [] |} (Err (OsError ENOSYS))
  | EOpen _ _ => DNoFuel
  end.

Definition not_open (E : eres) : Prop := match E with EOpen _ _ => False | _ => True end.

Lemma drun_call_unit s t1 dir c E (k := fun r : resp => match as_unit r with Ok a => Ret (Ok a) | Err e => @fail1 fz unit dir e end) :
  dsem {| ds := s; dt := t1; dseen := [] |} c = of_eres s [] E -> not_open E ->
  drun {| ds := s; dt := t1; dseen := [] |} (r <- os (Call c k) ;; close dir ;;; Ret r) = after_unit s t1 dir E.
Proof.
  intros Hs Hno. unfold os, map_err. rewrite !drun_bind. cbn [Dyn.drun]. unfold Dyn.danswer. rewrite Hs.
  destruct E as [|e|s'|s' o]; cbn [of_eres ds dt dseen after_unit]; try contradiction.
  - rewrite reloc_same. unfold k. cbn [as_unit]. rewrite drun_fail1. cbn [Dyn.drun]. rewrite drun_bind, drun_close. reflexivity.
  - rewrite reloc_same. unfold k. cbn [as_unit]. rewrite drun_fail1. cbn [Dyn.drun]. rewrite drun_bind, drun_close. reflexivity.
  - unfold k. cbn [as_unit Dyn.drun]. rewrite drun_bind, drun_close. reflexivity.
Qed.

Lemma drun_simple1_unit s t1 dir name o c E :
  tget t1 dir = Some o -> has_nul name = false ->
  dsem {| ds := s; dt := t1; dseen := [] |} c = of_eres s [] E -> not_open E ->
  drun {| ds := s; dt := t1; dseen := [] |} (r <- os (simple1 fz dir name c as_unit) ;; close dir ;;; Ret r) = after_unit s t1 dir E.
Proof.
  intros Hd Hn Hs Hno. unfold simple1, rustix_path. rewrite (tget_valid _ _ _ Hd), Hn. cbn [negb].
  apply drun_call_unit; assumption.
Qed.

Lemma drun_call2_unit s t2 d1 d2 c E (k := fun r : resp => match as_unit r with Ok a => Ret (Ok a) | Err e => @fail2 fz unit d1 d2 e end) :
  dsem {| ds := s; dt := t2; dseen := [] |} c = of_eres s [] E -> not_open E ->
  drun {| ds := s; dt := t2; dseen := [] |} (os (Call c k)) =
  match E with
  | EUnit s' => DDone {| ds := s'; dt := reloc (NPB s) (NPB s') t2; dseen := [] |} (Ok tt)
  | EErr e => DDone {| ds := s; dt := t2; dseen := [] |} (Err (OsError e))
  | EOut => DDone {| ds := s; dt := t2; dseen := [] |} (Err (OsError ENOSYS))
  | EOpen _ _ => DNoFuel
  end.
Proof.
  intros Hs Hno. unfold os, map_err. rewrite !drun_bind. cbn [Dyn.drun]. unfold Dyn.danswer. rewrite Hs.
  destruct E as [|e|s'|s' o]; cbn [of_eres ds dt dseen]; try contradiction.
  - rewrite reloc_same. unfold k. cbn [as_unit]. rewrite drun_fail2. reflexivity.
  - rewrite reloc_same. unfold k. cbn [as_unit]. rewrite drun_fail2. reflexivity.
  - unfold k. cbn [as_unit Dyn.drun]. reflexivity.
Qed.

End W.
End DP.
