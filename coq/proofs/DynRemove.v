(* DynRemove.v -- C13 on the dynamic kernel (theories/Dyn.v).
   1. [remove_all_dyn]: executing dir.rs remove_all(dirfd, name) -- unlink / rmdir, the scan
      rounds over fresh directory streams, the recursion into sub-directories -- computes the
      pure function [rm_all] of the tree (same resulting tree, same result), leaves the
      descriptor table exactly as it was and every directory stream it read closed.
   2. What [rm_all] does to ANY tree ([rm_all_post]): objects and parents are untouched, the
      entries afterwards are a sub-list of the entries before, every entry that disappeared lies
      BENEATH (dir, name) -- it is that entry, or an entry of a directory reached from it by
      descending through real sub-directories (never through a link) --, and when it reports
      success the named entry is gone. *)
From PV Require Import Dyn BitsProofs PathProofs StaticProofs StaticProcfs ProgTac StaticBal FaultProofs EffectProofs DynProofs DynMkdir.
From PV Require FSModel FSProofs.
From Coq Require Import Lia.
Open Scope N_scope.

(* ---- the pure function ---------------------------------------------------------------- *)

(* dir.rs remove_inode: unlinkat(0), then unlinkat(AT_REMOVEDIR) *)
Definition rm_inode (s : fs) (d : nat) (name : bytes) : fs * result unit ekind :=
  match unlink_sem s d name 0 with
  | EUnit s' => (s', Ok tt)
  | EErr ue =>
      match unlink_sem s d name AT_REMOVEDIR with
      | EUnit s' => (s', Ok tt)
      | EErr re => (s, Err (OsError (if N.eqb re ENOTDIR then ue else re)))
      | _ => (s, Err (OsError (if N.eqb ENOSYS ENOTDIR then ue else ENOSYS)))
      end
  | _ =>
      match unlink_sem s d name AT_REMOVEDIR with
      | EUnit s' => (s', Ok tt)
      | EErr re => (s, Err (OsError (if N.eqb re ENOTDIR then ENOSYS else re)))
      | _ => (s, Err (OsError ENOSYS))
      end
  end.

(* one pass over a directory stream of [c]: [read] = the stream has been read to its end *)
Fixpoint rm_entries (rec : fs -> bytes -> option (fs * result unit ekind)) (g : nat) (s : fs) (c : nat)
         (buf : list bytes) (read seen : bool) : option (fs * result bool ekind) :=
  match g with
  | O => None
  | S g' =>
      match buf with
      | n :: rest =>
          if dot_or_dotdot n then rm_entries rec g' s c rest read seen
          else match rec s n with
               | None => None
               | Some (s', r) =>
                   match ignore_enoent r with
                   | Err e => Some (s', Err e)
                   | Ok _ => rm_entries rec g' s' c rest read true
                   end
               end
      | [] =>
          if read then Some (s, Ok seen)
          else rm_entries rec g' s c ([DOT] :: [DOT; DOT] :: dir_names s c) true seen
      end
  end.

Fixpoint rm_rounds (scan : fs -> option (fs * result bool ekind)) (finish_ : fs -> fs * result unit ekind)
         (g : nat) (s : fs) : option (fs * result unit ekind) :=
  match g with
  | O => None
  | S g' =>
      match scan s with
      | None => None
      | Some (s', Err e) => Some (s', Err e)
      | Some (s', Ok false) => Some (finish_ s')
      | Some (s', Ok true) => rm_rounds scan finish_ g' s'
      end
  end.

Fixpoint rm_all (fuel : nat) (s : fs) (d : nat) (name : bytes) : option (fs * result unit ekind) :=
  match fuel with
  | O => None
  | S f =>
      if has_slash name then Some (s, Err SafetyViolation) else
      if REMOVE_ALL_REFUSES_DOTS && dot_or_dotdot name then Some (s, Err InvalidArgument) else
      let '(s1, r) := rm_inode s d name in
      match ignore_enoent r with
      | Ok _ => Some (s1, Ok tt)
      | Err _ =>
          match mk_open s1 d name with
          | inr e => if N.eqb e ENOENT then Some (s1, Ok tt) else Some (s1, Err (OsError e))
          | inl c =>
              rm_rounds (fun s2 => rm_entries (fun s3 n => rm_all f s3 c n) f s2 c [] false false)
                        (fun s2 => let '(s3, r) := rm_inode s2 d name in (s3, ignore_enoent r)) f s1
          end
      end
  end.

(* ---- auxiliary facts ---------------------------------------------------------------- *)

Lemma zrem_notin x l : zmem x l = false -> zrem x l = l.
Proof.
  induction l as [|y l IH]; cbn [zmem zrem]; [reflexivity|]. intro H. apply orb_false_iff in H. destruct H as [H1 H2].
  rewrite H1, (IH H2). reflexivity.
Qed.

Lemma zrem_cons_same x l : zmem x l = false -> zrem x (x :: l) = l.
Proof. intro H. cbn [zrem]. rewrite Z.eqb_refl. apply zrem_notin. exact H. Qed.

Lemma zmem_cons_other x y l : x <> y -> zmem x (y :: l) = zmem x l.
Proof. intro H. cbn [zmem]. destruct (Z.eqb_spec x y); [contradiction|reflexivity]. Qed.

Lemma unlink_sem_kinds s d n fl s' : unlink_sem s d n fl = EUnit s' -> kinds s' = kinds s /\ parents s' = parents s.
Proof.
  unfold unlink_sem. intro H.
  repeat (first [discriminate | match type of H with context [match ?x with _ => _ end] => destruct x end]);
    inversion H; subst; split; reflexivity.
Qed.

Lemma unlink_sem_not_open s d n fl s' o : unlink_sem s d n fl <> EOpen s' o.
Proof.
  unfold unlink_sem. intro H.
  repeat (first [discriminate | match type of H with context [match ?x with _ => _ end] => destruct x end]).
Qed.

Lemma rm_inode_kinds s d n : kinds (fst (rm_inode s d n)) = kinds s /\ parents (fst (rm_inode s d n)) = parents s.
Proof.
  unfold rm_inode.
  destruct (unlink_sem s d n 0) as [|ue|s'|s' o] eqn:E1.
  - destruct (unlink_sem s d n AT_REMOVEDIR) as [|re|s'|s' o] eqn:E2; cbn [fst]; try (split; reflexivity). exact (unlink_sem_kinds _ _ _ _ _ E2).
  - destruct (unlink_sem s d n AT_REMOVEDIR) as [|re|s'|s' o] eqn:E2; cbn [fst]; try (split; reflexivity). exact (unlink_sem_kinds _ _ _ _ _ E2).
  - cbn [fst]. exact (unlink_sem_kinds _ _ _ _ _ E1).
  - destruct (unlink_sem s d n AT_REMOVEDIR) as [|re|s''|s'' o'] eqn:E2; cbn [fst]; try (split; reflexivity). exact (unlink_sem_kinds _ _ _ _ _ E2).
Qed.

(* ---- nothing is added or modified: [shrinks] ------------------------------------------ *)

Definition shrinks (s s' : fs) : Prop :=
  kinds s' = kinds s /\ parents s' = parents s /\ incl (ents s') (ents s).

Lemma shrinks_refl s : shrinks s s.
Proof. repeat split; try reflexivity. apply incl_refl. Qed.

Lemma shrinks_trans s1 s2 s3 : shrinks s1 s2 -> shrinks s2 s3 -> shrinks s1 s3.
Proof. intros (A1 & B1 & C1) (A2 & B2 & C2). repeat split; [congruence|congruence|eapply incl_tran; eassumption]. Qed.

Lemma unlink_sem_shrinks s d n fl s' : unlink_sem s d n fl = EUnit s' -> shrinks s s'.
Proof.
  unfold unlink_sem. intro H.
  repeat (first [discriminate | match type of H with context [match ?x with _ => _ end] => destruct x end]);
    inversion H; subst; repeat split; try reflexivity; unfold del_ent; cbn [FSModel.ents]; apply incl_filter.
Qed.

Lemma rm_inode_shrinks s d n : shrinks s (fst (rm_inode s d n)).
Proof.
  unfold rm_inode.
  destruct (unlink_sem s d n 0) as [|ue|s'|s' o] eqn:E1.
  - destruct (unlink_sem s d n AT_REMOVEDIR) as [|re|s'|s' o] eqn:E2; cbn [fst]; try apply shrinks_refl. exact (unlink_sem_shrinks _ _ _ _ _ E2).
  - destruct (unlink_sem s d n AT_REMOVEDIR) as [|re|s'|s' o] eqn:E2; cbn [fst]; try apply shrinks_refl. exact (unlink_sem_shrinks _ _ _ _ _ E2).
  - cbn [fst]. exact (unlink_sem_shrinks _ _ _ _ _ E1).
  - destruct (unlink_sem s d n AT_REMOVEDIR) as [|re|s''|s'' o'] eqn:E2; cbn [fst]; try apply shrinks_refl. exact (unlink_sem_shrinks _ _ _ _ _ E2).
Qed.

Lemma rm_entries_shrinks rec : (forall s n s' r, rec s n = Some (s', r) -> shrinks s s') ->
  forall g s c buf read seen s' r, rm_entries rec g s c buf read seen = Some (s', r) -> shrinks s s'.
Proof.
  intro Hrec. induction g as [|g IH]; intros s c buf read seen s' r H; cbn [rm_entries] in H; [discriminate|].
  destruct buf as [|n rest].
  - destruct read; [inversion H; subst; apply shrinks_refl|]. eapply IH. exact H.
  - destruct (dot_or_dotdot n); [eapply IH; exact H|].
    destruct (rec s n) as [[s1 r1]|] eqn:Er; [|discriminate]. pose proof (Hrec _ _ _ _ Er) as Hs1.
    destruct (ignore_enoent r1); [|inversion H; subst; exact Hs1].
    eapply shrinks_trans; [exact Hs1|]. eapply IH. exact H.
Qed.

Lemma rm_rounds_shrinks scan fin : (forall s s' r, scan s = Some (s', r) -> shrinks s s') -> (forall s, shrinks s (fst (fin s))) ->
  forall g s s' r, rm_rounds scan fin g s = Some (s', r) -> shrinks s s'.
Proof.
  intros Hscan Hfin. induction g as [|g IH]; intros s s' r H; cbn [rm_rounds] in H; [discriminate|].
  destruct (scan s) as [[s1 [[|]|e]]|] eqn:Es; try discriminate.
  - eapply shrinks_trans; [exact (Hscan _ _ _ Es)|]. eapply IH. exact H.
  - inversion H as [H1]. eapply shrinks_trans; [exact (Hscan _ _ _ Es)|]. pose proof (Hfin s1) as Hf. rewrite H1 in Hf. exact Hf.
  - inversion H; subst. exact (Hscan _ _ _ Es).
Qed.

Theorem rm_all_shrinks : forall fuel s d name s' r, rm_all fuel s d name = Some (s', r) -> shrinks s s'.
Proof.
  induction fuel as [|f IH]; intros s d name s' r H; cbn [rm_all] in H; [discriminate|].
  destruct (has_slash name); [inversion H; subst; apply shrinks_refl|].
  destruct (REMOVE_ALL_REFUSES_DOTS && dot_or_dotdot name); [inversion H; subst; apply shrinks_refl|].
  pose proof (rm_inode_shrinks s d name) as Hi. destruct (rm_inode s d name) as [s1 r1]. cbn [fst] in Hi.
  destruct (ignore_enoent r1); [inversion H; subst; exact Hi|].
  destruct (mk_open s1 d name) as [c|e'].
  - eapply shrinks_trans; [exact Hi|]. eapply rm_rounds_shrinks; [| |exact H].
    + intros s2 s3 r3 Hs. eapply rm_entries_shrinks; [|exact Hs]. intros s4 n s5 r5 Hr. eapply IH. exact Hr.
    + intro s2. cbv beta. pose proof (rm_inode_shrinks s2 d name) as Hi2. destruct (rm_inode s2 d name) as [s3 r3]. cbn [fst] in *. exact Hi2.
  - destruct (N.eqb e' ENOENT); inversion H; subst; exact Hi.
Qed.

(* the tree invariant of the refinement: entries point at objects, names are NUL-free *)
Definition ents_ok (s : fs) : Prop :=
  forall e, In e (ents s) -> (ent_obj e < NPB s)%nat /\ Dyn.plain (ent_name e) = true.

Lemma ents_ok_shrinks s s' : shrinks s s' -> ents_ok s -> ents_ok s'.
Proof. intros (Hk & _ & Hi) H e He. unfold NPB. rewrite Hk. apply H, Hi, He. Qed.

Lemma find_ent_in es d n c : FSModel.find_ent es d n = Some c -> exists n', In (d, n', c) es /\ beq n n' = true.
Proof.
  induction es as [|[[d' n'] c'] es IH]; cbn [FSModel.find_ent]; [discriminate|].
  destruct (Nat.eqb_spec d d') as [->|Hne]; cbn [andb].
  - destruct (beq n n') eqn:Eb.
    + intro H. inversion H; subst. exists n'. split; [left; reflexivity|exact Eb].
    + intro H. destruct (IH H) as (n2 & Hin & Hb). exists n2. split; [right; exact Hin|exact Hb].
  - intro H. destruct (IH H) as (n2 & Hin & Hb). exists n2. split; [right; exact Hin|exact Hb].
Qed.

Lemma lookup_lt s d n c : ents_ok s -> lookup s d n = Some c -> (c < NPB s)%nat.
Proof. intros Hok H. destruct (find_ent_in _ _ _ _ H) as (n' & Hin & _). exact (proj1 (Hok _ Hin)). Qed.

Lemma dir_names_nonul s c : ents_ok s -> Forall (fun n => dot_or_dotdot n = true \/ Dyn.plain n = true) (dir_names s c).
Proof.
  intro Hok. unfold dir_names. apply Forall_forall. intros n Hn. apply in_map_iff in Hn. destruct Hn as (e & <- & He).
  apply filter_In in He. right. exact (proj2 (Hok _ (proj1 He))).
Qed.

Definition seen_ok (t : fdt) (seen : list Z) : Prop := forall x, zmem x seen = true -> indom t x.

Lemma seen_ok_fresh t seen : seen_ok t seen -> zmem (fresh t) seen = false.
Proof. intro H. destruct (zmem (fresh t) seen) eqn:E; [|reflexivity]. exfalso. exact (indom_fresh t (H _ E)). Qed.

Lemma seen_ok_cons t seen n o : seen_ok t seen -> seen_ok ((n, o) :: t) seen.
Proof. intros H x Hx. specialize (H x Hx). unfold indom in *. cbn [tfind]. destruct (Z.eqb n x); [discriminate|exact H]. Qed.

Lemma seen_ok_add t seen n o : seen_ok t seen -> seen_ok ((n, o) :: t) (n :: seen).
Proof.
  intros H x Hx. cbn [zmem] in Hx. unfold indom. cbn [tfind]. destruct (Z.eqb_spec n x) as [E|Hne]; [discriminate|].
  destruct (Z.eqb_spec x n) as [E|_]; [congruence|]. cbn [orb] in Hx. exact (H x Hx).
Qed.

Lemma tdel_fresh_cons t o : tdel ((fresh t, o) :: t) (fresh t) = t.
Proof.
  cbn [tdel filter fst]. rewrite Z.eqb_refl. cbn [negb]. apply tdel_notin.
  destruct (tfind t (fresh t)) eqn:E; [|reflexivity]. exfalso. exact (indom_fresh t ltac:(unfold indom; rewrite E; discriminate)).
Qed.

Section RM.
Variable rp : bytes.
Variable fz : nat.
Hypothesis Hfz : fz <> 0%nat.
Notation drun := (Dyn.drun rp).

(* FrozenFd: error text only, on any state *)
Lemma drun_frozen_any st fd : drun st (frozen fz fd) = DDone st tt.
Proof.
  destruct st as [s t seen]. destruct fz as [|f]; [contradiction|]. cbn [frozen Dyn.drun].
  rewrite (danswer_static rp) by reflexivity. cbn [ds dt dseen seen_after answer sem fst snd thread_self_cands Dyn.drun].
  rewrite (danswer_static rp) by reflexivity. cbn [ds dt dseen seen_after]. unfold answer at 1 2. cbn [sem]. rewrite Z.eqb_refl. cbn [fst snd as_stat].
  destruct (proc_subpath fd); [|reflexivity]. cbn [Dyn.drun].
  rewrite (danswer_static rp) by reflexivity. reflexivity.
Qed.

Lemma drun_fail1_any {A} st fd e : drun st (@fail1 fz A fd e) = DDone st (Err e).
Proof. unfold fail1. rewrite drun_bind, drun_frozen_any. reflexivity. Qed.

Lemma drun_close_any s t seen fd :
  drun {| ds := s; dt := t; dseen := seen |} (close fd) = DDone {| ds := s; dt := tdel t fd; dseen := zrem fd seen |} tt.
Proof. reflexivity. Qed.

(* one unlinkat through the wrapper *)
Lemma drun_w_unlinkat s t seen dirfd d name fl :
  tget t dirfd = Some d -> (d < NPB s)%nat -> has_nul name = false ->
  drun {| ds := s; dt := t; dseen := seen |} (w_unlinkat fz dirfd name fl) =
  match unlink_sem s d name fl with
  | EUnit s' => DDone {| ds := s'; dt := t; dseen := seen |} (Ok tt)
  | EErr e => DDone {| ds := s; dt := t; dseen := seen |} (Err e)
  | _ => DDone {| ds := s; dt := t; dseen := seen |} (Err ENOSYS)
  end.
Proof.
  intros Hd Hlt Hn. unfold w_unlinkat, simple1, rustix_path. rewrite (tget_valid _ _ _ Hd), Hn. cbn [negb Dyn.drun].
  unfold Dyn.danswer. cbn [Dyn.dsem ds dt dseen]. unfold on1. rewrite (tree_obj_get s t dirfd d Hd Hlt).
  destruct (unlink_sem s d name fl) as [|e|s'|s' o] eqn:E; cbn [of_eres ds dt dseen].
  - rewrite reloc_same. cbn [as_unit]. apply drun_fail1_any.
  - rewrite reloc_same. cbn [as_unit]. apply drun_fail1_any.
  - destruct (unlink_sem_kinds _ _ _ _ _ E) as [Hk _]. unfold NPB. rewrite Hk, reloc_same. reflexivity.
  - exfalso. exact (unlink_sem_not_open _ _ _ _ _ _ E).
Qed.

Lemma drun_remove_inode s t seen dirfd d name :
  tget t dirfd = Some d -> (d < NPB s)%nat -> has_nul name = false ->
  drun {| ds := s; dt := t; dseen := seen |} (remove_inode fz dirfd name) =
  DDone {| ds := fst (rm_inode s d name); dt := t; dseen := seen |} (snd (rm_inode s d name)).
Proof.
  intros Hd Hlt Hn. unfold remove_inode, rm_inode. rewrite drun_bind, (drun_w_unlinkat s t seen dirfd d name 0 Hd Hlt Hn).
  destruct (unlink_sem s d name 0) as [|ue|s'|s' o] eqn:E1; cbv iota; try reflexivity.
  - rewrite drun_bind, (drun_w_unlinkat s t seen dirfd d name AT_REMOVEDIR Hd Hlt Hn).
    destruct (unlink_sem s d name AT_REMOVEDIR) as [|re|s'|s' o] eqn:E2; reflexivity.
  - rewrite drun_bind, (drun_w_unlinkat s t seen dirfd d name AT_REMOVEDIR Hd Hlt Hn).
    destruct (unlink_sem s d name AT_REMOVEDIR) as [|re|s'|s' o] eqn:E2; reflexivity.
  - exfalso. exact (unlink_sem_not_open _ _ _ _ _ _ E1).
Qed.

(* ---- one pass over a directory stream ------------------------------------------------- *)

Section ENT.
Variable K : list FSModel.kind.            (* the objects: removal never changes them *)
Variable t : fdt.
Variable dfd : Z.
Variable c : nat.
Hypothesis Hdfd : tget t dfd = Some c.
Hypothesis Hc : (c < length K)%nat.
Hypothesis Hcd : nth c K FSModel.KReg = FSModel.KDir.
Variable rec : bytes -> prog (result unit ekind).
Variable recs : fs -> bytes -> option (fs * result unit ekind).
Hypothesis Hrec : forall s seen n, kinds s = K -> ents_ok s -> seen_ok t seen -> Dyn.plain n = true ->
  drun {| ds := s; dt := t; dseen := seen |} (rec n) =
  match recs s n with None => DNoFuel | Some (s', r) => DDone {| ds := s'; dt := t; dseen := seen |} r end.
Hypothesis Hshr : forall s n s' r, recs s n = Some (s', r) -> shrinks s s'.

Lemma ra_entries_dyn : forall g s seen buf sf,
  kinds s = K -> ents_ok s -> seen_ok t seen -> Forall (fun n => dot_or_dotdot n = true \/ Dyn.plain n = true) buf ->
  drun {| ds := s; dt := t; dseen := seen |} (ra_entries rec g dfd buf sf) =
  match rm_entries recs g s c buf (zmem dfd seen) sf with
  | None => DNoFuel
  | Some (s', r) => DDone {| ds := s'; dt := tdel t dfd; dseen := zrem dfd seen |} r
  end.
Proof.
  induction g as [|g IH]; intros s seen buf sf Hk Hok Hso Hbuf; [reflexivity|].
  cbn [ra_entries rm_entries]. destruct buf as [|n rest].
  - (* read the next batch *)
    cbn [Dyn.drun]. unfold Dyn.danswer. cbn [Dyn.dsem ds dt dseen].
    assert (Hlt : (c < NPB s)%nat) by (unfold NPB; rewrite Hk; exact Hc).
    rewrite (tree_obj_get s t dfd c Hdfd Hlt).
    assert (Hd : is_dir s c = true) by (unfold FSModel.is_dir, FSModel.kind_of; rewrite Hk, Hcd; reflexivity).
    rewrite Hd. cbn [negb]. destruct (zmem dfd seen) eqn:Ez.
    + rewrite reloc_same. cbn [as_dents]. rewrite drun_bind, drun_close_any. reflexivity.
    + rewrite reloc_same. cbn [as_dents].
      rewrite (IH s (dfd :: seen) ([DOT] :: [DOT; DOT] :: dir_names s c) sf Hk Hok).
      * cbn [zmem zrem]. rewrite Z.eqb_refl. cbn [orb]. reflexivity.
      * intros x Hx. cbn [zmem] in Hx. destruct (Z.eqb_spec x dfd) as [E|_]; [rewrite E; exact (tget_indom' _ _ _ Hdfd)|exact (Hso x Hx)].
      * constructor; [left; reflexivity|]. constructor; [left; reflexivity|]. apply dir_names_nonul. exact Hok.
  - pose proof (Forall_inv Hbuf) as Hn. pose proof (Forall_inv_tail Hbuf) as Hrest. cbv beta in Hn.
    destruct (dot_or_dotdot n) eqn:Edd; [apply IH; assumption|].
    destruct Hn as [Hn|Hn]; [discriminate|].
    rewrite drun_bind, (Hrec s seen n Hk Hok Hso Hn).
    destruct (recs s n) as [[s1 r1]|] eqn:Er; [|reflexivity].
    pose proof (Hshr _ _ _ _ Er) as Hs1.
    destruct (ignore_enoent r1) as [u|e].
    + apply IH; [destruct Hs1 as (A & _); congruence|exact (ents_ok_shrinks _ _ Hs1 Hok)|exact Hso|exact Hrest].
    + rewrite drun_bind, drun_close_any. reflexivity.
Qed.

End ENT.

(* ---- the rounds of remove_all over one sub-directory ------------------------------------ *)

Section RND.
Variable K : list FSModel.kind.
Variable t : fdt.
Variable subdir : Z.
Variable c : nat.
Hypothesis Hsub : tget t subdir = Some c.
Hypothesis Hc : (c < length K)%nat.
Hypothesis Hcd : nth c K FSModel.KReg = FSModel.KDir.
Variable scan : Z -> prog (result bool ekind).
Variable scans : fs -> option (fs * result bool ekind).
Variable fin : prog (result unit ekind).
Variable fins : fs -> fs * result unit ekind.
Hypothesis Hscan : forall s seen, kinds s = K -> ents_ok s -> seen_ok t seen ->
  drun {| ds := s; dt := (fresh t, c) :: t; dseen := seen |} (scan (fresh t)) =
  match scans s with None => DNoFuel | Some (s', r) => DDone {| ds := s'; dt := t; dseen := seen |} r end.
Hypothesis Hscan_shr : forall s s' r, scans s = Some (s', r) -> shrinks s s'.
Hypothesis Hfin : forall s seen, kinds s = K -> ents_ok s -> seen_ok t seen ->
  drun {| ds := s; dt := t; dseen := seen |} fin =
  DDone {| ds := fst (fins s); dt := tdel t subdir; dseen := zrem subdir seen |} (snd (fins s)).

Lemma getfl_dir_flags : z2n (Z.of_N GETFL_DIR) = GETFL_DIR.
Proof. reflexivity. Qed.

Lemma sem_open_dot s (tt : fdt) fd mode0 : kinds s = K -> tget tt fd = Some c ->
  sem s rp tt (Openat fd [DOT] (N.lor (N.lor GETFL_DIR O_CLOEXEC) O_LARGEFILE) mode0) = SNew c.
Proof.
  intros Hk Hfd. cbn [sem]. rewrite Hfd.
  set (F := N.lor (N.lor GETFL_DIR O_CLOEXEC) O_LARGEFILE).
  replace (has F O_NOFOLLOW) with true by (vm_compute; reflexivity). cbn [negb]. rewrite andb_false_r.
  replace (opath_nofollow F) with false by (vm_compute; reflexivity). cbn [negb orb].
  unfold ord_open.
  replace (has F O_PATH) with false by (vm_compute; reflexivity).
  replace (has F O_CREAT) with false by (vm_compute; reflexivity).
  replace (intersects F O_ACCMODE) with false by (vm_compute; reflexivity).
  replace (has F O_TRUNC) with false by (vm_compute; reflexivity).
  replace (has F O_NOFOLLOW) with true by (vm_compute; reflexivity).
  cbn [orb negb has_slash has_nul has_byte existsb is_nil].
  change (N.eqb SLASH DOT) with false. change (N.eqb 0 DOT) with false. cbn [orb].
  assert (Hlt : (c < PB s)%nat) by (unfold PB; rewrite Hk; exact Hc).
  destruct (Nat.leb_spec (PB s) c); [lia|].
  unfold sem_open, open1.
  assert (Hd : is_dir s c = true) by (unfold FSModel.is_dir, FSModel.kind_of; rewrite Hk, Hcd; reflexivity).
  rewrite Hd. cbn [negb]. change (is_dot [DOT]) with true. cbv iota.
  unfold FSModel.kind_of. rewrite Hk, Hcd. reflexivity.
Qed.

Lemma ra_rounds_dyn : forall g s seen, kinds s = K -> ents_ok s -> seen_ok t seen ->
  drun {| ds := s; dt := t; dseen := seen |} (ra_rounds scan fin subdir g) =
  match rm_rounds scans fins g s with
  | None => DNoFuel
  | Some (s', r) => DDone {| ds := s'; dt := tdel t subdir; dseen := zrem subdir seen |} r
  end.
Proof.
  induction g as [|g IH]; intros s seen Hk Hok Hso; [reflexivity|].
  cbn [ra_rounds rm_rounds Dyn.drun]. unfold Dyn.danswer at 1. cbn [Dyn.dsem ds dt dseen].
  assert (Hlt : (c < NPB s)%nat) by (unfold NPB; rewrite Hk; exact Hc).
  rewrite (tree_obj_get s t subdir c Hsub Hlt).
  assert (Hd : is_dir s c = true) by (unfold FSModel.is_dir, FSModel.kind_of; rewrite Hk, Hcd; reflexivity).
  rewrite Hd. rewrite reloc_same. cbn [as_num]. rewrite getfl_dir_flags. cbn [Dyn.drun].
  rewrite (danswer_static rp) by (cbn [eff]; vm_compute; reflexivity). cbn [ds dt dseen seen_after].
  unfold answer. rewrite (sem_open_dot s t subdir 0 Hk Hsub). cbn [fst snd].
  pose proof (fresh_ge3 t) as H3. cbn [as_fd]. destruct (Z.leb_spec 0 (fresh t)); [|lia].
  rewrite drun_bind, (Hscan s seen Hk Hok Hso).
  destruct (scans s) as [[s1 [[|]|e]]|] eqn:Es; try reflexivity.
  - pose proof (Hscan_shr _ _ _ Es) as Hs1.
    apply IH; [destruct Hs1 as (A & _); congruence|exact (ents_ok_shrinks _ _ Hs1 Hok)|exact Hso].
  - pose proof (Hscan_shr _ _ _ Es) as Hs1.
    rewrite (Hfin s1 seen); [destruct (fins s1); reflexivity|destruct Hs1 as (A & _); congruence|exact (ents_ok_shrinks _ _ Hs1 Hok)|exact Hso].
Qed.

End RND.

(* ---- dir.rs remove_all(dirfd, name) computes rm_all ----------------------------------------- *)

Lemma remove_open_flags : N.lor (N.lor (N.lor REMOVE_ALL_OPEN_FLAGS OPENAT_NOFOLLOW_FORCED) OPENAT_FORCED) O_LARGEFILE = MKF.
Proof. vm_compute. reflexivity. Qed.

Lemma mk_open_dir s d name c : mk_open s d name = inl c -> is_dir s c = true.
Proof.
  unfold mk_open. destruct (open1 s d name) as [c'|e]; [|discriminate]. destruct (is_dir s c') eqn:E; intro H; inversion H; subst. exact E.
Qed.

Lemma mk_open_lt s d name c : ents_ok s -> (d < NPB s)%nat -> Dyn.plain name = true -> mk_open s d name = inl c -> (c < NPB s)%nat.
Proof.
  intros Hok Hd Hp. destruct (plain_facts _ Hp) as (_ & Hdot & Hdd & _ & _).
  unfold mk_open, open1. destruct (negb (is_dir s d)); [discriminate|]. rewrite Hdot, Hdd.
  destruct (lookup s d name) as [c'|] eqn:El; [|discriminate]. destruct (is_dir s c'); intro H; inversion H; subst.
  exact (lookup_lt _ _ _ _ Hok El).
Qed.

Theorem remove_all_dyn : forall fuel s t seen dirfd d name,
  ents_ok s -> seen_ok t seen -> tget t dirfd = Some d -> (d < NPB s)%nat ->
  has_nul name = false -> is_nil name = false ->
  drun {| ds := s; dt := t; dseen := seen |} (remove_all fz fuel dirfd name) =
  match rm_all fuel s d name with
  | None => DNoFuel
  | Some (s', r) => DDone {| ds := s'; dt := t; dseen := seen |} r
  end.
Proof.
  induction fuel as [|f IH]; intros s t seen dirfd d name Hok Hso Hd Hlt Hnul Hnil; [reflexivity|].
  cbn [remove_all rm_all]. destruct (has_slash name) eqn:Hsl; [reflexivity|].
  destruct (REMOVE_ALL_REFUSES_DOTS && dot_or_dotdot name) eqn:Hdots; [reflexivity|].
  assert (Hplain : Dyn.plain name = true).
  { unfold Dyn.plain. rewrite Hnil, Hsl, Hnul. change REMOVE_ALL_REFUSES_DOTS with true in Hdots. cbn [andb] in Hdots.
    unfold dot_or_dotdot in Hdots. apply orb_false_iff in Hdots. destruct Hdots as [-> ->]. reflexivity. }
  rewrite drun_bind, (drun_remove_inode s t seen dirfd d name Hd Hlt Hnul).
  pose proof (rm_inode_shrinks s d name) as Hs1. destruct (rm_inode s d name) as [s1 r1]. cbn [fst snd] in *.
  destruct (ignore_enoent r1) as [u|e0]; [reflexivity|].
  pose proof (ents_ok_shrinks _ _ Hs1 Hok) as Hok1.
  assert (Hk1 : kinds s1 = kinds s) by (destruct Hs1 as (A & _); exact A).
  assert (Hlt1 : (d < NPB s1)%nat) by (unfold NPB in *; rewrite Hk1; exact Hlt).
  rewrite drun_bind. unfold os, map_err. rewrite drun_bind.
  unfold w_openat, w_openat_follow, rustix_path. rewrite (tget_valid _ _ _ Hd), Hnul. cbn [negb Dyn.drun].
  rewrite remove_open_flags.
  rewrite (danswer_static rp) by (cbn [eff]; vm_compute; reflexivity). cbn [ds dt dseen seen_after].
  unfold answer. rewrite (sem_mk_open rp fz Hfz s1 t dirfd d name _ Hd Hlt1 Hplain).
  destruct (mk_open s1 d name) as [c|e'] eqn:Eo; cbn [fst snd].
  2:{ cbn [as_fd]. rewrite drun_fail1_any. cbn [Dyn.drun]. cbv beta iota.
      unfold errno_is. cbn [kind_errno opt_n_eqb]. destruct (N.eqb e' ENOENT); reflexivity. }
  pose proof (fresh_ge3 t) as H3. cbn [as_fd]. destruct (Z.leb_spec 0 (fresh t)); [|lia]. cbn [Dyn.drun]. cbv beta iota.
  set (sub := fresh t). set (t1 := (sub, c) :: t).
  assert (Hclt : (c < NPB s1)%nat) by exact (mk_open_lt _ _ _ _ Hok1 Hlt1 Hplain Eo).
  assert (Hcdir : nth c (kinds s1) FSModel.KReg = FSModel.KDir).
  { pose proof (mk_open_dir _ _ _ _ Eo) as Hdir. unfold FSModel.is_dir, FSModel.kind_of in Hdir.
    destruct (nth c (kinds s1) FSModel.KReg); try discriminate; reflexivity. }
  assert (Hsub : tget t1 sub = Some c) by apply tget_new.
  assert (Hd1 : tget t1 dirfd = Some d) by (apply tget_new_old; exact Hd).
  assert (Hso1 : seen_ok t1 seen) by (apply seen_ok_cons; exact Hso).
  rewrite (ra_rounds_dyn (kinds s1) t1 sub c Hsub Hclt Hcdir
             (fun dfd => ra_entries (remove_all fz f sub) f dfd [] false)
             (fun s2 => rm_entries (fun s3 n => rm_all f s3 c n) f s2 c [] false false)
             (r <- remove_inode fz dirfd name ;; close sub ;;; Ret (ignore_enoent r))
             (fun s2 => let '(s3, r) := rm_inode s2 d name in (s3, ignore_enoent r))).
  - (* the table and the set of read streams are what they were *)
    unfold t1, sub. rewrite tdel_fresh_cons, (zrem_notin _ _ (seen_ok_fresh _ _ Hso)). reflexivity.
  - (* one scan pass *)
    intros s2 seen2 Hk2 Hok2 Hso2.
    set (dfd := fresh t1). set (t2 := (dfd, c) :: t1).
    assert (Hdfd : tget t2 dfd = Some c) by apply tget_new.
    rewrite (ra_entries_dyn (kinds s1) t2 dfd c Hdfd Hclt Hcdir (remove_all fz f sub) (fun s3 n => rm_all f s3 c n)).
    + unfold t2, dfd. rewrite (seen_ok_fresh _ _ Hso2). rewrite tdel_fresh_cons, (zrem_notin _ _ (seen_ok_fresh _ _ Hso2)). reflexivity.
    + intros s3 seen3 n Hk3 Hok3 Hso3 Hpn. destruct (plain_facts _ Hpn) as (Hnn & _ & _ & _ & Hnu).
      apply IH; [exact Hok3|exact Hso3|unfold t2; apply tget_new_old; exact Hsub|unfold NPB; rewrite Hk3; exact Hclt|exact Hnu|exact Hnn].
    + intros s3 n s4 r4 H4. eapply rm_all_shrinks. exact H4.
    + exact Hk2.
    + exact Hok2.
    + unfold t2. apply seen_ok_cons. exact Hso2.
    + constructor.
  - intros s2 s3 r3 Hs. eapply rm_entries_shrinks; [|exact Hs]. intros s4 n s5 r5 Hr. eapply rm_all_shrinks. exact Hr.
  - (* the final removal of the directory itself *)
    intros s2 seen2 Hk2 Hok2 Hso2.
    assert (Hlt2 : (d < NPB s2)%nat) by (unfold NPB in *; rewrite Hk2, Hk1; exact Hlt).
    rewrite drun_bind, (drun_remove_inode s2 t1 seen2 dirfd d name Hd1 Hlt2 Hnul).
    destruct (rm_inode s2 d name) as [s3 r3]. cbn [fst snd]. rewrite drun_bind, drun_close_any. reflexivity.
  - reflexivity.
  - exact Hok1.
  - exact Hso1.
Qed.

End RM.

(* ---- what rm_all removes: only what lies beneath the named entry, and the entry itself ------- *)

(* [e] is an entry of directory [c], or of a directory reached from [c] by descending through
   entries that are real directories (a link is not a directory: never through a link) *)
Inductive beneath (s : fs) : nat -> ent -> Prop :=
| bn_here c e : In e (ents s) -> ent_dir e = c -> beneath s c e
| bn_deep c n c' e : In (c, n, c') (ents s) -> is_dir s c' = true -> beneath s c' e -> beneath s c e.

(* [e] is the entry (d, name) or lies beneath the directory under that name *)
Definition under (s : fs) (d : nat) (name : bytes) (e : ent) : Prop :=
  (ent_dir e = d /\ beq (ent_name e) name = true) \/
  (exists n' c, In (d, n', c) (ents s) /\ beq name n' = true /\ is_dir s c = true /\ beneath s c e).

Definition only_under (s0 s s' : fs) (d : nat) (name : bytes) : Prop :=
  forall e, In e (ents s) -> ~ In e (ents s') -> under s0 d name e.

Lemma is_dir_shrinks s s' o : shrinks s s' -> is_dir s' o = is_dir s o.
Proof. intros (Hk & _). unfold FSModel.is_dir, FSModel.kind_of. rewrite Hk. reflexivity. Qed.

Lemma beq_sym x y : beq x y = beq y x.
Proof.
  revert y. induction x as [|a x IH]; intros [|c y]; cbn [beq]; try reflexivity. rewrite N.eqb_sym, IH. reflexivity.
Qed.

Lemma unlink_sem_only s0 s d n fl s' : unlink_sem s d n fl = EUnit s' -> only_under s0 s s' d n.
Proof.
  unfold unlink_sem. intros H e He Hne.
  assert (Hdel : s' = del_ent s d n).
  { repeat (first [discriminate | match type of H with context [match ?x with _ => _ end] => destruct x end]); inversion H; reflexivity. }
  subst s'. left. unfold del_ent in Hne. cbn [FSModel.ents] in Hne.
  destruct (ent_at d n e) eqn:Ea.
  - unfold ent_at in Ea. apply andb_true_iff in Ea. destruct Ea as [E1 E2]. apply Nat.eqb_eq in E1. split; assumption.
  - exfalso. apply Hne. apply filter_In. split; [exact He|]. rewrite Ea. reflexivity.
Qed.

Lemma rm_inode_only s0 s d n : only_under s0 s (fst (rm_inode s d n)) d n.
Proof.
  unfold rm_inode.
  destruct (unlink_sem s d n 0) as [|ue|s'|s' o] eqn:E1.
  - destruct (unlink_sem s d n AT_REMOVEDIR) as [|re|s'|s' o] eqn:E2; cbn [fst]; try (intros e He Hne; contradiction). exact (unlink_sem_only _ _ _ _ _ _ E2).
  - destruct (unlink_sem s d n AT_REMOVEDIR) as [|re|s'|s' o] eqn:E2; cbn [fst]; try (intros e He Hne; contradiction). exact (unlink_sem_only _ _ _ _ _ _ E2).
  - cbn [fst]. exact (unlink_sem_only _ _ _ _ _ _ E1).
  - destruct (unlink_sem s d n AT_REMOVEDIR) as [|re|s''|s'' o'] eqn:E2; cbn [fst]; try (intros e He Hne; contradiction). exact (unlink_sem_only _ _ _ _ _ _ E2).
Qed.

(* an entry that disappeared between s and s'' disappeared between s and s' or between s' and s'' *)
Lemma gone_split s s' s'' (e : ent) : In e (ents s) -> ~ In e (ents s'') ->
  (forall x y : ent, {x = y} + {x <> y}) -> ~ In e (ents s') \/ (In e (ents s') /\ ~ In e (ents s'')).
Proof. intros He Hne dec. destruct (in_dec dec e (ents s')) as [Hin|Hnin]; [right; split; assumption|left; exact Hnin]. Qed.

Lemma ent_dec (x y : ent) : {x = y} + {x <> y}.
Proof. repeat decide equality. Qed.

(* everything a scan of directory [c] removes lies beneath [c] *)
Definition only_beneath (s0 s s' : fs) (c : nat) : Prop :=
  forall e, In e (ents s) -> ~ In e (ents s') -> beneath s0 c e.

Lemma under_beneath s0 c n e : (forall e', In e' (ents s0) -> True) ->
  under s0 c n e -> In e (ents s0) -> beneath s0 c e.
Proof.
  intros _ [[Hd _]|(n' & c' & Hin & _ & Hdir & Hb)] He.
  - apply bn_here; assumption.
  - eapply bn_deep; eassumption.
Qed.

Lemma rm_entries_only s0 c rec :
  (forall s n s' r, shrinks s0 s -> rec s n = Some (s', r) -> shrinks s s' /\ only_under s0 s s' c n) ->
  forall g s buf read seen s' r, shrinks s0 s -> rm_entries rec g s c buf read seen = Some (s', r) ->
  only_beneath s0 s s' c.
Proof.
  intro Hrec. induction g as [|g IH]; intros s buf read seen s' r Hsh H; cbn [rm_entries] in H; [discriminate|].
  destruct buf as [|n rest].
  - destruct read; [inversion H; subst; intros e He Hne; contradiction|]. eapply IH; eassumption.
  - destruct (dot_or_dotdot n); [eapply IH; eassumption|].
    destruct (rec s n) as [[s1 r1]|] eqn:Er; [|discriminate].
    destruct (Hrec _ _ _ _ Hsh Er) as [Hs1 Ho1].
    assert (Hb1 : only_beneath s0 s s1 c).
    { intros e He Hne. apply (under_beneath s0 c n e (fun _ _ => I) (Ho1 e He Hne)). destruct Hsh as (_ & _ & Hi). apply Hi, He. }
    destruct (ignore_enoent r1); [|inversion H; subst; exact Hb1].
    pose proof (IH s1 rest read true s' r (shrinks_trans _ _ _ Hsh Hs1) H) as Hb2.
    intros e He Hne. destruct (gone_split s s1 s' e He Hne ent_dec) as [Hg|[Hin Hg]]; [exact (Hb1 e He Hg)|exact (Hb2 e Hin Hg)].
Qed.

Lemma rm_rounds_only s0 d name c scan fin :
  (forall s s' r, shrinks s0 s -> scan s = Some (s', r) -> shrinks s s' /\ only_beneath s0 s s' c) ->
  (forall s, shrinks s0 s -> shrinks s (fst (fin s)) /\ only_under s0 s (fst (fin s)) d name) ->
  (exists n', In (d, n', c) (ents s0) /\ beq name n' = true /\ is_dir s0 c = true) ->
  forall g s s' r, shrinks s0 s -> rm_rounds scan fin g s = Some (s', r) -> only_under s0 s s' d name.
Proof.
  intros Hscan Hfin (n' & Hin0 & Hbn & Hdir0). induction g as [|g IH]; intros s s' r Hsh H; cbn [rm_rounds] in H; [discriminate|].
  assert (Hlift : forall sa sb, only_beneath s0 sa sb c -> only_under s0 sa sb d name).
  { intros sa sb Hb e He Hne. right. exists n', c. repeat split; try assumption. exact (Hb e He Hne). }
  destruct (scan s) as [[s1 [[|]|e0]]|] eqn:Es; try discriminate; destruct (Hscan _ _ _ Hsh Es) as [Hs1 Hb1].
  - pose proof (IH s1 s' r (shrinks_trans _ _ _ Hsh Hs1) H) as Hu2.
    intros e He Hne. destruct (gone_split s s1 s' e He Hne ent_dec) as [Hg|[Hin Hg]]; [exact (Hlift _ _ Hb1 e He Hg)|exact (Hu2 e Hin Hg)].
  - inversion H as [H1]. destruct (Hfin s1 (shrinks_trans _ _ _ Hsh Hs1)) as [_ Hu2]. rewrite H1 in Hu2. cbn [fst] in Hu2.
    intros e He Hne. destruct (gone_split s s1 s' e He Hne ent_dec) as [Hg|[Hin Hg]]; [exact (Hlift _ _ Hb1 e He Hg)|exact (Hu2 e Hin Hg)].
  - inversion H; subst. exact (Hlift _ _ Hb1).
Qed.

Theorem rm_all_only : forall fuel s0 s d name s' r, shrinks s0 s -> rm_all fuel s d name = Some (s', r) ->
  only_under s0 s s' d name.
Proof.
  induction fuel as [|f IH]; intros s0 s d name s' r Hsh H; cbn [rm_all] in H; [discriminate|].
  destruct (has_slash name); [inversion H; subst; intros e He Hne; contradiction|].
  destruct (REMOVE_ALL_REFUSES_DOTS && dot_or_dotdot name) eqn:Hdots; [inversion H; subst; intros e He Hne; contradiction|].
  change REMOVE_ALL_REFUSES_DOTS with true in Hdots. cbn [andb] in Hdots. unfold dot_or_dotdot in Hdots.
  apply orb_false_iff in Hdots. destruct Hdots as [Hdot Hdd].
  pose proof (rm_inode_shrinks s d name) as Hi. pose proof (rm_inode_only s0 s d name) as Ho.
  destruct (rm_inode s d name) as [s1 r1]. cbn [fst] in Hi, Ho.
  destruct (ignore_enoent r1); [inversion H; subst; exact Ho|].
  destruct (mk_open s1 d name) as [c|e'] eqn:Eo.
  2:{ destruct (N.eqb e' ENOENT); inversion H; subst; exact Ho. }
  pose proof (shrinks_trans _ _ _ Hsh Hi) as Hs01.
  (* the directory under that name, as an entry of the initial tree *)
  assert (Hent : exists n', In (d, n', c) (ents s0) /\ beq name n' = true /\ is_dir s0 c = true).
  { pose proof (mk_open_dir _ _ _ _ Eo) as Hdir. unfold mk_open, open1 in Eo.
    destruct (negb (is_dir s1 d)); [discriminate|]. rewrite Hdot, Hdd in Eo.
    destruct (lookup s1 d name) as [c'|] eqn:El; [|discriminate]. destruct (is_dir s1 c'); inversion Eo; subst c'.
    destruct (find_ent_in _ _ _ _ El) as (n' & Hin & Hb). exists n'.
    split; [destruct Hs01 as (_ & _ & Hincl); apply Hincl, Hin|]. split; [exact Hb|].
    rewrite <- (is_dir_shrinks _ _ c Hs01). exact Hdir. }
  assert (Hu2 : only_under s0 s1 s' d name).
  { eapply (rm_rounds_only s0 d name c); [| |exact Hent|exact Hs01|exact H].
    - intros s2 s3 r3 Hs2 Hsc. split.
      + eapply rm_entries_shrinks; [|exact Hsc]. intros s4 n s5 r5 Hr. eapply rm_all_shrinks. exact Hr.
      + eapply (rm_entries_only s0 c); [|exact Hs2|exact Hsc].
        intros s4 n s5 r5 Hs4 Hr. split; [eapply rm_all_shrinks; exact Hr|eapply IH; eassumption].
    - intros s2 Hs2. cbv beta. pose proof (rm_inode_shrinks s2 d name) as Hi2. pose proof (rm_inode_only s0 s2 d name) as Ho2.
      destruct (rm_inode s2 d name) as [s3 r3]. cbn [fst] in *. split; assumption. }
  intros x Hx Hnx. destruct (gone_split s s1 s' x Hx Hnx ent_dec) as [Hg|[Hin Hg]]; [exact (Ho x Hx Hg)|exact (Hu2 x Hin Hg)].
Qed.

(* ---- when remove_all reports success the named entry is gone --------------------------- *)

Lemma lookup_del_ent s d n : lookup (del_ent s d n) d n = None.
Proof.
  unfold FSModel.lookup, del_ent. cbn [FSModel.ents]. induction (ents s) as [|[[d' n'] c] es IH]; cbn [filter FSModel.find_ent]; [reflexivity|].
  unfold ent_at at 1. cbn [ent_dir ent_name fst snd].
  destruct (Nat.eqb_spec d' d) as [->|Hne]; cbn [andb].
  - destruct (beq n' n) eqn:Eb; cbn [negb]; [exact IH|]. cbn [FSModel.find_ent]. rewrite Nat.eqb_refl. cbn [andb].
    rewrite beq_sym, Eb. exact IH.
  - cbn [negb FSModel.find_ent]. destruct (Nat.eqb_spec d d'); [congruence|]. cbn [andb]. exact IH.
Qed.

Lemma unlink_sem_gone s d n fl s' : unlink_sem s d n fl = EUnit s' -> lookup s' d n = None.
Proof.
  unfold unlink_sem. intro H.
  assert (Hdel : s' = del_ent s d n).
  { repeat (first [discriminate | match type of H with context [match ?x with _ => _ end] => destruct x end]); inversion H; reflexivity. }
  subst s'. apply lookup_del_ent.
Qed.

Lemma unlink_sem_enoent s d n fl : Dyn.plain n = true -> unlink_sem s d n fl = EErr ENOENT -> lookup s d n = None.
Proof.
  intros Hp. destruct (plain_facts _ Hp) as (Hnil & Hd & Hdd & Hsl & Hnu).
  unfold unlink_sem. rewrite Hnil, Hsl, Hnu, Hd, Hdd. cbn [orb].
  intro H. repeat (first [discriminate | reflexivity | match type of H with context [match ?x with _ => _ end] => destruct x eqn:? end]).
Qed.

Lemma rm_inode_gone s d n : Dyn.plain n = true -> ignore_enoent (snd (rm_inode s d n)) = Ok tt -> lookup (fst (rm_inode s d n)) d n = None.
Proof.
  intros Hp. unfold rm_inode.
  destruct (unlink_sem s d n 0) as [|ue|s'|s' o] eqn:E1; cbn [fst snd].
  - destruct (unlink_sem s d n AT_REMOVEDIR) as [|re|s'|s' o] eqn:E2; cbn [fst snd ignore_enoent errno_is kind_errno opt_n_eqb].
    + change (N.eqb ENOSYS ENOENT) with false. discriminate.
    + destruct (N.eqb re ENOTDIR) eqn:Er; [change (N.eqb ENOSYS ENOENT) with false; discriminate|].
      destruct (N.eqb_spec re ENOENT) as [->|Hne]; [intros _; exact (unlink_sem_enoent _ _ _ _ Hp E2)|discriminate].
    + intros _. exact (unlink_sem_gone _ _ _ _ _ E2).
    + change (N.eqb ENOSYS ENOENT) with false. discriminate.
  - destruct (unlink_sem s d n AT_REMOVEDIR) as [|re|s'|s' o] eqn:E2; cbn [fst snd ignore_enoent errno_is kind_errno opt_n_eqb].
    + change (N.eqb ENOSYS ENOTDIR) with false. cbv iota. change (N.eqb ENOSYS ENOENT) with false. discriminate.
    + destruct (N.eqb re ENOTDIR) eqn:Er.
      * destruct (N.eqb_spec ue ENOENT) as [->|Hne]; [intros _; exact (unlink_sem_enoent _ _ _ _ Hp E1)|discriminate].
      * destruct (N.eqb_spec re ENOENT) as [->|Hne]; [intros _; exact (unlink_sem_enoent _ _ _ _ Hp E2)|discriminate].
    + intros _. exact (unlink_sem_gone _ _ _ _ _ E2).
    + change (N.eqb ENOSYS ENOTDIR) with false. cbv iota. change (N.eqb ENOSYS ENOENT) with false. discriminate.
  - intros _. exact (unlink_sem_gone _ _ _ _ _ E1).
  - exfalso. exact (unlink_sem_not_open _ _ _ _ _ _ E1).
Qed.

Lemma rm_rounds_ok scan fin : forall g s s' u, rm_rounds scan fin g s = Some (s', Ok u) -> exists s2, fin s2 = (s', Ok u).
Proof.
  induction g as [|g IH]; intros s s' u H; cbn [rm_rounds] in H; [discriminate|].
  destruct (scan s) as [[s1 [[|]|e0]]|]; try discriminate.
  - eapply IH. exact H.
  - exists s1. congruence.
Qed.

Theorem rm_all_gone : forall fuel s d name s', Dyn.plain name = true ->
  rm_all fuel s d name = Some (s', Ok tt) -> lookup s' d name = None.
Proof.
  intros [|f] s d name s' Hp H; cbn [rm_all] in H; [discriminate|].
  destruct (plain_facts _ Hp) as (Hnil & Hd & Hdd & Hsl & Hnu).
  rewrite Hsl in H. unfold dot_or_dotdot in H. rewrite Hd, Hdd in H. rewrite andb_false_r in H.
  pose proof (rm_inode_gone s d name Hp) as Hg. destruct (rm_inode s d name) as [s1 r1]. cbn [fst snd] in Hg.
  destruct (ignore_enoent r1) as [[]|e0] eqn:Ei.
  - inversion H; subst. apply Hg. reflexivity.
  - destruct (mk_open s1 d name) as [c|e'] eqn:Eo.
    + destruct (rm_rounds_ok _ _ _ _ _ _ H) as (s2 & Hfin). cbv beta in Hfin.
      pose proof (rm_inode_gone s2 d name Hp) as Hg2. destruct (rm_inode s2 d name) as [s3 r3]. cbn [fst snd] in Hg2.
      inversion Hfin as [[H1 H2]]. subst s3. apply Hg2. exact H2.
    + destruct (N.eqb_spec e' ENOENT) as [->|Hne]; [|discriminate]. inversion H; subst.
      unfold mk_open, open1 in Eo. destruct (negb (is_dir s' d)); [discriminate|]. rewrite Hd, Hdd in Eo.
      destruct (lookup s' d name) as [c'|]; [|reflexivity]. destruct (is_dir s' c'); discriminate.
Qed.

(* ---- RootRef::remove_all: the parent lookup (either backend), then the above ------------- *)
From PV Require Import StaticEffects DynEffects.

Section ROOT.
Variable s : fs.
Variable rp : bytes.
Variables fz pfuel : nat.
Variable o2 : bool.
Variable gh : phandle.
Variable ps : N.
Variable rs : resolver.
Hypothesis Hfz : fz <> 0%nat.

Theorem root_remove_all_exact rfuel t root path t1 dir name o :
  parent_ok s rp fz pfuel o2 gh ps rs t root path t1 dir name o -> ents_ok s ->
  has_nul name = false -> is_nil name = false ->
  Dyn.drun rp {| ds := s; dt := t; dseen := [] |} (root_remove_all fz o2 pfuel gh ps rfuel rs root path) =
  match rm_all rfuel s o name with
  | None => DNoFuel
  | Some (s', r) => DDone {| ds := s'; dt := tdel t1 dir; dseen := [] |} r
  end.
Proof.
  intros Hp Hok Hnul Hnil. unfold root_remove_all. rewrite (drun_parent s rp fz pfuel o2 gh ps rs _ _ _ _ _ _ _ _ Hp). cbn beta iota.
  destruct Hp as (_ & Hd & Hlt & _).
  rewrite drun_bind.
  rewrite (remove_all_dyn rp fz Hfz rfuel s t1 [] dir o name Hok ltac:(intros x Hx; discriminate) Hd Hlt Hnul Hnil).
  destruct (rm_all rfuel s o name) as [[s' r]|]; [|reflexivity].
  rewrite drun_bind, drun_close_any. reflexivity.
Qed.

End ROOT.
