(* StaticProofs.v -- C01: the program of the emulated resolver, executed on the
   static kernel of theories/Static.v over ANY well-formed tree, returns exactly
   what FSModel.ewalk computes (and hence, by FSProofs.emu_eq_kernel, what the
   kernel's own in-root walk computes).  The '..' / final path checks are a
   parameter [chk]: the theorem holds for every check routine that succeeds
   when the walk is where it believes to be (which is what check_current does
   on a tree nobody modifies; see DESIGN.md 14.2 for how that premise is tied). *)
From PV Require Import Static PathProofs.
From PV Require FSModel FSProofs.
Open Scope N_scope.

Arguments N.lor : simpl never.
Arguments N.land : simpl never.
Arguments N.eqb : simpl never.
Arguments N.leb : simpl never.

(* ---- the descriptor table ------------------------------------------------------------ *)

Lemma fresh_gt t : forall f o, In (f, o) t -> (f < fresh t)%Z.
Proof.
  induction t as [|[f' o'] t IH]; intros f o Hin; [destruct Hin|].
  cbn [fresh fold_right fst]. fold (fresh t). destruct Hin as [E|Hin].
  - inversion E; subst. lia.
  - specialize (IH f o Hin). lia.
Qed.

Lemma fresh_ge3 t : (3 <= fresh t)%Z.
Proof. induction t as [|[f o] t IH]; cbn [fresh fold_right fst]; [lia|]. fold (fresh t). lia. Qed.

Lemma tfind_in t fd o : tfind t fd = Some o -> In (fd, o) t.
Proof.
  induction t as [|[f o'] t IH]; cbn [tfind]; [discriminate|].
  destruct (Z.eqb_spec f fd) as [->|Hne]; intro H.
  - inversion H; subst. left; reflexivity.
  - right. apply IH, H.
Qed.

Lemma tget_pos t fd o : tget t fd = Some o -> (0 <= fd)%Z.
Proof. unfold tget. destruct (Z.ltb_spec fd 0); [discriminate|intros _; assumption]. Qed.

Lemma tget_valid t fd o : tget t fd = Some o -> valid_fd fd = true.
Proof. intro H. apply tget_pos in H. unfold valid_fd. apply orb_true_iff. right. apply Z.leb_le, H. Qed.

Lemma tget_not_cwd t fd o : tget t fd = Some o -> Z.eqb fd AT_FDCWD = false.
Proof. intro H. apply tget_pos in H. apply Z.eqb_neq. unfold AT_FDCWD. lia. Qed.

Lemma tget_fresh_none t : tget t (fresh t) = None.
Proof.
  unfold tget. destruct (Z.ltb (fresh t) 0); [reflexivity|].
  destruct (tfind t (fresh t)) as [o|] eqn:E; [|reflexivity].
  apply tfind_in, fresh_gt in E. lia.
Qed.

Lemma tget_new t o : tget ((fresh t, o) :: t) (fresh t) = Some o.
Proof.
  unfold tget. pose proof (fresh_ge3 t). destruct (Z.ltb_spec (fresh t) 0); [lia|].
  cbn [tfind]. rewrite Z.eqb_refl. reflexivity.
Qed.

Lemma tget_new_old t o fd d : tget t fd = Some d -> tget ((fresh t, o) :: t) fd = Some d.
Proof.
  intro H. assert (Hne : fresh t <> fd) by (intro E; subst; rewrite tget_fresh_none in H; discriminate).
  unfold tget in *. destruct (Z.ltb fd 0); [discriminate|]. cbn [tfind].
  destruct (Z.eqb_spec (fresh t) fd); [contradiction|exact H].
Qed.

Lemma fresh_neq t fd d : tget t fd = Some d -> fresh t <> fd.
Proof. intros H E. subst. rewrite tget_fresh_none in H. discriminate. Qed.

Lemma tfind_del_other t fd fd' : fd' <> fd -> tfind (tdel t fd) fd' = tfind t fd'.
Proof.
  intro Hne. induction t as [|[f o] t IH]; [reflexivity|]. cbn [tdel filter fst].
  destruct (Z.eqb_spec f fd) as [->|Hf]; cbn [negb tfind].
  - destruct (Z.eqb_spec fd fd'); [congruence|]. apply IH.
  - destruct (Z.eqb f fd'); [reflexivity|apply IH].
Qed.

Lemma tget_del_other t fd fd' : fd' <> fd -> tget (tdel t fd) fd' = tget t fd'.
Proof. intro H. unfold tget. rewrite tfind_del_other by exact H. reflexivity. Qed.

(* ---- running programs ---------------------------------------------------------------- *)

Section SP.
Variable s : fs.
Variable fz : nat.
Hypothesis Hfz : fz <> 0%nat.

Notation run := (run s).

Lemma run_bind {A B} (p : prog A) (f : A -> prog B) : forall t,
  run t (bind p f) = match run t p with
                     | Done t' a => run t' (f a)
                     | Panicked x => Panicked x
                     | NoFuel => NoFuel
                     end.
Proof.
  induction p as [a|c k IH| |]; intro t; cbn [bind Static.run]; try reflexivity.
  destruct (answer s t c) as [t' r]. apply IH.
Qed.

Lemma run_frozen t fd : run t (frozen fz fd) = Done t tt.
Proof.
  destruct fz as [|f]; [contradiction|]. cbn [frozen Static.run answer sem thread_self_cands].
  cbn. destruct (proc_subpath fd); reflexivity.
Qed.

Lemma run_fail1 {A} t fd e : run t (@fail1 fz A fd e) = Done t (Err e).
Proof. unfold fail1. rewrite run_bind, run_frozen. reflexivity. Qed.

Lemma walk_flags_ok :
  opath_nofollow (N.lor (N.lor (N.lor OPATH_WALK_FLAGS OPENAT_NOFOLLOW_FORCED) OPENAT_FORCED) O_LARGEFILE) = true.
Proof. vm_compute. reflexivity. Qed.

Lemma run_openat t fd d part :
  tget t fd = Some d -> has_nul part = false -> has_slash part = false ->
  run t (os (w_openat fz fd part OPATH_WALK_FLAGS 0)) =
  match sem_open s d part with
  | inl o => Done ((fresh t, o) :: t) (Ok (fresh t))
  | inr e => Done t (Err (OsError e))
  end.
Proof.
  intros Hfd Hnul Hsl. unfold os, map_err, w_openat, w_openat_follow, rustix_path.
  rewrite (tget_valid _ _ _ Hfd), Hnul. cbn [negb bind Static.run].
  unfold answer. cbn [sem]. rewrite Hfd, walk_flags_ok, Hsl, Hnul. cbn [negb orb].
  destruct (sem_open s d part) as [o|e].
  - cbn [as_fd]. pose proof (fresh_ge3 t) as H3.
    destruct (Z.leb_spec 0 (fresh t)); [|lia]. reflexivity.
  - cbn [as_fd]. rewrite run_bind, run_fail1. reflexivity.
Qed.

Lemma run_fstatat t fd o :
  tget t fd = Some o ->
  run t (os (w_fstatat fz fd [])) =
  Done t (Ok {| st_mode := mode_of (FSModel.kind_of s o); st_uid := 0; st_ino := N.of_nat o; st_dev := 0 |}).
Proof.
  intro Hfd. unfold os, map_err, w_fstatat, simple1, rustix_path.
  rewrite (tget_valid _ _ _ Hfd). cbn [negb has_nul has_byte existsb bind Static.run].
  unfold answer. cbn [sem]. rewrite (tget_not_cwd _ _ _ Hfd), Hfd. reflexivity.
Qed.

Lemma run_readlinkat t fd o body :
  tget t fd = Some o -> FSModel.link_body s o = Some body ->
  N.leb READLINK_BUF (N.of_nat (length body)) = false ->
  run t (os (w_readlinkat fz fd [])) = Done t (Ok body).
Proof.
  intros Hfd Hb Hlen. unfold os, map_err, w_readlinkat, rustix_path.
  rewrite (tget_valid _ _ _ Hfd). cbn [negb has_nul has_byte existsb bind Static.run].
  unfold answer. cbn [sem]. rewrite Hfd, Hb. cbn [is_nil negb as_bytes]. rewrite Hlen. reflexivity.
Qed.

Lemma run_is_magiclink t fd o :
  tget t fd = Some o -> run t (is_magiclink_filesystem fz fd) = Done t (Ok false).
Proof.
  intro Hfd. unfold is_magiclink_filesystem, bindR, os, map_err, w_fstatfs.
  rewrite (tget_valid _ _ _ Hfd). cbn [negb bind Static.run].
  unfold answer. cbn [sem]. rewrite Hfd. reflexivity.
Qed.

Lemma run_close t fd : run t (close fd) = Done (tdel t fd) tt.
Proof. reflexivity. Qed.

Lemma run_may_follow ps t dir link d l :
  tget t dir = Some d -> tget t link = Some l ->
  run t (may_follow_link fz ps dir link) = Done t (Ok tt).
Proof.
  intros Hd Hl. unfold may_follow_link. cbn [Static.run]. unfold answer at 1. cbn [sem].
  unfold bindR. rewrite run_bind, (run_fstatat _ _ _ Hd). rewrite run_bind, (run_fstatat _ _ _ Hl).
  cbn [st_uid as_num z2n Z.to_N]. rewrite (N.eqb_refl 0), orb_true_r. reflexivity.
Qed.

(* ---- Rc reference counts ------------------------------------------------------------- *)

Lemma rc_get_set_same fd n r : rc_get fd (rc_set fd n r) = n.
Proof.
  induction r as [|[f m] r IH]; cbn [rc_set rc_get]; [rewrite Z.eqb_refl; reflexivity|].
  destruct (Z.eqb_spec f fd) as [->|Hne]; cbn [rc_get]; [rewrite Z.eqb_refl; reflexivity|].
  destruct (Z.eqb_spec f fd); [contradiction|exact IH].
Qed.

Lemma rc_get_set_other fd fd' n r : fd' <> fd -> rc_get fd' (rc_set fd n r) = rc_get fd' r.
Proof.
  intro Hne. induction r as [|[f m] r IH]; cbn [rc_set rc_get].
  - destruct (Z.eqb_spec fd fd'); [congruence|reflexivity].
  - destruct (Z.eqb_spec f fd) as [->|Hf]; cbn [rc_get].
    + destruct (Z.eqb_spec fd fd'); [congruence|reflexivity].
    + destruct (Z.eqb f fd'); [reflexivity|exact IH].
Qed.

Lemma run_rc_drop_last t fd r : rc_get fd r = 1%nat -> run t (rc_drop fd r) = Done (tdel t fd) (rc_set fd 0 r).
Proof. intro H. unfold rc_drop. rewrite H. reflexivity. Qed.

Lemma run_rc_drop_more t fd r n : rc_get fd r = S (S n) -> run t (rc_drop fd r) = Done t (rc_set fd (S n) r).
Proof. intro H. unfold rc_drop. rewrite H. reflexivity. Qed.

Lemma run_rc_drop_total t fd r : exists t' r', run t (rc_drop fd r) = Done t' r'.
Proof.
  unfold rc_drop. destruct (rc_get fd r) as [|[|n]]; eexists; eexists; reflexivity.
Qed.

(* ---- the walk state against the table ------------------------------------------------ *)

(* descriptors of the walk state denote the root and the current object; the two
   Rc handles are either the same one (count 2) or two distinct ones (count 1 each) *)
Record InvFd (t : fdt) (root cur : Z) (refs : refs) (o : nat) : Prop := {
  i_root : tget t root = Some ROOT;
  i_cur : tget t cur = Some o;
  i_rc : (cur = root /\ rc_get root refs = 2%nat) \/
         (cur <> root /\ rc_get cur refs = 1%nat /\ rc_get root refs = 1%nat);
}.

Definition mk (root cur : Z) (exp : list bytes) (refs : refs) : wst :=
  {| w_root := root; w_cur := cur; w_exp := exp; w_refs := refs; w_stack := None |}.

(* current = Rc::new(next): next is a new descriptor *)
Lemma run_set_cur_fresh t root cur exp0 refs o nxt o' exp :
  InvFd t root cur refs o -> tget t nxt = Some o' -> nxt <> root -> nxt <> cur ->
  exists t' refs',
    run t (set_cur (mk root cur exp0 refs) nxt true exp None) = Done t' (mk root nxt exp refs') /\
    InvFd t' root nxt refs' o'.
Proof.
  intros [Hr Hc Hrc] Hn Hnr Hnc. unfold set_cur, mk. cbn [w_refs w_cur w_root].
  destruct Hrc as [[-> H2]|(Hne & H1c & H1r)].
  - (* current aliases the root *)
    rewrite run_bind, (run_rc_drop_more t root (rc_set nxt 1 refs) 0)
      by (rewrite rc_get_set_other by congruence; exact H2).
    eexists; eexists; split; [reflexivity|]. split; [exact Hr|exact Hn|]. right.
    split; [exact Hnr|split].
    + rewrite rc_get_set_other by congruence. apply rc_get_set_same.
    + apply rc_get_set_same.
  - rewrite run_bind, (run_rc_drop_last t cur (rc_set nxt 1 refs))
      by (rewrite rc_get_set_other by congruence; exact H1c).
    eexists; eexists; split; [reflexivity|]. split.
    + rewrite tget_del_other by congruence. exact Hr.
    + rewrite tget_del_other by congruence. exact Hn.
    + right. split; [exact Hnr|split].
      * rewrite rc_get_set_other by congruence. apply rc_get_set_same.
      * rewrite !rc_get_set_other by congruence. exact H1r.
Qed.

(* current = Rc::clone(&root) *)
Lemma run_set_cur_root t root cur exp0 refs o exp :
  InvFd t root cur refs o ->
  exists t' refs',
    run t (set_cur (mk root cur exp0 refs) root false exp None) = Done t' (mk root root exp refs') /\
    InvFd t' root root refs' ROOT /\ (forall fd, fd <> cur -> tget t' fd = tget t fd).
Proof.
  intros [Hr Hc Hrc]. unfold set_cur, mk, rc_inc. cbn [w_refs w_cur w_root].
  destruct Hrc as [[-> H2]|(Hne & H1c & H1r)].
  - rewrite H2. rewrite run_bind, (run_rc_drop_more t root (rc_set root 3 refs) 1) by apply rc_get_set_same.
    eexists; eexists; split; [reflexivity|]. split; [|intros; reflexivity]. split; [exact Hr|exact Hr|]. left.
    split; [reflexivity|apply rc_get_set_same].
  - rewrite H1r. rewrite run_bind, (run_rc_drop_last t cur (rc_set root 2 refs))
      by (rewrite rc_get_set_other by congruence; exact H1c).
    eexists; eexists; split; [reflexivity|]. split; [|intros; apply tget_del_other; assumption].
    assert (Hr' : tget (tdel t cur) root = Some ROOT) by (rewrite tget_del_other by congruence; exact Hr).
    split; [exact Hr'|exact Hr'|]. left. split; [reflexivity|].
    rewrite rc_get_set_other by congruence. apply rc_get_set_same.
Qed.

(* ---- results ------------------------------------------------------------------------- *)

Definition err_of (w : wres) : option ekind :=
  match r_out w with
  | Err e => Some e
  | Ok (Partial _ _ e) => Some e
  | Ok (Complete _) => None
  end.

(* the outcome of a run against the answer of the pure walk *)
Definition Res (out : outcome wres) (e : FSModel.wres) : Prop :=
  exists t' w, out = Done t' w /\
    match e with
    | FSModel.WOk o => exists fd, r_out w = Ok (Complete fd) /\ tget t' fd = Some o /\ rc_get fd (r_refs w) = 1%nat
    | FSModel.WErr n => err_of w = Some (OsError n)
    | FSModel.WBudget => err_of w = Some (OsError ELOOP)
    end.

Definition FailsWith (out : outcome wres) (e : ekind) : Prop :=
  exists t' w, out = Done t' w /\ err_of w = Some e.

Lemma run_opt_close t (next : option Z) :
  exists t', run t (match next with Some n => close n | None => Ret tt end) = Done t' tt.
Proof. destruct next; eexists; reflexivity. Qed.

Lemma run_bail t st next e : FailsWith (run t (bail st next e)) e.
Proof.
  unfold bail. rewrite run_bind. destruct (run_opt_close t next) as [t1 ->].
  rewrite run_bind. destruct (run_rc_drop_total t1 (w_cur st) (w_refs st)) as (t2 & r2 & ->).
  rewrite run_bind. destruct (run_rc_drop_total t2 (w_root st) r2) as (t3 & r3 & ->).
  eexists; eexists; split; reflexivity.
Qed.

Lemma run_ret_partial t st next rem e : FailsWith (run t (ret_partial st next rem e)) e.
Proof.
  unfold ret_partial. rewrite run_bind. destruct (run_opt_close t next) as [t1 ->].
  rewrite run_bind. destruct (run_rc_drop_total t1 (w_root st) (w_refs st)) as (t2 & r2 & ->).
  eexists; eexists; split; reflexivity.
Qed.

Lemma fails_res_err out n : FailsWith out (OsError n) -> Res out (FSModel.WErr n).
Proof. intros (t' & w & -> & H). exists t', w. split; [reflexivity|exact H]. Qed.

Lemma fails_res_budget out : FailsWith out (OsError ELOOP) -> Res out FSModel.WBudget.
Proof. intros (t' & w & -> & H). exists t', w. split; [reflexivity|exact H]. Qed.

(* ---- the check routine: any routine that succeeds when the walk is where it believes to be *)

Variable chk : Z -> Z -> list bytes -> prog (result unit ekind).
Hypothesis chk_ok : forall t cur root exp o,
  tget t root = Some ROOT -> tget t cur = Some o -> FSModel.descend s ROOT exp = Some o ->
  run t (chk cur root exp) = Done t (Ok tt).

Lemma run_final_check t root cur exp refs o :
  InvFd t root cur refs o -> FSModel.descend s ROOT exp = Some o ->
  Res (run t (final_check_gen chk (mk root cur exp refs))) (FSModel.WOk o).
Proof.
  intros [Hr Hc Hrc] Hexp. unfold final_check_gen, mk. cbn [w_cur w_root w_exp w_refs w_stack].
  rewrite run_bind, (chk_ok t cur root exp o Hr Hc Hexp).
  destruct Hrc as [[-> H2]|(Hne & H1c & H1r)].
  - rewrite run_bind, (run_rc_drop_more t root refs 0 H2).
    eexists; eexists; split; [reflexivity|]. exists root. cbn [finish r_out r_refs].
    repeat split; [exact Hc|apply rc_get_set_same].
  - rewrite run_bind, (run_rc_drop_last t root refs H1r).
    eexists; eexists; split; [reflexivity|]. exists cur. cbn [finish r_out r_refs].
    repeat split; [rewrite tget_del_other by exact Hne; exact Hc|].
    rewrite rc_get_set_other by exact Hne. exact H1c.
Qed.

End SP.
