(* StaticProofs.v -- C01: the program of the emulated resolver, executed on the
   static kernel of theories/Static.v over ANY well-formed tree, returns exactly
   what FSModel.ewalk computes (and hence, by FSProofs.emu_eq_kernel, what the
   kernel's own in-root walk computes).  The '..' / final path checks are a
   parameter [chk]: the theorem holds for every check routine that succeeds
   when the walk is where it believes to be (which is what check_current does
   on a tree nobody modifies; see DESIGN.md 14.2 for how that premise is tied). *)
From PV Require Import Static PathProofs.
From PV Require FSModel FSProofs.
Open Scope N_scope.

Arguments N.lor : simpl never.
Arguments N.land : simpl never.
Arguments N.eqb : simpl never.
Arguments N.leb : simpl never.

(* ---- the descriptor table ------------------------------------------------------------ *)

Lemma fresh_gt t : forall f o, In (f, o) t -> (f < fresh t)%Z.
Proof.
  induction t as [|[f' o'] t IH]; intros f o Hin; [destruct Hin|].
  cbn [fresh fold_right fst]. fold (fresh t). destruct Hin as [E|Hin].
  - inversion E; subst. lia.
  - specialize (IH f o Hin). lia.
Qed.

Lemma fresh_ge3 t : (3 <= fresh t)%Z.
Proof. induction t as [|[f o] t IH]; cbn [fresh fold_right fst]; [lia|]. fold (fresh t). lia. Qed.

Lemma tfind_in t fd o : tfind t fd = Some o -> In (fd, o) t.
Proof.
  induction t as [|[f o'] t IH]; cbn [tfind]; [discriminate|].
  destruct (Z.eqb_spec f fd) as [->|Hne]; intro H.
  - inversion H; subst. left; reflexivity.
  - right. apply IH, H.
Qed.

Lemma tget_pos t fd o : tget t fd = Some o -> (0 <= fd)%Z.
Proof. unfold tget. destruct (Z.ltb_spec fd 0); [discriminate|intros _; assumption]. Qed.

Lemma tget_valid t fd o : tget t fd = Some o -> valid_fd fd = true.
Proof. intro H. apply tget_pos in H. unfold valid_fd. apply orb_true_iff. right. apply Z.leb_le, H. Qed.

Lemma tget_not_cwd t fd o : tget t fd = Some o -> Z.eqb fd AT_FDCWD = false.
Proof. intro H. apply tget_pos in H. apply Z.eqb_neq. unfold AT_FDCWD. lia. Qed.

Lemma tget_fresh_none t : tget t (fresh t) = None.
Proof.
  unfold tget. destruct (Z.ltb (fresh t) 0); [reflexivity|].
  destruct (tfind t (fresh t)) as [o|] eqn:E; [|reflexivity].
  apply tfind_in, fresh_gt in E. lia.
Qed.

Lemma tget_new t o : tget ((fresh t, o) :: t) (fresh t) = Some o.
Proof.
  unfold tget. pose proof (fresh_ge3 t). destruct (Z.ltb_spec (fresh t) 0); [lia|].
  cbn [tfind]. rewrite Z.eqb_refl. reflexivity.
Qed.

Lemma tget_new_old t o fd d : tget t fd = Some d -> tget ((fresh t, o) :: t) fd = Some d.
Proof.
  intro H. assert (Hne : fresh t <> fd) by (intro E; subst; rewrite tget_fresh_none in H; discriminate).
  unfold tget in *. destruct (Z.ltb fd 0); [discriminate|]. cbn [tfind].
  destruct (Z.eqb_spec (fresh t) fd); [contradiction|exact H].
Qed.

Lemma fresh_neq t fd d : tget t fd = Some d -> fresh t <> fd.
Proof. intros H E. subst. rewrite tget_fresh_none in H. discriminate. Qed.

Lemma tfind_del_other t fd fd' : fd' <> fd -> tfind (tdel t fd) fd' = tfind t fd'.
Proof.
  intro Hne. induction t as [|[f o] t IH]; [reflexivity|]. cbn [tdel filter fst].
  destruct (Z.eqb_spec f fd) as [->|Hf]; cbn [negb tfind].
  - destruct (Z.eqb_spec fd fd'); [congruence|]. apply IH.
  - destruct (Z.eqb f fd'); [reflexivity|apply IH].
Qed.

Lemma tget_del_other t fd fd' : fd' <> fd -> tget (tdel t fd) fd' = tget t fd'.
Proof. intro H. unfold tget. rewrite tfind_del_other by exact H. reflexivity. Qed.

(* ---- the premises of the refinement, as named predicates ----------------------------- *)

(* what the kernel guarantees of every symlink body: no NUL, shorter than the library's buffer *)
Definition links_ok (s : fs) : Prop :=
  forall o body, FSModel.link_body s o = Some body ->
    has_nul body = false /\ N.leb READLINK_BUF (N.of_nat (length body)) = false.

(* descriptors that are not the walk's -- the procfs handle -- stay what they are: a
   frame [F] of (descriptor, procfs object) pairs the walk never touches *)
Definition Frame (s : fs) (F : list (Z * nat)) (t : fdt) : Prop :=
  forall fd p, In (fd, p) F -> tget t fd = Some p /\ (PB s <= p)%nat.

(* the objects of the tree are closed under lookup and parent, and numbered below PB *)
Definition closed (s : fs) : Prop :=
  (0 < PB s)%nat /\
  (forall d n c, FSModel.lookup s d n = Some c -> (c < PB s)%nat) /\
  (forall o, (o < PB s)%nat -> (FSModel.parent_of s o < PB s)%nat).

(* a check routine that succeeds -- leaving the descriptor table as it was -- whenever
   [cur] is open on the object whose path below the root is [exp] *)
Definition chk_static_ok (s : fs) (rp : bytes) (F : list (Z * nat)) (chk : Z -> Z -> list bytes -> prog (result unit ekind)) : Prop :=
  forall t cur root exp o,
    Frame s F t ->
    tget t root = Some ROOT -> tget t cur = Some o -> FSModel.descend s ROOT exp = Some o ->
    run s rp t (chk cur root exp) = Done t (Ok tt).

(* ---- running programs ---------------------------------------------------------------- *)

Section SP.
Variable s : fs.
Variable rp : bytes.        (* the kernel's rendering of the root directory *)
Variable F : list (Z * nat).  (* descriptors outside the walk (the procfs handle) *)
Hypothesis Hclosed : closed s.
Variable fz : nat.
Hypothesis Hfz : fz <> 0%nat.

Notation run := (run s rp).

Lemma frame_new t o : Frame s F t -> Frame s F ((fresh t, o) :: t).
Proof. intros H fd p Hin. destruct (H fd p Hin) as [Hg Hp]. split; [apply tget_new_old, Hg|exact Hp]. Qed.

Lemma frame_del t fd o : Frame s F t -> tget t fd = Some o -> (o < PB s)%nat -> Frame s F (tdel t fd).
Proof.
  intros H Hfd Hlt k p Hin. destruct (H k p Hin) as [Hg Hp]. split; [|exact Hp].
  rewrite tget_del_other; [exact Hg|]. intro E. subst k. rewrite Hfd in Hg. inversion Hg. lia.
Qed.

Lemma run_bind {A B} (p : prog A) (f : A -> prog B) : forall t,
  run t (bind p f) = match run t p with
                     | Done t' a => run t' (f a)
                     | Panicked x => Panicked x
                     | NoFuel => NoFuel
                     end.
Proof.
  induction p as [a|c k IH| |]; intro t; cbn [bind Static.run]; try reflexivity.
  destruct (answer s rp t c) as [t' r]. apply IH.
Qed.

Lemma run_frozen t fd : run t (frozen fz fd) = Done t tt.
Proof.
  destruct fz as [|f]; [contradiction|]. cbn [frozen Static.run answer sem thread_self_cands].
  cbn. destruct (proc_subpath fd); reflexivity.
Qed.

Lemma run_fail1 {A} t fd e : run t (@fail1 fz A fd e) = Done t (Err e).
Proof. unfold fail1. rewrite run_bind, run_frozen. reflexivity. Qed.

Lemma walk_flags_ok :
  opath_nofollow (N.lor (N.lor (N.lor OPATH_WALK_FLAGS OPENAT_NOFOLLOW_FORCED) OPENAT_FORCED) O_LARGEFILE) = true.
Proof. vm_compute. reflexivity. Qed.

Lemma walk_flags_nodir :
  has (N.lor (N.lor (N.lor OPATH_WALK_FLAGS OPENAT_NOFOLLOW_FORCED) OPENAT_FORCED) O_LARGEFILE) O_DIRECTORY = false.
Proof. vm_compute. reflexivity. Qed.

Lemma run_openat t fd d part :
  tget t fd = Some d -> (d < PB s)%nat -> has_nul part = false -> has_slash part = false ->
  run t (os (w_openat fz fd part OPATH_WALK_FLAGS 0)) =
  match sem_open s d part with
  | inl o => Done ((fresh t, o) :: t) (Ok (fresh t))
  | inr e => Done t (Err (OsError e))
  end.
Proof.
  intros Hfd Hlt Hnul Hsl. unfold os, map_err, w_openat, w_openat_follow, rustix_path.
  rewrite (tget_valid _ _ _ Hfd), Hnul. cbn [negb bind Static.run].
  unfold answer. cbn [sem]. rewrite Hfd.
  destruct (Nat.eqb_spec d (P_FDDIR s)) as [E|_]; [unfold P_FDDIR in E; lia|]. cbn [andb].
  rewrite walk_flags_ok, walk_flags_nodir, Hsl, Hnul. cbn [negb orb andb].
  destruct (Nat.leb_spec (PB s) d) as [Hle|_]; [lia|].
  destruct (sem_open s d part) as [o|e].
  - cbn [as_fd]. pose proof (fresh_ge3 t) as H3.
    destruct (Z.leb_spec 0 (fresh t)); [|lia]. reflexivity.
  - cbn [as_fd]. rewrite run_bind, run_fail1. reflexivity.
Qed.

Lemma run_fstatat t fd o :
  tget t fd = Some o -> (o < PB s)%nat ->
  run t (os (w_fstatat fz fd [])) =
  Done t (Ok {| st_mode := mode_of (FSModel.kind_of s o); st_uid := 0; st_ino := N.of_nat o; st_dev := 0 |}).
Proof.
  intros Hfd Hlt. unfold os, map_err, w_fstatat, simple1, rustix_path.
  rewrite (tget_valid _ _ _ Hfd). cbn [negb has_nul has_byte existsb bind Static.run].
  unfold answer. cbn [sem]. rewrite (tget_not_cwd _ _ _ Hfd), Hfd.
  destruct (Nat.leb_spec (PB s) o) as [Hle|_]; [lia|]. reflexivity.
Qed.

Lemma run_readlinkat t fd o body :
  tget t fd = Some o -> FSModel.link_body s o = Some body ->
  N.leb READLINK_BUF (N.of_nat (length body)) = false ->
  run t (os (w_readlinkat fz fd [])) = Done t (Ok body).
Proof.
  intros Hfd Hb Hlen. unfold os, map_err, w_readlinkat, rustix_path.
  rewrite (tget_valid _ _ _ Hfd). cbn [negb has_nul has_byte existsb bind Static.run].
  unfold answer. cbn [sem]. rewrite Hfd, Hb. cbn [is_nil negb as_bytes]. rewrite Hlen. reflexivity.
Qed.

(* objects of the tree are numbered below the procfs objects *)
Lemma link_lt o body : FSModel.link_body s o = Some body -> (o < PB s)%nat.
Proof.
  unfold FSModel.link_body, FSModel.kind_of, PB. intro H.
  destruct (Nat.lt_ge_cases o (length (FSModel.kinds s))) as [Hlt|Hge]; [exact Hlt|].
  rewrite (nth_overflow _ _ Hge) in H. discriminate.
Qed.

Lemma run_is_magiclink t fd o :
  tget t fd = Some o -> (o < PB s)%nat -> run t (is_magiclink_filesystem fz fd) = Done t (Ok false).
Proof.
  intros Hfd Hlt. unfold is_magiclink_filesystem, bindR, os, map_err, w_fstatfs.
  rewrite (tget_valid _ _ _ Hfd). cbn [negb bind Static.run].
  unfold answer. cbn [sem]. rewrite Hfd.
  destruct (Nat.leb_spec (PB s) o) as [Hle|_]; [lia|]. reflexivity.
Qed.

Lemma run_close t fd : run t (close fd) = Done (tdel t fd) tt.
Proof. reflexivity. Qed.

Lemma run_may_follow ps t dir link d l :
  tget t dir = Some d -> tget t link = Some l -> (d < PB s)%nat -> (l < PB s)%nat ->
  run t (may_follow_link fz ps dir link) = Done t (Ok tt).
Proof.
  intros Hd Hl Hdlt Hllt. unfold may_follow_link. cbn [Static.run]. unfold answer at 1. cbn [sem].
  unfold bindR. rewrite run_bind, (run_fstatat _ _ _ Hd Hdlt). rewrite run_bind, (run_fstatat _ _ _ Hl Hllt).
  cbn [st_uid as_num z2n Z.to_N]. rewrite (N.eqb_refl 0), orb_true_r. reflexivity.
Qed.

(* ---- Rc reference counts ------------------------------------------------------------- *)

Lemma rc_get_set_same fd n r : rc_get fd (rc_set fd n r) = n.
Proof.
  induction r as [|[f m] r IH]; cbn [rc_set rc_get]; [rewrite Z.eqb_refl; reflexivity|].
  destruct (Z.eqb_spec f fd) as [->|Hne]; cbn [rc_get]; [rewrite Z.eqb_refl; reflexivity|].
  destruct (Z.eqb_spec f fd); [contradiction|exact IH].
Qed.

Lemma rc_get_set_other fd fd' n r : fd' <> fd -> rc_get fd' (rc_set fd n r) = rc_get fd' r.
Proof.
  intro Hne. induction r as [|[f m] r IH]; cbn [rc_set rc_get].
  - destruct (Z.eqb_spec fd fd'); [congruence|reflexivity].
  - destruct (Z.eqb_spec f fd) as [->|Hf]; cbn [rc_get].
    + destruct (Z.eqb_spec fd fd'); [congruence|reflexivity].
    + destruct (Z.eqb f fd'); [reflexivity|exact IH].
Qed.

Lemma run_rc_drop_last t fd r : rc_get fd r = 1%nat -> run t (rc_drop fd r) = Done (tdel t fd) (rc_set fd 0 r).
Proof. intro H. unfold rc_drop. rewrite H. reflexivity. Qed.

Lemma run_rc_drop_more t fd r n : rc_get fd r = S (S n) -> run t (rc_drop fd r) = Done t (rc_set fd (S n) r).
Proof. intro H. unfold rc_drop. rewrite H. reflexivity. Qed.

Lemma run_rc_drop_total t fd r : exists t' r', run t (rc_drop fd r) = Done t' r'.
Proof.
  unfold rc_drop. destruct (rc_get fd r) as [|[|n]]; eexists; eexists; reflexivity.
Qed.

(* ---- the walk state against the table ------------------------------------------------ *)

(* descriptors of the walk state denote the root and the current object; the two
   Rc handles are either the same one (count 2) or two distinct ones (count 1 each) *)
Record InvFd (t : fdt) (root cur : Z) (refs : refs) (o : nat) : Prop := {
  i_root : tget t root = Some ROOT;
  i_cur : tget t cur = Some o;
  i_rc : (cur = root /\ rc_get root refs = 2%nat) \/
         (cur <> root /\ rc_get cur refs = 1%nat /\ rc_get root refs = 1%nat);
}.

Definition mk (root cur : Z) (exp : list bytes) (refs : refs) : wst :=
  {| w_root := root; w_cur := cur; w_exp := exp; w_refs := refs; w_stack := None |}.

(* current = Rc::new(next): next is a new descriptor *)
Lemma run_set_cur_fresh t root cur exp0 refs o nxt o' exp :
  InvFd t root cur refs o -> tget t nxt = Some o' -> nxt <> root -> nxt <> cur ->
  exists t' refs',
    run t (set_cur (mk root cur exp0 refs) nxt true exp None) = Done t' (mk root nxt exp refs') /\
    InvFd t' root nxt refs' o' /\ (Frame s F t -> (o < PB s)%nat -> Frame s F t').
Proof.
  intros [Hr Hc Hrc] Hn Hnr Hnc. unfold set_cur, mk. cbn [w_refs w_cur w_root].
  destruct Hrc as [[-> H2]|(Hne & H1c & H1r)].
  - (* current aliases the root *)
    rewrite run_bind, (run_rc_drop_more t root (rc_set nxt 1 refs) 0)
      by (rewrite rc_get_set_other by congruence; exact H2).
    eexists; eexists; split; [reflexivity|]. split; [|intros Hf _; exact Hf]. split; [exact Hr|exact Hn|]. right.
    split; [exact Hnr|split].
    + rewrite rc_get_set_other by congruence. apply rc_get_set_same.
    + apply rc_get_set_same.
  - rewrite run_bind, (run_rc_drop_last t cur (rc_set nxt 1 refs))
      by (rewrite rc_get_set_other by congruence; exact H1c).
    eexists; eexists; split; [reflexivity|]. split; [|intros Hf Hlt; exact (frame_del t cur o Hf Hc Hlt)]. split.
    + rewrite tget_del_other by congruence. exact Hr.
    + rewrite tget_del_other by congruence. exact Hn.
    + right. split; [exact Hnr|split].
      * rewrite rc_get_set_other by congruence. apply rc_get_set_same.
      * rewrite !rc_get_set_other by congruence. exact H1r.
Qed.

(* current = Rc::clone(&root) *)
Lemma run_set_cur_root t root cur exp0 refs o exp :
  InvFd t root cur refs o ->
  exists t' refs',
    run t (set_cur (mk root cur exp0 refs) root false exp None) = Done t' (mk root root exp refs') /\
    InvFd t' root root refs' ROOT /\ (forall fd, fd <> cur -> tget t' fd = tget t fd) /\
    (Frame s F t -> (o < PB s)%nat -> Frame s F t').
Proof.
  intros [Hr Hc Hrc]. unfold set_cur, mk, rc_inc. cbn [w_refs w_cur w_root].
  destruct Hrc as [[-> H2]|(Hne & H1c & H1r)].
  - rewrite H2. rewrite run_bind, (run_rc_drop_more t root (rc_set root 3 refs) 1) by apply rc_get_set_same.
    eexists; eexists; split; [reflexivity|]. split; [|split; [intros; reflexivity|intros Hf _; exact Hf]]. split; [exact Hr|exact Hr|]. left.
    split; [reflexivity|apply rc_get_set_same].
  - rewrite H1r. rewrite run_bind, (run_rc_drop_last t cur (rc_set root 2 refs))
      by (rewrite rc_get_set_other by congruence; exact H1c).
    eexists; eexists; split; [reflexivity|]. split; [|split; [intros; apply tget_del_other; assumption|intros Hf Hlt; exact (frame_del t cur o Hf Hc Hlt)]].
    assert (Hr' : tget (tdel t cur) root = Some ROOT) by (rewrite tget_del_other by congruence; exact Hr).
    split; [exact Hr'|exact Hr'|]. left. split; [reflexivity|].
    rewrite rc_get_set_other by congruence. apply rc_get_set_same.
Qed.

(* ---- results ------------------------------------------------------------------------- *)

(* an error outcome: either an error proper, or a partial result that carries the
   error and whose handle is the only reference (Rc::try_unwrap will succeed) *)
Definition fails (w : wres) (e : ekind) : Prop :=
  r_out w = Err e \/
  exists fd rem, r_out w = Ok (Partial fd rem e) /\ rc_get fd (r_refs w) = 1%nat.

(* the outcome of a run against the answer of the pure walk *)
Definition Res (out : outcome wres) (e : FSModel.wres) : Prop :=
  exists t' w, out = Done t' w /\
    match e with
    | FSModel.WOk o => exists fd, r_out w = Ok (Complete fd) /\ tget t' fd = Some o /\ rc_get fd (r_refs w) = 1%nat
    | FSModel.WErr n => fails w (OsError n)
    | FSModel.WBudget => fails w (OsError ELOOP)
    end.

Definition FailsWith (out : outcome wres) (e : ekind) : Prop :=
  exists t' w, out = Done t' w /\ fails w e.

Lemma run_opt_close t (next : option Z) :
  exists t', run t (match next with Some n => close n | None => Ret tt end) = Done t' tt.
Proof. destruct next; eexists; reflexivity. Qed.

Lemma run_bail t st next e : FailsWith (run t (bail st next e)) e.
Proof.
  unfold bail. rewrite run_bind. destruct (run_opt_close t next) as [t1 ->].
  rewrite run_bind. destruct (run_rc_drop_total t1 (w_cur st) (w_refs st)) as (t2 & r2 & ->).
  rewrite run_bind. destruct (run_rc_drop_total t2 (w_root st) r2) as (t3 & r3 & ->).
  eexists; eexists; split; [reflexivity|left; reflexivity].
Qed.

Lemma run_ret_partial t root cur exp refs next rem e :
  ((cur = root /\ rc_get root refs = 2%nat) \/
   (cur <> root /\ rc_get cur refs = 1%nat /\ rc_get root refs = 1%nat)) ->
  FailsWith (run t (ret_partial (mk root cur exp refs) next rem e)) e.
Proof.
  intro Hrc. unfold ret_partial, mk. cbn [w_root w_cur w_refs w_stack].
  rewrite run_bind. destruct (run_opt_close t next) as [t1 ->].
  destruct Hrc as [[-> H2]|(Hne & H1c & H1r)].
  - rewrite run_bind, (run_rc_drop_more t1 root refs 0 H2).
    eexists; eexists; split; [reflexivity|]. right. exists root, rem. cbn [finish r_out r_refs].
    split; [reflexivity|apply rc_get_set_same].
  - rewrite run_bind, (run_rc_drop_last t1 root refs H1r).
    eexists; eexists; split; [reflexivity|]. right. exists cur, rem. cbn [finish r_out r_refs].
    split; [reflexivity|]. rewrite rc_get_set_other by exact Hne. exact H1c.
Qed.

Lemma fails_res_err out n : FailsWith out (OsError n) -> Res out (FSModel.WErr n).
Proof. intros (t' & w & -> & H). exists t', w. split; [reflexivity|exact H]. Qed.

Lemma fails_res_budget out : FailsWith out (OsError ELOOP) -> Res out FSModel.WBudget.
Proof. intros (t' & w & -> & H). exists t', w. split; [reflexivity|exact H]. Qed.

(* ---- the check routine: any routine that succeeds when the walk is where it believes to be *)

Variable chk : Z -> Z -> list bytes -> prog (result unit ekind).
Hypothesis chk_ok : chk_static_ok s rp F chk.

Lemma run_final_check t root cur exp refs o :
  InvFd t root cur refs o -> Frame s F t -> FSModel.descend s ROOT exp = Some o ->
  Res (run t (final_check_gen chk (mk root cur exp refs))) (FSModel.WOk o).
Proof.
  intros [Hr Hc Hrc] Hfr Hexp. unfold final_check_gen, mk. cbn [w_cur w_root w_exp w_refs w_stack].
  rewrite run_bind, (chk_ok t cur root exp o Hfr Hr Hc Hexp).
  destruct Hrc as [[-> H2]|(Hne & H1c & H1r)].
  - rewrite run_bind, (run_rc_drop_more t root refs 0 H2).
    eexists; eexists; split; [reflexivity|]. exists root. cbn [finish r_out r_refs].
    repeat split; [exact Hc|apply rc_get_set_same].
  - rewrite run_bind, (run_rc_drop_last t root refs H1r).
    eexists; eexists; split; [reflexivity|]. exists cur. cbn [finish r_out r_refs].
    repeat split; [rewrite tget_del_other by exact Hne; exact Hc|].
    rewrite rc_get_set_other by exact Hne. exact H1c.
Qed.

(* ---- paths of objects ---------------------------------------------------------------- *)

Variable df : nat -> nat.
Hypothesis Hwf : FSProofs.wf s df.
Hypothesis Hlinks : links_ok s.

Definition path_of (o : nat) (exp : list bytes) : Prop := FSModel.descend s ROOT exp = Some o.
Definition good (c : bytes) : Prop := has_nul c = false /\ has_slash c = false.

Lemma descend_app c a b0 :
  FSModel.descend s c (a ++ b0) = match FSModel.descend s c a with Some d => FSModel.descend s d b0 | None => None end.
Proof.
  revert c. induction a as [|x a IH]; intro c; cbn [app FSModel.descend]; [reflexivity|].
  destruct (FSModel.lookup s c x); [apply IH|reflexivity].
Qed.

Lemma path_snoc o exp n c : path_of o exp -> FSModel.lookup s o n = Some c -> path_of c (exp ++ [n]).
Proof. unfold path_of. intros H L. rewrite descend_app, H. cbn [FSModel.descend]. rewrite L. reflexivity. Qed.

Lemma path_root : path_of ROOT [].
Proof. reflexivity. Qed.

(* the parent of a directory that has a non-empty path *)
Lemma path_parent o exp : path_of o exp -> exp <> [] -> FSModel.is_dir s o = true ->
  path_of (FSModel.parent_of s o) (removelast exp) /\ FSModel.is_dir s (FSModel.parent_of s o) = true.
Proof.
  intros H Hne Hd. destruct (exists_last Hne) as (e & n & ->). rewrite removelast_last.
  unfold path_of in H. rewrite descend_app in H.
  destruct (FSModel.descend s ROOT e) as [d|] eqn:Ed; [|discriminate].
  cbn [FSModel.descend] in H. destruct (FSModel.lookup s d n) as [c|] eqn:El; [|discriminate].
  inversion H; subst c.
  destruct (FSProofs.wf_child_dir s df Hwf d n o El Hd) as [Hp _]. rewrite Hp.
  split; [exact Ed|exact (FSProofs.wf_ents_dir s df Hwf d n o El)].
Qed.

Lemma symlink_mode_of k :
  is_symlink_mode (mode_of k) = match k with FSModel.KLnk _ => true | _ => false end.
Proof. destruct k; reflexivity. Qed.

Lemma link_body_kind o : FSModel.link_body s o = match FSModel.kind_of s o with FSModel.KLnk b0 => Some b0 | _ => None end.
Proof. reflexivity. Qed.

Lemma dir_no_body o : FSModel.is_dir s o = true -> FSModel.link_body s o = None.
Proof. unfold FSModel.is_dir, FSModel.link_body. destruct (FSModel.kind_of s o); try discriminate; reflexivity. Qed.

Lemma good_dot : good [DOT].
Proof. split; reflexivity. Qed.

Lemma raw_components_no_nul p : has_nul p = false -> Forall (fun c => has_nul c = false) (raw_components p).
Proof.
  induction p as [|c r IH]; intro H; cbn [raw_components]; [repeat constructor|].
  unfold has_nul in H. rewrite has_byte_cons in H. apply orb_false_iff in H. destruct H as [Hc Hr].
  specialize (IH Hr). destruct (N.eqb c SLASH); [constructor; [reflexivity|exact IH]|].
  destruct (raw_components r) as [|h t]; [repeat constructor; unfold has_nul; rewrite has_byte_cons, Hc; reflexivity|].
  inversion IH; subst. constructor; [|assumption].
  unfold has_nul. rewrite has_byte_cons, Hc. assumption.
Qed.

Lemma good_components p : has_nul p = false -> Forall good (raw_components p).
Proof.
  intro H. pose proof (raw_components_no_nul p H) as Hn. pose proof (raw_components_no_slash p) as Hs.
  rewrite Forall_forall in *. intros c Hc. split; [apply Hn, Hc|apply Hs, Hc].
Qed.

(* ---- one component ------------------------------------------------------------------- *)

Variable ps : N.
Variables nosym nf : bool.
Notation fin := (final_check_gen chk).

(* the recursive call used after a link body was spliced in, against the pure walk's *)
Definition follow_rel (follow : option (wst -> list bytes -> prog wres))
           (fe : option (nat -> nat -> list bytes -> FSModel.wres)) : Prop :=
  match follow, fe with
  | None, None => True
  | Some g, Some ge =>
      forall t root cur exp refs o comps, InvFd t root cur refs o -> Frame s F t -> (o < PB s)%nat ->
        path_of o exp -> Forall good comps ->
        Res (run t (g (mk root cur exp refs) comps)) (ge o (length exp) comps)
  | _, _ => False
  end.

Lemma walk_open_static follow fe inner einner remaining rest t root cur refs o part expn :
  follow_rel follow fe ->
  (forall t root cur exp refs o, InvFd t root cur refs o -> Frame s F t -> (o < PB s)%nat -> path_of o exp ->
     Res (run t (inner (mk root cur exp refs) rest)) (einner o (length exp) rest)) ->
  InvFd t root cur refs o -> Frame s F t -> (o < PB s)%nat -> good part -> Forall good rest ->
  (forall nxt, sem_open s o part = inl nxt -> path_of nxt expn) ->
  (forall nxt body, sem_open s o part = inl nxt -> FSModel.link_body s nxt = Some body -> path_of o (pop_exp expn)) ->
  Res (run t (walk_open fz ps chk fin nosym nf follow inner remaining rest (mk root cur expn refs) part))
      (match sem_open s o part with
       | inr e => FSModel.WErr e
       | inl d =>
           match FSModel.link_body s d with
           | None => einner d (length expn) rest
           | Some body =>
               if is_nil rest && nf then FSModel.WOk d
               else if nosym then FSModel.WErr FSModel.E_LOOP
               else match fe with
                    | None => FSModel.WBudget
                    | Some ge => if is_abs body then ge ROOT 0%nat (raw_components body ++ rest)
                                 else ge o (length (pop_exp expn)) (raw_components body ++ rest)
                    end
           end
       end).
Proof.
  intros Hfollow Hinner Hinv Hfr Holt [Hnul Hsl] Hrest Hexp Hpop.
  destruct Hclosed as (HPB & Hcl_l & Hcl_p).
  pose proof Hinv as [Hr Hc Hrc]. unfold mk in *.
  unfold walk_open. rewrite Hsl. cbn [w_cur w_root w_exp w_refs w_stack].
  rewrite run_bind, (run_openat t cur o part Hc Holt Hnul Hsl).
  destruct (sem_open s o part) as [d|e] eqn:Eo.
  2:{ apply fails_res_err, (run_ret_partial t root cur expn refs None remaining (OsError e) Hrc). }
  set (nx := fresh t). set (t1 := (nx, d) :: t).
  assert (Hn1 : tget t1 nx = Some d) by apply tget_new.
  assert (Hr1 : tget t1 root = Some ROOT) by (apply tget_new_old; exact Hr).
  assert (Hc1 : tget t1 cur = Some o) by (apply tget_new_old; exact Hc).
  assert (Hnr : nx <> root) by (apply (fresh_neq t root ROOT Hr)).
  assert (Hnc : nx <> cur) by (apply (fresh_neq t cur o Hc)).
  assert (Hinv1 : InvFd t1 root cur refs o) by (split; assumption).
  assert (Hfr1 : Frame s F t1) by (apply frame_new, Hfr).
  assert (Hdlt : (d < PB s)%nat).
  { unfold sem_open, open1 in Eo. destruct (negb (FSModel.is_dir s o)); [discriminate|].
    destruct (is_dot part); [inversion Eo; subst; exact Holt|].
    destruct (is_dotdot part); [inversion Eo; subst; apply Hcl_p, Holt|].
    destruct (FSModel.lookup s o part) as [c|] eqn:El; [|discriminate]. inversion Eo; subst. exact (Hcl_l o part d El). }
  specialize (Hexp d eq_refl).
  (* the check after a '..' step *)
  rewrite run_bind.
  assert (Hchk : run t1 (if is_dotdot part then chk nx root expn else Ret (Ok tt)) = Done t1 (Ok tt)).
  { destruct (is_dotdot part); [apply (chk_ok t1 nx root expn d Hfr1 Hr1 Hn1 Hexp)|reflexivity]. }
  rewrite Hchk. clear Hchk.
  rewrite run_bind, (run_fstatat t1 nx d Hn1 Hdlt). cbn [st_mode].
  rewrite symlink_mode_of. rewrite link_body_kind.
  destruct (FSModel.kind_of s d) as [| |body| | |] eqn:Ek; cbn [negb].
  all: try (
    (* not a link: current = next; continue *)
    unfold stack_pop_part; cbn [w_stack w_refs w_root w_cur w_exp bind];
    destruct (run_set_cur_fresh t1 root cur expn refs o nx d expn Hinv1 Hn1 Hnr Hnc) as (t2 & refs2 & Hrun & Hinv2 & Hfr2);
    rewrite run_bind; unfold mk in Hrun; rewrite Hrun;
    apply (Hinner t2 root nx expn refs2 d Hinv2 (Hfr2 Hfr1 Holt) Hdlt Hexp)).
  (* a link *)
  assert (Hb : FSModel.link_body s d = Some body) by (rewrite link_body_kind, Ek; reflexivity).
  specialize (Hpop d body eq_refl Hb).
  destruct (is_nil rest && nf).
  { (* trailing link, not followed: it is the result *)
    destruct (run_set_cur_fresh t1 root cur expn refs o nx d expn Hinv1 Hn1 Hnr Hnc) as (t2 & refs2 & Hrun & Hinv2 & Hfr2).
    rewrite run_bind. unfold mk in Hrun. rewrite Hrun.
    apply (run_final_check t2 root nx expn refs2 d Hinv2 (Hfr2 Hfr1 Holt) Hexp). }
  destruct nosym.
  { apply fails_res_err, (run_ret_partial t1 root cur expn refs (Some nx) remaining (OsError ELOOP) Hrc). }
  rewrite run_bind.
  assert (Hmf : run t1 (if EMU_PS_ONLY_TRAILING && negb (ps_trailing rest) then Ret (Ok tt) else may_follow_link fz ps cur nx)
                = Done t1 (Ok tt)).
  { destruct (EMU_PS_ONLY_TRAILING && negb (ps_trailing rest)); [reflexivity|apply (run_may_follow ps t1 cur nx o d Hc1 Hn1 Holt Hdlt)]. }
  rewrite Hmf. clear Hmf.
  destruct follow as [g|], fe as [ge|]; try contradiction.
  2:{ apply fails_res_budget, (run_ret_partial t1 root cur expn refs (Some nx) remaining (OsError ELOOP) Hrc). }
  destruct (Hlinks d body Hb) as [Hbnul Hblen].
  rewrite run_bind, (run_readlinkat t1 nx d body Hn1 Hb Hblen).
  assert (Hgood : Forall good (raw_components body ++ rest)) by (apply Forall_app; split; [apply good_components, Hbnul|exact Hrest]).
  rewrite run_bind.
  destruct (is_abs body) eqn:Eabs.
  - rewrite (run_is_magiclink t1 nx d Hn1 (link_lt d body Hb)).
    destruct (run_set_cur_root t1 root cur (pop_exp expn) refs o [] Hinv1) as (t2 & refs2 & Hrun & Hinv2 & Hsame & Hfr2).
    rewrite run_bind. unfold mk in Hrun. rewrite Hrun.
    rewrite run_bind, run_close.
    assert (Hn2 : tget t2 nx = Some d) by (rewrite Hsame by exact Hnc; exact Hn1).
    apply (Hfollow (tdel t2 nx) root root [] refs2 ROOT _); [|exact (frame_del t2 nx d (Hfr2 Hfr1 Holt) Hn2 Hdlt)|exact HPB|exact path_root|exact Hgood].
    destruct Hinv2 as [Hr2 Hc2 Hrc2]. split; [rewrite tget_del_other by congruence; exact Hr2 ..|exact Hrc2].
  - cbn [Static.run bind w_stack w_refs w_root w_cur w_exp]. rewrite run_bind, run_close.
    apply (Hfollow (tdel t1 nx) root cur (pop_exp expn) refs o _); [|exact (frame_del t1 nx d Hfr1 Hn1 Hdlt)|exact Holt|exact Hpop|exact Hgood].
    split; [rewrite tget_del_other by congruence; assumption ..|exact Hrc].
Qed.

(* ---- the component loop -------------------------------------------------------------- *)

Lemma is_dot_eq p : is_dot p = true -> p = [DOT].
Proof. unfold is_dot. apply beq_true_iff. Qed.
Lemma is_dotdot_eq p : is_dotdot p = true -> p = [DOT; DOT].
Proof. unfold is_dotdot. apply beq_true_iff. Qed.

Lemma sem_open_dot o : sem_open s o [DOT] = if FSModel.is_dir s o then inl o else inr ENOTDIR.
Proof. unfold sem_open, open1. destruct (FSModel.is_dir s o); reflexivity. Qed.
Lemma sem_open_dotdot o : sem_open s o [DOT; DOT] = if FSModel.is_dir s o then inl (FSModel.parent_of s o) else inr ENOTDIR.
Proof. unfold sem_open, open1. destruct (FSModel.is_dir s o); reflexivity. Qed.
Lemma sem_open_name o n : is_dot n = false -> is_dotdot n = false ->
  sem_open s o n = if FSModel.is_dir s o
                   then match FSModel.lookup s o n with Some c => inl c | None => inr (FSModel.name_err n) end
                   else inr ENOTDIR.
Proof. intros H1 H2. unfold sem_open, open1. rewrite H1, H2. destruct (FSModel.is_dir s o); reflexivity. Qed.

Lemma walk_body_static follow fe : follow_rel follow fe ->
  forall comps t root cur exp refs o, InvFd t root cur refs o -> Frame s F t -> (o < PB s)%nat ->
    path_of o exp -> Forall good comps ->
    Res (run t (walk_body fz ps chk fin nosym nf follow (mk root cur exp refs) comps))
        (FSModel.ebody s nf nosym fe o (length exp) comps).
Proof.
  intros Hfollow comps. induction comps as [|part0 rest IH]; intros t root cur exp refs o Hinv Hfr Holt Hpath Hgood.
  { cbn [walk_body FSModel.ebody]. apply run_final_check; assumption. }
  destruct Hclosed as (HPB & _ & _).
  inversion Hgood as [|x l Hg0 Hgrest]; subst x l.
  cbn [walk_body FSModel.ebody]. unfold mk. cbn [w_exp w_root w_cur w_refs w_stack].
  fold (mk root cur exp refs).
  assert (Hinner : forall t root cur exp refs o, InvFd t root cur refs o -> Frame s F t -> (o < PB s)%nat -> path_of o exp ->
            Res (run t (walk_body fz ps chk fin nosym nf follow (mk root cur exp refs) rest))
                (FSModel.ebody s nf nosym fe o (length exp) rest)).
  { intros. apply IH; assumption. }
  destruct (is_nil part0) eqn:Enil.
  { (* "" : openat(cur, ".") *)
    cbn [orb].
    pose proof (walk_open_static follow fe _ _ (join_slash (part0 :: rest)) rest t root cur refs o [DOT] exp
                  Hfollow Hinner Hinv Hfr Holt good_dot Hgrest) as H.
    rewrite sem_open_dot in H. destruct (FSModel.is_dir s o) eqn:Ed.
    - rewrite (dir_no_body o Ed) in H. apply H; [intros nxt E; inversion E; subst; exact Hpath|].
      intros nxt body E Hb. inversion E; subst. rewrite (dir_no_body _ Ed) in Hb. discriminate.
    - apply H; intros; discriminate. }
  destruct (is_dot part0) eqn:Edot.
  { cbn [orb]. apply is_dot_eq in Edot. subst part0.
    pose proof (walk_open_static follow fe _ _ (join_slash ([DOT] :: rest)) rest t root cur refs o [DOT] exp
                  Hfollow Hinner Hinv Hfr Holt good_dot Hgrest) as H.
    rewrite sem_open_dot in H. destruct (FSModel.is_dir s o) eqn:Ed.
    - rewrite (dir_no_body o Ed) in H. apply H; [intros nxt E; inversion E; subst; exact Hpath|].
      intros nxt body E Hb. inversion E; subst. rewrite (dir_no_body _ Ed) in Hb. discriminate.
    - apply H; intros; discriminate. }
  cbn [orb].
  destruct (is_dotdot part0) eqn:Edd.
  { apply is_dotdot_eq in Edd. subst part0.
    destruct exp as [|e0 exp'].
    - (* at the root: current = root *)
      cbn [length]. unfold stack_pop_part. cbn [w_stack w_refs w_root w_cur w_exp bind mk].
      destruct (run_set_cur_root t root cur [] refs o [] Hinv) as (t2 & refs2 & Hrun & Hinv2 & _ & Hfr2).
      rewrite run_bind. unfold mk in Hrun. rewrite Hrun. apply (Hinner t2 root root [] refs2 ROOT Hinv2 (Hfr2 Hfr Holt) HPB path_root).
    - set (exp := e0 :: exp') in *.
      assert (Hne : exp <> []) by discriminate.
      pose proof (walk_open_static follow fe _ _ (join_slash ([DOT; DOT] :: rest)) rest t root cur refs o [DOT; DOT] (pop_exp exp)
                    Hfollow Hinner Hinv Hfr Holt (conj eq_refl eq_refl) Hgrest) as H.
      rewrite sem_open_dotdot in H.
      assert (Hlen : length exp = S (length (pop_exp exp))).
      { unfold pop_exp. destruct (exists_last Hne) as (e & n & ->). rewrite removelast_last, app_length. cbn. lia. }
      rewrite Hlen. unfold mk in *. cbn [w_exp w_root w_cur w_refs w_stack].
      destruct (FSModel.is_dir s o) eqn:Ed.
      + destruct (path_parent o exp Hpath Hne Ed) as [Hpp Hpd].
        rewrite (dir_no_body _ Hpd) in H. apply H; [intros nxt E; inversion E; subst; exact Hpp|].
        intros nxt body E Hb. inversion E; subst. rewrite (dir_no_body _ Hpd) in Hb. discriminate.
      + apply H; intros; discriminate. }
  (* an ordinary name *)
  pose proof (walk_open_static follow fe _ _ (join_slash (part0 :: rest)) rest t root cur refs o part0 (exp ++ [part0])
                Hfollow Hinner Hinv Hfr Holt Hg0 Hgrest) as H.
  rewrite (sem_open_name o part0 Edot Edd) in H.
  assert (Hpe : pop_exp (exp ++ [part0]) = exp) by (unfold pop_exp; apply removelast_last).
  rewrite Hpe in H. rewrite app_length in H. cbn [length] in H. rewrite Nat.add_1_r in H.
  unfold mk in *. cbn [w_exp w_root w_cur w_refs w_stack].
  destruct (FSModel.is_dir s o) eqn:Ed; cbn [negb].
  - destruct (FSModel.lookup s o part0) as [c|] eqn:El.
    + apply H; [intros nxt E; inversion E; subst; eapply path_snoc; eassumption|].
      intros; exact Hpath.
    + apply H; intros; discriminate.
  - apply H; intros; discriminate.
Qed.

(* ---- the whole walk ------------------------------------------------------------------ *)

Lemma walk_gen_static bd : forall comps t root cur exp refs o,
  InvFd t root cur refs o -> Frame s F t -> (o < PB s)%nat -> path_of o exp -> Forall good comps ->
  Res (run t (walk_gen fz ps chk fin (S bd) nosym nf (mk root cur exp refs) comps))
      (FSModel.ewalk_q s nf nosym bd o (length exp) comps).
Proof.
  induction bd as [|b IH]; intros comps t root cur exp refs o Hinv Hfr Holt Hp Hg.
  - cbn [walk_gen FSModel.ewalk_q]. apply (walk_body_static None None I); assumption.
  - change (walk_gen fz ps chk fin (S (S b)) nosym nf)
      with (walk_body fz ps chk fin nosym nf (Some (walk_gen fz ps chk fin (S b) nosym nf))).
    cbn [FSModel.ewalk_q]. apply (walk_body_static (Some _) (Some _)); [|assumption ..].
    intros t' r c e rf o' cs Hi Hf' Ho' Hp' Hg'. apply IH; assumption.
Qed.

Lemma max_links_S : N.to_nat MAX_SYMLINK_TRAVERSALS = S FSModel.EMU_LINKS.
Proof. vm_compute. reflexivity. Qed.

(* opath::resolve on the static kernel = FSModel.ewalk *)
Theorem resolve_static t root path :
  Frame s F t -> tget t root = Some ROOT -> has_nul path = false ->
  match FSModel.ewalk s path nf nosym with
  | FSModel.WOk o => exists t' fd, run t (resolve_gen fz ps chk root path nosym nf) = Done t' (Ok fd) /\ tget t' fd = Some o
  | FSModel.WErr n => exists t', run t (resolve_gen fz ps chk root path nosym nf) = Done t' (Err (OsError n))
  | FSModel.WBudget => exists t', run t (resolve_gen fz ps chk root path nosym nf) = Done t' (Err (OsError ELOOP))
  end.
Proof.
  intros Hfr Hroot Hnul. destruct Hclosed as (HPB & _ & _).
  unfold resolve_gen, do_resolve_gen, bindR. rewrite !run_bind.
  (* the dup of the root *)
  assert (Hdup : run t (os (dup_cloexec root)) = Done ((fresh t, ROOT) :: t) (Ok (fresh t))).
  { unfold os, map_err, dup_cloexec. cbn [bind Static.run]. unfold answer. cbn [sem]. rewrite Hroot.
    cbn [as_fd]. pose proof (fresh_ge3 t). destruct (Z.leb_spec 0 (fresh t)); [reflexivity|lia]. }
  rewrite Hdup. set (rd := fresh t). set (t1 := (rd, ROOT) :: t).
  assert (Hinv : InvFd t1 rd rd [(rd, 2%nat)] ROOT).
  { split; [apply tget_new ..|]. left. split; [reflexivity|]. cbn [rc_get]. rewrite Z.eqb_refl. reflexivity. }
  unfold FSModel.ewalk.
  destruct (EMPTY_PATH_IS_ENOENT && is_nil path).
  { (* the empty path *)
    rewrite run_bind.
    destruct (run_ret_partial t1 rd rd [] [(rd, 2%nat)] None [] (OsError ENOENT)) as (t2 & w & Hrun & Hf).
    { left. split; [reflexivity|]. cbn [rc_get]. rewrite Z.eqb_refl. reflexivity. }
    unfold mk in Hrun. rewrite Hrun. cbn [Static.run].
    destruct Hf as [Hf|(fd & rem & Hf & Hrc)]; rewrite Hf.
    - eexists; reflexivity.
    - unfold unwrap_rc. rewrite Hrc. cbn [bind Static.run]. unfold answer. cbn [sem]. eexists; reflexivity. }
  rewrite run_bind, max_links_S.
  pose proof (walk_gen_static FSModel.EMU_LINKS (raw_components path) t1 rd rd [] [(rd, 2%nat)] ROOT Hinv (frame_new t ROOT Hfr) HPB path_root
                (good_components path Hnul)) as (t2 & w & Hrun & Hres).
  unfold mk in Hrun. rewrite Hrun. cbn [Static.run length] in *.
  destruct (FSModel.ewalk_q s nf nosym FSModel.EMU_LINKS ROOT 0 (raw_components path)) as [o|n|].
  - destruct Hres as (fd & Hout & Hfd & Hrc). rewrite Hout. unfold unwrap_rc. rewrite Hrc.
    cbn [bind Static.run]. exists t2, fd. split; [reflexivity|exact Hfd].
  - destruct Hres as [Hf|(fd & rem & Hf & Hrc)]; rewrite Hf.
    + eexists; reflexivity.
    + unfold unwrap_rc. rewrite Hrc. cbn [bind Static.run]. unfold answer. cbn [sem]. eexists; reflexivity.
  - destruct Hres as [Hf|(fd & rem & Hf & Hrc)]; rewrite Hf.
    + eexists; reflexivity.
    + unfold unwrap_rc. rewrite Hrc. cbn [bind Static.run]. unfold answer. cbn [sem]. eexists; reflexivity.
Qed.

End SP.

(* the functions of OpathM are the instance for check_current *)
Lemma resolve_is_gen fz o2 pfuel gh ps root path nosym nf :
  opath_resolve_root fz o2 pfuel gh ps root path nosym nf =
  resolve_gen fz ps (check_current fz o2 pfuel gh) root path nosym nf.
Proof. reflexivity. Qed.

(* ---- single-entry operations: which (parent object, name) they act on ---------------- *)
From PV Require Import RootM ProgTac OpsProofs.

Lemma run_peq {A} s rp (p q : prog A) : peq p q -> forall t, run s rp t p = run s rp t q.
Proof.
  induction 1 as [a|c k k' _ IH|x|]; intro t; cbn [run]; try reflexivity.
  destruct (answer s rp t c) as [t' r]. apply IH.
Qed.

(* RootRef::resolve_parent + name on the emulated backend, on a static tree: the
   descriptor the *at call will be made on is open on exactly the object the pure
   walk of the prefix ends on; the name is path_split's last component *)
Theorem parent_and_name_static s rp F fz o2 pfuel gh ps df rs t root path dirp name :
  closed s -> fz <> 0%nat -> chk_static_ok s rp F (check_current fz o2 pfuel gh) -> FSProofs.wf s df -> links_ok s ->
  rs_kernel rs = false ->
  path_split path = Some (Ok (dirp, Some name)) -> has_nul dirp = false ->
  Frame s F t -> tget t root = Some ROOT ->
  match FSModel.ewalk s dirp false (has (rs_flags rs) RESOLVE_NO_SYMLINKS) with
  | FSModel.WOk o => exists t' fd, run s rp t (parent_and_name fz o2 pfuel gh ps rs root path) = Done t' (Ok (fd, name)) /\ tget t' fd = Some o
  | FSModel.WErr n => exists t', run s rp t (parent_and_name fz o2 pfuel gh ps rs root path) = Done t' (Err (OsError n))
  | FSModel.WBudget => exists t', run s rp t (parent_and_name fz o2 pfuel gh ps rs root path) = Done t' (Err (OsError ELOOP))
  end.
Proof.
  intros Hcl Hfz Hchk Hwf Hl Hk Hsplit Hnul Hfr Hroot.
  pose proof (parent_and_name_shape fz o2 pfuel gh ps rs root path) as Hshape. rewrite Hsplit in Hshape.
  destruct Hshape as (Hpeq & _ & _).
  rewrite (run_peq s rp _ _ Hpeq t). unfold bindR. rewrite (run_bind s rp).
  unfold r_resolve. rewrite Hk, resolve_is_gen.
  pose proof (resolve_static s rp F Hcl fz Hfz _ Hchk df Hwf Hl ps (has (rs_flags rs) RESOLVE_NO_SYMLINKS) false t root dirp Hfr Hroot Hnul) as H.
  destruct (FSModel.ewalk s dirp false (has (rs_flags rs) RESOLVE_NO_SYMLINKS)) as [o|n|].
  - destruct H as (t' & fd & -> & Hfd). exists t', fd. split; [reflexivity|exact Hfd].
  - destruct H as (t' & ->). exists t'. reflexivity.
  - destruct H as (t' & ->). exists t'. reflexivity.
Qed.

(* ---- check_current on the static kernel ------------------------------------------------
   The premise [chk_static_ok] reduced to the kernel's d_path contract: if the routine
   [g] that reads the kernel's rendering of a descriptor (as_unsafe_path) returns, for a
   descriptor open on the object with path [exp] below the root, an absolute path whose
   components are the root directory's components followed by [exp], then check_current
   built on [g] is a check routine as the refinement theorem needs it. *)
From PV Require Import CheckProofs.

Definition names_ok (s : fs) : Prop := forall d n c, FSModel.lookup s d n = Some c -> name_ok n.

Definition getpath_ok (s : fs) (rp : bytes) (F : list (Z * nat)) (rootcomps : list bytes) (g : Z -> prog (result bytes ekind)) : Prop :=
  forall t fd o exp, Frame s F t -> tget t fd = Some o -> FSModel.descend s ROOT exp = Some o ->
    exists p, run s rp t (g fd) = Done t (Ok p) /\ is_abs p = true /\ nf p = rootcomps ++ exp.

Lemma descend_names s : names_ok s -> forall exp c o, FSModel.descend s c exp = Some o -> Forall name_ok exp.
Proof.
  intros Hn exp. induction exp as [|n exp IH]; intros c o H; [constructor|].
  cbn [FSModel.descend] in H. destruct (FSModel.lookup s c n) as [d|] eqn:El; [|discriminate].
  constructor; [exact (Hn c n d El)|exact (IH d o H)].
Qed.

Lemma list_beq_refl x : list_beq x x = true.
Proof. induction x as [|a x IH]; [reflexivity|]. cbn [list_beq]. rewrite beq_refl, IH. reflexivity. Qed.

Lemma is_abs_push_all cs : forall acc, is_abs acc = true -> is_abs (push_all acc cs) = true.
Proof.
  induction cs as [|c t IH]; intros acc H; cbn [push_all]; [exact H|]. apply IH.
  destruct acc as [|x acc]; [discriminate|]. cbn [rev].
  destruct (rev acc ++ [x]) as [|y l] eqn:E; [apply app_eq_nil in E; destruct E; discriminate|].
  destruct (N.eqb y SLASH); cbn [app is_abs]; exact H.
Qed.

Lemma path_eq_of_nf p q : is_abs p = true -> is_abs q = true -> nf p = nf q -> path_eq p q = true.
Proof.
  intros Hp Hq Hn. unfold path_eq, path_norm. rewrite Hp, Hq. cbn [negb andb Bool.eqb].
  change (filter (fun c => negb (is_nil c || is_dot c)) (raw_components p)) with (nf p).
  change (filter (fun c => negb (is_nil c || is_dot c)) (raw_components q)) with (nf q).
  rewrite Hn. apply list_beq_refl.
Qed.

Theorem check_current_static s rp F rootcomps g :
  names_ok s -> getpath_ok s rp F rootcomps g -> chk_static_ok s rp F (check_current_gen g).
Proof.
  intros Hnames Hg t cur root exp o Hfr Hroot Hcur Hexp.
  unfold check_current_gen, bindR.
  destruct (Hg t root ROOT [] Hfr Hroot eq_refl) as (p1 & Hrun1 & Habs1 & Hnf1). rewrite app_nil_r in Hnf1.
  destruct (Hg t cur o exp Hfr Hcur Hexp) as (p2 & Hrun2 & Habs2 & Hnf2).
  rewrite run_bind, Hrun1. rewrite run_bind, Hrun2.
  assert (E : path_eq p2 (push_all p1 ([DOT] :: exp)) = true).
  { apply path_eq_of_nf; [exact Habs2|apply is_abs_push_all, Habs1|].
    rewrite nf_push_all, Hnf1, Hnf2. cbn [map concat]. change (nf [DOT]) with (@nil bytes). cbn [app].
    rewrite (concat_nf_names exp (descend_names s Hnames exp ROOT o Hexp)). reflexivity. }
  rewrite E. cbn [negb]. rewrite run_bind, Hrun1.
  rewrite (path_eq_of_nf p1 p1 Habs1 Habs1 eq_refl). reflexivity.
Qed.
