(* DynMkdirAll.v -- C12 end to end on the dynamic kernel, kernel (openat2) backend:
   RootRef::mkdir_all = the partial lookup (a pure function of the tree: the first ancestor of
   the path that the kernel's in-root walk resolves, [kpartial]) followed by the creation loop
   (the pure function [mk_spec], DynMkdir.v).  With DynMkdir.mk_spec_post: the resulting tree
   is the old one plus new directories only, every component exists afterwards, the handle is
   open on the directory at the end of the chain; when the call fails what was created lies on
   the chain. *)
From PV Require Import Dyn BitsProofs PathProofs StaticProofs ProgTac StaticBal FaultProofs EffectProofs BeneathProofs
                       StaticBackends StaticReopen DynProofs DynMkdir.
From PV Require DynEffects.
From PV Require FSModel FSProofs.
From Coq Require Import Lia.
Open Scope N_scope.

(* ---- ancestors of a NUL-free path are NUL-free ------------------------------------------ *)

Lemma has_nul_firstn p n : has_nul p = false -> has_nul (firstn n p) = false.
Proof.
  revert n. induction p as [|a p IH]; intros [|n] H; cbn [firstn]; try reflexivity.
  unfold has_nul, has_byte in *. cbn [existsb] in *. apply orb_false_iff in H. destruct H as [H1 H2].
  rewrite H1. cbn [orb]. apply IH. exact H2.
Qed.

Lemma has_nul_skipn p n : has_nul p = false -> has_nul (skipn n p) = false.
Proof.
  revert n. induction p as [|a p IH]; intros [|n] H; cbn [skipn]; try assumption; try reflexivity.
  apply IH. unfold has_nul, has_byte in *. cbn [existsb] in H. apply orb_false_iff in H. apply H.
Qed.

Lemma has_nul_tl p : has_nul p = false -> has_nul (tl p) = false.
Proof. destruct p as [|a p]; intro H; [reflexivity|]. unfold has_nul, has_byte in *. cbn [existsb tl] in *. apply orb_false_iff in H. apply H. Qed.

Lemma anc_iter_no_nul inner : has_nul inner = false -> forall fuel limit a r,
  In (a, r) (anc_iter fuel inner limit) -> has_nul a = false /\ (forall x, r = Some x -> has_nul x = false).
Proof.
  intro Hn. induction fuel as [|f IH]; intros limit a r Hin; cbn [anc_iter] in Hin; [destruct Hin|].
  destruct (rindex_slash _) as [idx|].
  - destruct Hin as [E|Hin].
    + inversion E; subst. split.
      * destruct (is_nil (firstn idx inner)); [reflexivity|apply has_nul_firstn; exact Hn].
      * intros x Hx. destruct (beq (skipn idx inner) [SLASH]); [discriminate|]. inversion Hx; subst.
        apply has_nul_tl, has_nul_skipn. exact Hn.
    + destruct (anc_end _); [destruct Hin|]. eapply IH. exact Hin.
  - destruct Hin as [E|[]]. inversion E; subst. split; [reflexivity|].
    intros x Hx. destruct (is_nil inner); [discriminate|]. inversion Hx; subst. exact Hn.
Qed.

Lemma partial_ancestors_no_nul p a r : has_nul p = false -> In (a, r) (partial_ancestors p) ->
  has_nul a = false /\ (forall x, r = Some x -> has_nul x = false).
Proof. intros Hn Hin. eapply anc_iter_no_nul; eassumption. Qed.

(* ---- the partial lookup of the kernel backend as a pure function of the tree ----------- *)

Definition kw (s : fs) (p : bytes) (nosym : bool) : nat + N :=
  match FSModel.kwalk s p false nosym with
  | FSModel.WOk o => inl o
  | FSModel.WErr e => inr e
  | FSModel.WBudget => inr ELOOP
  end.

Inductive kpart := KComplete (o : nat) | KPartial (o : nat) (rem : bytes) (last : N) | KFail (e : N).

Fixpoint kpartial_go (s : fs) (nosym : bool) (anc : list (bytes * option bytes)) (last : N) : kpart :=
  match anc with
  | [] => KFail last
  | (p, rem) :: rest =>
      match kw s p nosym with
      | inl o => KPartial o (match rem with Some x => x | None => [] end) last
      | inr e => kpartial_go s nosym rest e
      end
  end.

Definition kpartial (s : fs) (path : bytes) (nosym : bool) : kpart :=
  match kw s path nosym with
  | inl o => KComplete o
  | inr e0 => kpartial_go s nosym (partial_ancestors path) e0
  end.

Section KP.
Variable s : fs.
Variable rp : bytes.
Variable fz : nat.
Hypothesis Hfz : fz <> 0%nat.
Hypothesis Hcl : closed s.
Notation run := (run s rp).

Lemma run_k_resolve_kw t root p rflags :
  tget t root = Some ROOT -> has_nul p = false ->
  run t (k_resolve fz true root p rflags false) =
  match kw s p (has (N.lor OPENAT2_RESOLVE_RESOLVE rflags) RESOLVE_NO_SYMLINKS) with
  | inl o => Done ((fresh t, o) :: t) (Ok (fresh t))
  | inr e => Done t (Err (OsError e))
  end.
Proof.
  intros Hr Hn. pose proof (run_k_resolve s rp fz Hfz Hcl t root p rflags false Hr Hn) as H.
  unfold kw. destruct (FSModel.kwalk s p false _); exact H.
Qed.

(* the errnos of a walk are never the one of a safety violation *)
Lemma walk_not_safety p nosym e : kw s p nosym = inr e -> is_safety_violation (OsError e) = false.
Proof.
  unfold kw. destruct (FSModel.kwalk s p false nosym) as [o|n|] eqn:E; intro H; inversion H; subst.
  - destruct (kwalk_errno s p false nosym e E) as [ -> | [ -> | [ -> | -> ] ] ]; reflexivity.
  - reflexivity.
Qed.

Lemma run_kpartial_go t root rflags (nosym := has (N.lor OPENAT2_RESOLVE_RESOLVE rflags) RESOLVE_NO_SYMLINKS) :
  tget t root = Some ROOT -> forall anc last,
  (forall a r, In (a, r) anc -> has_nul a = false) -> is_safety_violation (OsError last) = false ->
  run t ((fix go (anc : list (bytes * option bytes)) (last : ekind) : prog (result OpathM.lookup ekind) :=
            match anc with
            | [] => if PARTIAL_UNREACHABLE_PANICS then Panic PANIC_PARTIAL_UNREACHABLE else Ret (Err last)
            | (p, rem) :: rest =>
                if is_safety_violation last then Ret (Err last) else
                r <- k_resolve fz true root p rflags false ;;
                match r with
                | Ok fd => Ret (Ok (Partial fd (match rem with Some x => x | None => [] end) last))
                | Err e => go rest e
                end
            end) anc (OsError last)) =
  match kpartial_go s nosym anc last with
  | KPartial o rem l => Done ((fresh t, o) :: t) (Ok (Partial (fresh t) rem (OsError l)))
  | KFail e => Done t (Err (OsError e))
  | KComplete _ => NoFuel
  end.
Proof.
  intros Hr. induction anc as [|[p rem] rest IH]; intros last Hn Hs.
  - reflexivity.
  - cbn [kpartial_go]. rewrite Hs. rewrite (run_bind s rp).
    rewrite (run_k_resolve_kw t root p rflags Hr (Hn p rem (or_introl eq_refl))). fold nosym.
    destruct (kw s p nosym) as [o|e] eqn:Ek; [reflexivity|].
    apply IH; [intros a r Hin; eapply Hn; right; exact Hin|eapply walk_not_safety; exact Ek].
Qed.

Lemma kpartial_go_not_complete nosym : forall anc last o, kpartial_go s nosym anc last <> KComplete o.
Proof.
  induction anc as [|[p r] rest IH]; intros last o; cbn [kpartial_go]; [discriminate|].
  destruct (kw s p nosym); [discriminate|apply IH].
Qed.

Theorem run_k_resolve_partial t root path rflags (nosym := has (N.lor OPENAT2_RESOLVE_RESOLVE rflags) RESOLVE_NO_SYMLINKS) :
  tget t root = Some ROOT -> has_nul path = false ->
  run t (k_resolve_partial fz true root path rflags false) =
  match kpartial s path nosym with
  | KComplete o => Done ((fresh t, o) :: t) (Ok (Complete (fresh t)))
  | KPartial o rem l => Done ((fresh t, o) :: t) (Ok (Partial (fresh t) rem (OsError l)))
  | KFail e => Done t (Err (OsError e))
  end.
Proof.
  intros Hr Hn. unfold k_resolve_partial, kpartial. rewrite (run_bind s rp).
  rewrite (run_k_resolve_kw t root path rflags Hr Hn). fold nosym.
  destruct (kw s path nosym) as [o|e0] eqn:Ek; [reflexivity|].
  rewrite (run_kpartial_go t root rflags Hr (partial_ancestors path) e0).
  - fold nosym. destruct (kpartial_go s nosym (partial_ancestors path) e0) eqn:Eg; try reflexivity.
    exfalso. exact (kpartial_go_not_complete _ _ _ _ Eg).
  - intros a r Hin. exact (proj1 (partial_ancestors_no_nul path a r Hn Hin)).
  - eapply walk_not_safety. exact Ek.
Qed.

(* what a partial answer means: the first ancestor that resolves, with what is left of the path *)
Lemma kpartial_go_in nosym : forall anc last o rem l, kpartial_go s nosym anc last = KPartial o rem l ->
  exists a r, In (a, r) anc /\ kw s a nosym = inl o /\ rem = match r with Some x => x | None => [] end.
Proof.
  induction anc as [|[p r] rest IH]; intros last o rem l H; cbn [kpartial_go] in H; [discriminate|].
  destruct (kw s p nosym) as [o'|e] eqn:Ek.
  - inversion H; subst. exists p, r. split; [left; reflexivity|split; [exact Ek|reflexivity]].
  - destruct (IH _ _ _ _ H) as (a & r' & Hin & Hk & Hr). exists a, r'. split; [right; exact Hin|split; assumption].
Qed.

End KP.

(* ---- components of a NUL-free path ------------------------------------------------------ *)

Lemma raw_components_no_nul p : has_nul p = false -> Forall (fun c => has_nul c = false) (raw_components p).
Proof.
  induction p as [|c r IH]; intro H; cbn [raw_components].
  - constructor; [reflexivity|constructor].
  - unfold has_nul, has_byte in H. cbn [existsb] in H. apply orb_false_iff in H. destruct H as [Hc Hr].
    specialize (IH Hr). destruct (N.eqb c SLASH).
    + constructor; [reflexivity|exact IH].
    + destruct (raw_components r) as [|h t].
      * constructor; [|constructor]. unfold has_nul, has_byte. cbn [existsb]. rewrite Hc. reflexivity.
      * inversion IH as [|? ? Hh Ht]; subst. constructor; [|exact Ht].
        unfold has_nul, has_byte in *. cbn [existsb]. rewrite Hc. exact Hh.
Qed.

Definition parts_of (remaining : option bytes) : list bytes :=
  filter (fun p => negb (noop_part p)) (match remaining with Some rm => raw_components rm | None => [] end).

Lemma parts_plain remaining :
  (forall x, remaining = Some x -> has_nul x = false) -> existsb is_dotdot (parts_of remaining) = false ->
  Forall (fun p => Dyn.plain p = true) (parts_of remaining).
Proof.
  intros Hn Hdd. unfold parts_of in *. destruct remaining as [rm|]; [|constructor].
  pose proof (raw_components_no_slash rm) as Hs. pose proof (raw_components_no_nul rm (Hn rm eq_refl)) as Hnul.
  induction (raw_components rm) as [|c cs IH]; cbn [filter] in *; [constructor|].
  inversion Hs as [|? ? Hs1 Hs2]; subst. inversion Hnul as [|? ? Hn1 Hn2]; subst.
  destruct (noop_part c) eqn:Enp; cbn [negb] in *; [apply IH; assumption|].
  cbn [existsb] in Hdd. apply orb_false_iff in Hdd. destruct Hdd as [Hd1 Hd2].
  constructor; [|apply IH; assumption].
  unfold Dyn.plain, noop_part in *. apply orb_false_iff in Enp. destruct Enp as [E1 E2].
  rewrite E1, E2, Hd1, Hs1, Hn1. reflexivity.
Qed.

(* ---- RootRef::mkdir_all, kernel backend, end to end -------------------------------------- *)

Section ALL.
Variable s : fs.
Variable rp : bytes.
Variables fz pfuel : nat.
Variable gh : phandle.
Variable ps : N.
Variable rs : resolver.
Hypothesis Hfz : fz <> 0%nat.
Hypothesis Hc2 : closed2 s.
Hypothesis Hmnt : ph_mnt gh = Some PROC_MNT.
Hypothesis Ho2 : ph_openat2 gh = true.
Hypothesis Hk : rs_kernel rs = true.
Notation drun := (Dyn.drun rp).
Notation nosym := (has (N.lor OPENAT2_RESOLVE_RESOLVE (rs_flags rs)) RESOLVE_NO_SYMLINKS).

Lemma reopen_dir_flags_ok : (intersects (without MKDIR_ALL_REOPEN_FLAGS REOPEN_REMOVED) OPEN_FOLLOW_REFUSED
                             || has_nz (without MKDIR_ALL_REOPEN_FLAGS REOPEN_REMOVED) OPEN_FOLLOW_REFUSED_CONTAINS) = false.
Proof. vm_compute. reflexivity. Qed.

(* from a table in which [h] is open on the directory [o]: the re-open, then the loop *)
Lemma after_partial t1 h o remaining exp mode :
  tget t1 (ph_fd gh) = Some (PB s) -> tget t1 h = Some o -> (o < PB s)%nat ->
  is_dir s o = true -> find_path s o = Some exp -> N.leb READLINK_BUF (N.of_nat (length (render rp exp))) = false ->
  existsb is_dotdot (parts_of remaining) = false -> (forall x, remaining = Some x -> has_nul x = false) ->
  exists t',
    match snd (mk_spec s o (parts_of remaining)) with
    | inl c => exists fd,
        drun {| ds := s; dt := t1; dseen := [] |}
          (r <- h_reopen fz true (S pfuel) gh h MKDIR_ALL_REOPEN_FLAGS ;;
           match r with
           | Err e => frozen fz h ;;; close h ;;; Ret (Err e)
           | Ok current0 =>
               close h ;;;
               let parts := filter (fun p => negb (noop_part p)) (match remaining with Some rm => raw_components rm | None => [] end) in
               if existsb is_dotdot parts then close current0 ;;; Ret (Err (OsError ENOENT)) else mk_parts fz mode parts current0
           end) =
          DDone {| ds := fst (mk_spec s o (parts_of remaining)); dt := t'; dseen := [] |} (Ok fd) /\ tget t' fd = Some c /\
        (forall x, indom t' x -> x = fd \/ (indom t1 x /\ x <> h))
    | inr e =>
        drun {| ds := s; dt := t1; dseen := [] |}
          (r <- h_reopen fz true (S pfuel) gh h MKDIR_ALL_REOPEN_FLAGS ;;
           match r with
           | Err e => frozen fz h ;;; close h ;;; Ret (Err e)
           | Ok current0 =>
               close h ;;;
               let parts := filter (fun p => negb (noop_part p)) (match remaining with Some rm => raw_components rm | None => [] end) in
               if existsb is_dotdot parts then close current0 ;;; Ret (Err (OsError ENOENT)) else mk_parts fz mode parts current0
           end) =
          DDone {| ds := fst (mk_spec s o (parts_of remaining)); dt := t'; dseen := [] |} (Err (OsError e)) /\
        (forall x, indom t' x -> indom t1 x /\ x <> h)
    end.
Proof.
  intros Hproc Hh Holt Hdir Hpath Hshort Hdd Hnulr.
  assert (Hlb : FSModel.link_body s o = None).
  { unfold FSModel.link_body, FSModel.is_dir in *. destruct (FSModel.kind_of s o); try discriminate; reflexivity. }
  assert (Hod : obj_is_dir s o = true).
  { unfold obj_is_dir. destruct (Nat.leb_spec (PB s) o); [lia|exact Hdir]. }
  destruct (run_reopen_strong s rp fz Hfz gh Hmnt Ho2 pfuel t1 h o exp MKDIR_ALL_REOPEN_FLAGS Hproc Hh Holt Hlb Hpath Hshort
              reopen_dir_flags_ok ltac:(rewrite Hod; apply andb_false_r)) as (nfd & Hrun & Hfresh & Hpos).
  assert (Hne : nfd <> h).
  { intro E. subst nfd. unfold tget in Hh. destruct (Z.ltb h 0); [discriminate|]. rewrite Hfresh in Hh. discriminate. }
  set (t2 := tdel ((nfd, o) :: t1) h).
  assert (Hcur : tget t2 nfd = Some o).
  { unfold t2. rewrite tget_del_other by exact Hne. unfold tget.
    destruct (Z.ltb_spec nfd 0); [lia|]. cbn [tfind]. rewrite Z.eqb_refl. reflexivity. }
  destruct (mk_parts_dyn rp fz Hfz mode (parts_of remaining) s t2 nfd o Hc2 Hcur Holt (parts_plain remaining Hnulr Hdd))
    as (t' & Hfr & Hres).
  exists t'.
  assert (Hpre : forall (K : result Z ekind -> prog (result Z ekind)), drun {| ds := s; dt := t1; dseen := [] |}
            (r <- h_reopen fz true (S pfuel) gh h MKDIR_ALL_REOPEN_FLAGS ;; K r) =
            drun {| ds := s; dt := (nfd, o) :: t1; dseen := [] |} (K (Ok nfd))).
  { intro K. rewrite drun_bind. unfold h_reopen.
    rewrite (drun_static rp _ (reopen_ne fz true (S pfuel) gh h MKDIR_ALL_REOPEN_FLAGS) s t1 _ _ Hrun). reflexivity. }
  assert (Hdom2 : forall x, indom t2 x -> x <> nfd -> indom t1 x /\ x <> h).
  { intros x Hx Hxn. unfold t2 in Hx. apply indom_del in Hx. destruct Hx as [Hx Hxh]. apply indom_cons in Hx.
    destruct Hx as [->|Hx]; [contradiction|]. split; assumption. }
  destruct (snd (mk_spec s o (parts_of remaining))) as [c|e].
  - destruct Hres as (fd & Hrun2 & Hfd & _ & Hdom & _). exists fd. split; [|split; [exact Hfd|]].
    + rewrite Hpre. cbv beta iota. rewrite drun_bind, drun_close. fold t2.
      change (filter (fun p => negb (noop_part p)) (match remaining with Some rm => raw_components rm | None => [] end)) with (parts_of remaining).
      cbv zeta. rewrite Hdd. exact Hrun2.
    + intros x Hx. destruct (Hdom x Hx) as [->|[Hin Hxn]]; [left; reflexivity|right; apply Hdom2; assumption].
  - destruct Hres as (Hrun2 & Hdom). split.
    + rewrite Hpre. cbv beta iota. rewrite drun_bind, drun_close. fold t2.
      change (filter (fun p => negb (noop_part p)) (match remaining with Some rm => raw_components rm | None => [] end)) with (parts_of remaining).
      cbv zeta. rewrite Hdd. exact Hrun2.
    + intros x Hx. destruct (Hdom x Hx) as [Hin Hxn]. apply Hdom2; assumption.
Qed.


Lemma kw_lt p o : closed s -> kw s p nosym = inl o -> (o < PB s)%nat.
Proof.
  intros Hcl H. unfold kw in H. destruct (FSModel.kwalk s p false nosym) as [o'|e|] eqn:E; inversion H; subst.
  exact (DynEffects.kwalk_lt s p false nosym o Hcl E).
Qed.

Theorem mkdir_all_kernel t root path mode o remaining exp :
  tget t root = Some ROOT -> tget t (ph_fd gh) = Some (PB s) -> has_nul path = false ->
  N.ldiff mode MKDIR_ALL_MASK1 = 0 -> N.ldiff mode MKDIR_ALL_MASK2 = 0 ->
  (* the partial lookup: the whole path resolves, or its first resolving ancestor with ENOENT for the next longer one *)
  ((kpartial s path nosym = KComplete o /\ remaining = None) \/
   (exists rm, kpartial s path nosym = KPartial o rm ENOENT /\ remaining = Some rm)) ->
  (* that object is a directory whose rendering fits the readlink buffer (the premises of C09's reopen theorem) *)
  is_dir s o = true -> find_path s o = Some exp -> N.leb READLINK_BUF (N.of_nat (length (render rp exp))) = false ->
  existsb is_dotdot (parts_of remaining) = false ->
  exists t',
    match snd (mk_spec s o (parts_of remaining)) with
    | inl c => exists fd,
        drun {| ds := s; dt := t; dseen := [] |} (root_mkdir_all fz true (S pfuel) gh ps rs root path mode) =
          DDone {| ds := fst (mk_spec s o (parts_of remaining)); dt := t'; dseen := [] |} (Ok fd) /\ tget t' fd = Some c /\
        (forall x, indom t' x -> x = fd \/ indom t x)
    | inr e =>
        drun {| ds := s; dt := t; dseen := [] |} (root_mkdir_all fz true (S pfuel) gh ps rs root path mode) =
          DDone {| ds := fst (mk_spec s o (parts_of remaining)); dt := t'; dseen := [] |} (Err (OsError e)) /\
        (forall x, indom t' x -> indom t x)
    end.
Proof.
  intros Hroot Hproc Hnul Hm1 Hm2 Hpart Hdir Hpath Hshort Hdd.
  pose proof (proj1 Hc2) as Hcl.
  (* what the partial lookup returns, and that the rest of the path is NUL-free *)
  assert (Hlook : run s rp t (k_resolve_partial fz true root path (rs_flags rs) false) =
                  Done ((fresh t, o) :: t) (Ok (match remaining with None => Complete (fresh t) | Some rm => Partial (fresh t) rm (OsError ENOENT) end))
                  /\ (o < PB s)%nat /\ (forall x, remaining = Some x -> has_nul x = false)).
  { rewrite (run_k_resolve_partial s rp fz Hfz Hcl t root path (rs_flags rs) Hroot Hnul).
    destruct Hpart as [[Hp ->]|(rm & Hp & ->)]; rewrite Hp.
    - split; [reflexivity|]. split; [|intros x E; discriminate].
      unfold kpartial in Hp. destruct (kw s path nosym) as [o'|e] eqn:E; [inversion Hp; subst; exact (kw_lt _ _ Hcl E)|].
      exfalso. exact (kpartial_go_not_complete s _ _ _ _ Hp).
    - split; [reflexivity|].
      unfold kpartial in Hp. destruct (kw s path nosym) as [o'|e] eqn:E; [discriminate|].
      destruct (kpartial_go_in s _ _ _ _ _ _ Hp) as (a & r & Hin & Hk' & Hr).
      split; [exact (kw_lt _ _ Hcl Hk')|]. intros x Ex. inversion Ex; subst x. rewrite Hr.
      destruct r as [x|]; [|reflexivity]. exact (proj2 (partial_ancestors_no_nul path a (Some x) Hnul Hin) x eq_refl). }
  destruct Hlook as (Hlook & Holt & Hnulr).
  set (t1 := (fresh t, o) :: t) in *.
  assert (Hh : tget t1 (fresh t) = Some o) by apply tget_new.
  assert (Hproc1 : tget t1 (ph_fd gh) = Some (PB s)) by (apply tget_new_old; exact Hproc).
  destruct (after_partial t1 (fresh t) o remaining exp mode Hproc1 Hh Holt Hdir Hpath Hshort Hdd Hnulr) as (t' & Hres).
  exists t'.
  assert (Hpre : drun {| ds := s; dt := t; dseen := [] |} (root_mkdir_all fz true (S pfuel) gh ps rs root path mode) =
                 drun {| ds := s; dt := t1; dseen := [] |}
                   (r <- h_reopen fz true (S pfuel) gh (fresh t) MKDIR_ALL_REOPEN_FLAGS ;;
                    match r with
                    | Err e => frozen fz (fresh t) ;;; close (fresh t) ;;; Ret (Err e)
                    | Ok current0 =>
                        close (fresh t) ;;;
                        let parts := filter (fun p => negb (noop_part p)) (match remaining with Some rm => raw_components rm | None => [] end) in
                        if existsb is_dotdot parts then close current0 ;;; Ret (Err (OsError ENOENT)) else mk_parts fz mode parts current0
                    end)).
  { rewrite (root_mkdir_all_loop fz true (S pfuel) gh ps rs root path mode). rewrite Hm1, Hm2.
    change (negb (N.eqb 0 0)) with false. cbv iota.
    unfold bindR at 1. rewrite drun_bind. unfold r_resolve_partial. rewrite Hk.
    rewrite (drun_static rp _ (k_resolve_partial_ne fz true root path (rs_flags rs) false) s t _ _ Hlook). cbv iota.
    destruct remaining as [rm|]; cbv iota; [change (N.eqb ENOENT ENOENT) with true; cbv iota|]; rewrite drun_bind; reflexivity. }
  assert (Hd : forall x, indom t1 x /\ x <> fresh t -> indom t x).
  { intros x [Hx Hne]. unfold t1 in Hx. apply indom_cons in Hx. destruct Hx as [->|Hx]; [contradiction|exact Hx]. }
  destruct (snd (mk_spec s o (parts_of remaining))) as [c|e].
  - destruct Hres as (fd & Hrun & Hfd & Hdom). exists fd. split; [rewrite Hpre; exact Hrun|]. split; [exact Hfd|].
    intros x Hx. destruct (Hdom x Hx) as [->|H]; [left; reflexivity|right; apply Hd; exact H].
  - destruct Hres as (Hrun & Hdom). split; [rewrite Hpre; exact Hrun|]. intros x Hx. apply Hd, Hdom, Hx.
Qed.

End ALL.
