(* StaticReopen.v -- C09: Handle::reopen on the static kernel returns a new descriptor
   open on the SAME object, and leaves every other descriptor as it was (openat2
   available to the procfs handle). *)
From PV Require Import Static PathProofs StaticProofs CheckProofs ProcfsProps StaticProcfs StaticProcfsEmu BitsProofs DisciplineProofs.
From PV Require FSModel FSProofs.
Open Scope N_scope.

Arguments N.lor : simpl never.
Arguments N.land : simpl never.
Arguments N.eqb : simpl never.
Arguments N.leb : simpl never.

(* ---- the sub-path "fd/<N>" under the path helpers ------------------------------------- *)

Lemma rindex_slash_from_noslash d : has_slash d = false -> forall i acc, rindex_slash_from i d acc = acc.
Proof.
  induction d as [|c r IH]; intros H i acc; [reflexivity|]. cbn [rindex_slash_from].
  rewrite has_slash_cons in H. apply orb_false_iff in H as [Hc Hr]. rewrite N.eqb_sym in Hc. rewrite Hc. apply IH, Hr.
Qed.

Lemma rindex_nonslash_from_noslash d : has_slash d = false -> d <> [] ->
  forall i acc, rindex_nonslash_from i d acc = Some (i + length d - 1)%nat.
Proof.
  induction d as [|c r IH]; intros H Hne i acc; [contradiction|]. cbn [rindex_nonslash_from length].
  rewrite has_slash_cons in H. apply orb_false_iff in H as [Hc Hr]. rewrite N.eqb_sym in Hc. rewrite Hc.
  destruct r as [|c' r'].
  - cbn [rindex_nonslash_from length]. f_equal. lia.
  - rewrite (IH Hr ltac:(discriminate)). f_equal. cbn [length]. lia.
Qed.

Lemma strip_fd d : has_slash d = false -> d <> [] ->
  path_strip_trailing_slash (b "fd/" ++ d) = (b "fd/" ++ d, false).
Proof.
  intros H Hne. change (b "fd/" ++ d) with (102 :: 100 :: 47 :: d).
  unfold path_strip_trailing_slash, rindex_nonslash. cbn [rindex_nonslash_from N.eqb].
  change (N.eqb 102 SLASH) with false. change (N.eqb 100 SLASH) with false. change (N.eqb 47 SLASH) with true. cbv iota.
  rewrite (rindex_nonslash_from_noslash d H Hne). cbn [length].
  replace (3 + length d - 1)%nat with (S (S (S (length d))) - 1)%nat by lia. rewrite Nat.eqb_refl. reflexivity.
Qed.

Lemma split_fd d : has_slash d = false -> d <> [] ->
  path_split (b "fd/" ++ d) = Some (Ok (b "fd", Some d)).
Proof.
  intros H Hne. change (b "fd/" ++ d) with (102 :: 100 :: 47 :: d).
  unfold path_split, partial_ancestors. cbn [anc_iter length].
  unfold rindex_slash. cbn [rindex_slash_from].
  change (N.eqb 102 SLASH) with false. change (N.eqb 100 SLASH) with false. change (N.eqb 47 SLASH) with true. cbv iota.
  rewrite (rindex_slash_from_noslash d H). cbn [firstn skipn is_nil tl].
  destruct d as [|c r]; [contradiction|]. cbn [beq]. 
  destruct (N.eqb 47 SLASH && match c :: r with [] => true | _ => false end) eqn:E; [cbn in E; discriminate|].
  cbn [is_nil]. rewrite H. reflexivity.
Qed.

Lemma dec_ne n : dec n <> [].
Proof. destruct (dec_shape n) as (d & D & -> & _). discriminate. Qed.

(* the flag word the follow-open is made with never has O_NOFOLLOW (reopen strips it) *)
Lemma reopen_flags_follow flags :
  has (N.lor (N.lor (without flags REOPEN_REMOVED) OPENAT_FORCED) O_LARGEFILE) O_NOFOLLOW = false.
Proof.
  apply not_true_is_false. intro H. rewrite has_spec in H.
  specialize (H 17 eq_refl). rewrite !N.lor_spec in H. unfold without in H. rewrite N.ldiff_spec in H.
  change (N.testbit REOPEN_REMOVED 17) with true in H. change (N.testbit OPENAT_FORCED 17) with false in H.
  change (N.testbit O_LARGEFILE 17) with false in H. rewrite andb_false_r in H. discriminate.
Qed.

Lemma tget_new_old_gen t k v fd o : tget t fd = Some o -> tfind t k = None -> tget ((k, v) :: t) fd = Some o.
Proof.
  intros H Hk. unfold tget in *. destruct (Z.ltb fd 0); [discriminate|]. cbn [tfind].
  destruct (Z.eqb_spec k fd) as [->|_]; [rewrite Hk in H; discriminate|exact H].
Qed.

Lemma tget_cons_same t k v : (0 <= k)%Z -> tget ((k, v) :: t) k = Some v.
Proof. intro H. unfold tget. destruct (Z.ltb_spec k 0); [lia|]. cbn [tfind]. rewrite Z.eqb_refl. reflexivity. Qed.

Section RO.
Variable s : fs.
Variable rp : bytes.
Variable fz : nat.
Hypothesis Hfz : fz <> 0%nat.
Variable gh : phandle.
Hypothesis Hmnt : ph_mnt gh = Some PROC_MNT.
Hypothesis Ho2 : ph_openat2 gh = true.

Notation run := (run s rp).

Lemma run_open_base t :
  tget t (ph_fd gh) = Some (PB s) ->
  run t (open_base fz true gh ProcThreadSelf) = Done ((fresh t, P_THREAD s) :: t) (Ok (fresh t)).
Proof.
  intro HP. unfold open_base, bindR. rewrite (run_bind s rp).
  assert (Hinto : run t (into_path fz (ph_fd gh) ProcThreadSelf) = Done t (b "thread-self")).
  { unfold into_path. cbn [Static.run]. unfold answer at 1. cbn [sem as_num thread_self_cands].
    rewrite (run_bind s rp). unfold w_fstatat, simple1, rustix_path. rewrite (tget_valid _ _ _ HP).
    change (has_nul (b "thread-self")) with false. cbn [negb Static.run]. unfold answer. cbn [sem].
    rewrite (tget_not_cwd _ _ _ HP), HP. change (is_nil (b "thread-self")) with false.
    rewrite Nat.eqb_refl. change (beq (b "thread-self") (b "thread-self")) with true. cbn [andb as_stat Static.run].
    reflexivity. }
  rewrite Hinto. rewrite (run_bind s rp). unfold presolve. rewrite Ho2.
  change (procfs_flags_invalid OPEN_BASE_FLAGS) with false. cbv iota.
  rewrite (run_openat2_resolve s rp fz Hfz t (ph_fd gh) (b "thread-self") (P_THREAD s) _ _ (tget_valid _ _ _ HP) eq_refl).
  2:{ intros fl m r. cbn [sem]. rewrite HP. destruct (Nat.ltb_spec (PB s) (PB s)) as [Hb|_]; [lia|]. rewrite Nat.eqb_refl. reflexivity. }
  rewrite (run_bind s rp), (run_verify s rp fz Hfz gh Hmnt _ (fresh t) (P_THREAD s) (tget_new t _)) by (unfold P_THREAD; lia).
  reflexivity.
Qed.

(* ProcfsHandle::open(ProcThreadSelf, "fd", O_PATH|O_DIRECTORY): the thread's fd directory *)
Lemma run_popen_fddir pf t :
  tget t (ph_fd gh) = Some (PB s) ->
  run t (popen fz true (S pf) gh ProcThreadSelf (b "fd") OPEN_FOLLOW_PARENT_FLAGS) =
  Done ((fresh ((fresh t, P_THREAD s) :: t), P_FDDIR s) :: t) (Ok (fresh ((fresh t, P_THREAD s) :: t))).
Proof.
  intro HP. cbn [popen]. unfold bindR. rewrite (run_bind s rp), (run_open_base t HP). cbv iota.
  set (f1 := fresh t). set (t1 := (f1, P_THREAD s) :: t).
  assert (Hf1 : tget t1 f1 = Some (P_THREAD s)) by apply tget_new.
  rewrite (run_bind s rp). unfold presolve. rewrite Ho2.
  change (procfs_flags_invalid (N.lor OPEN_FOLLOW_PARENT_FLAGS PROCFS_OPEN_FORCED)) with false. cbv iota.
  rewrite (run_openat2_resolve s rp fz Hfz t1 f1 (b "fd") (P_FDDIR s) _ _ (tget_valid _ _ _ Hf1) eq_refl).
  2:{ intros fl m r. cbn [sem]. rewrite Hf1.
      destruct (Nat.ltb_spec (P_THREAD s) (PB s)) as [Hb|_]; [unfold P_THREAD in Hb; lia|].
      assert (E1 : Nat.eqb (P_THREAD s) (PB s) = false) by (apply Nat.eqb_neq; unfold P_THREAD; lia).
      rewrite E1, Nat.eqb_refl. reflexivity. }
  set (f2 := fresh t1). set (t2 := (f2, P_FDDIR s) :: t1).
  assert (Hf2 : tget t2 f2 = Some (P_FDDIR s)) by apply tget_new.
  rewrite (run_bind s rp), (run_bind s rp), (run_verify s rp fz Hfz gh Hmnt t2 f2 (P_FDDIR s) Hf2) by (unfold P_FDDIR; lia).
  cbv beta iota. cbn [Static.run]. cbv beta iota. cbn [bind].
  rewrite (run_bind s rp), run_close. cbn [Static.run]. cbv beta iota.
  unfold t2, f2, t1, f1. rewrite tdel_new2. reflexivity.
Qed.

(* Handle::reopen(flags) *)
Theorem run_reopen_strong pf t fd o exp flags :
  tget t (ph_fd gh) = Some (PB s) ->
  tget t fd = Some o -> (o < PB s)%nat -> FSModel.link_body s o = None ->
  find_path s o = Some exp -> N.leb READLINK_BUF (N.of_nat (length (render rp exp))) = false ->
  (* flags the library accepts, and that fit the object (O_DIRECTORY only on a directory) *)
  (intersects (without flags REOPEN_REMOVED) OPEN_FOLLOW_REFUSED || has_nz (without flags REOPEN_REMOVED) OPEN_FOLLOW_REFUSED_CONTAINS) = false ->
  (has (N.lor (N.lor (without flags REOPEN_REMOVED) OPENAT_FORCED) O_LARGEFILE) O_DIRECTORY && negb (obj_is_dir s o)) = false ->
  exists nfd, run t (reopen fz true (S pf) gh fd flags) = Done ((nfd, o) :: t) (Ok nfd) /\ tfind t nfd = None /\ (0 <= nfd)%Z.
Proof.
  intros HP Hfd Holt Hnl Hpath Hlen Hacc Hdir.
  pose proof (tget_pos _ _ _ Hfd) as Hpos.
  unfold reopen, bindR. rewrite (run_bind s rp), (run_fstatat s rp fz Hfz t fd o Hfd Holt). cbv iota. cbn [st_mode].
  rewrite symlink_mode_of. rewrite link_body_kind in Hnl.
  assert (Hk : match FSModel.kind_of s o with FSModel.KLnk _ => true | _ => false end = false)
    by (destruct (FSModel.kind_of s o); try reflexivity; discriminate).
  rewrite Hk. rewrite (proc_subpath_nonneg fd Hpos).
  set (fl := without flags REOPEN_REMOVED) in *.
  set (nm := dec (Z.to_N fd)).
  unfold popen_follow. change (follow_refused fl = false) in Hacc. rewrite Hacc, andb_false_r. cbv iota.
  unfold nm. rewrite (strip_fd _ (dec_no_slash _) (dec_ne _)). fold nm. cbv beta iota.
  rewrite Hacc, andb_false_r. cbv iota.
  (* the readlink that tells whether the target is a link at all *)
  rewrite (run_bind s rp).
  pose proof (run_as_unsafe_path s rp fz Hfz gh Hmnt Ho2 pf t fd o exp HP Hfd Hpath Hlen) as Hrl.
  unfold as_unsafe_path in Hrl. rewrite (proc_subpath_nonneg fd Hpos) in Hrl. fold nm in Hrl. rewrite Hrl. cbv iota.
  unfold nm. rewrite (split_fd _ (dec_no_slash _) (dec_ne _)). fold nm.
  (* the parent: the fd directory *)
  unfold bindR. rewrite (run_bind s rp), (run_popen_fddir pf t HP). cbv iota.
  set (pfd := fresh ((fresh t, P_THREAD s) :: t)). set (t1 := (pfd, P_FDDIR s) :: t).
  assert (Hp : tget t1 pfd = Some (P_FDDIR s)) by (apply tget_cons_same; pose proof (fresh_ge3 ((fresh t, P_THREAD s) :: t)); unfold pfd; lia).
  assert (Hpn : tfind t pfd = None).
  { destruct (tfind t pfd) as [x|] eqn:E; [|reflexivity]. apply tfind_in, fresh_gt in E.
    pose proof (fresh_gt ((fresh t, P_THREAD s) :: t) (fresh t) _ (or_introl eq_refl)). unfold pfd in *. lia. }
  assert (Hfd1 : tget t1 fd = Some o) by (unfold t1; apply tget_new_old_gen; assumption).
  rewrite (run_bind s rp), (run_fetch_mnt s rp fz t1 pfd _ Hp).
  destruct (Nat.leb_spec (PB s) (P_FDDIR s)) as [_|Hb]; [|unfold P_FDDIR in Hb; lia]. cbv iota.
  (* the magic-link is on the same mount as its directory *)
  rewrite (run_bind s rp). unfold verify_same_mnt, bindR. rewrite (run_bind s rp).
  assert (Hst : run t1 (fetch_mnt_id fz pfd nm) = Done t1 (Ok (Some PROC_MNT))).
  { unfold fetch_mnt_id, w_statx, simple1, rustix_path. rewrite (tget_valid _ _ _ Hp).
    unfold nm. rewrite dec_no_nul. cbn [negb bind Static.run].
    unfold answer. cbn [sem]. rewrite Hp. rewrite (dec_not_nil (Z.to_N fd)). rewrite Nat.eqb_refl.
    rewrite parse_dec_dec, Z2N.id by exact Hpos. rewrite Hfd1.
    cbn [as_statx bind Static.run]. change (intersects STATX_WANT_MASK STATX_WANT_MASK) with true. reflexivity. }
  rewrite Hst. cbv iota. cbn [opt_n_eqb]. rewrite (N.eqb_refl PROC_MNT). cbn [Static.run]. cbv iota.
  (* the open that follows the magic-link *)
  rewrite (run_bind s rp). unfold os, map_err, w_openat_follow, rustix_path.
  rewrite (tget_valid _ _ _ Hp). unfold nm. rewrite dec_no_nul. fold nm. cbn [negb bind Static.run].
  unfold answer. cbn [sem]. rewrite Hp, Nat.eqb_refl.
  pose proof (reopen_flags_follow flags) as Hnf. fold fl in Hnf. rewrite Hnf. cbn [negb andb].
  unfold nm. rewrite parse_dec_dec, Z2N.id by exact Hpos. rewrite Hfd1, Hdir.
  cbn [as_fd]. pose proof (fresh_ge3 t1). destruct (Z.leb_spec 0 (fresh t1)); [|lia]. cbn [Static.run]. cbv iota.
  cbn [bind Static.run]. cbv beta iota. rewrite (run_bind s rp), run_close. cbn [Static.run].
  exists (fresh t1). split.
  2:{ split; [|pose proof (fresh_ge3 t1); lia].
      destruct (tfind t (fresh t1)) as [x|] eqn:E; [|reflexivity]. exfalso. apply tfind_in in E.
      pose proof (fresh_gt t1 (fresh t1) x (or_intror E)). lia. }
  f_equal.
  (* closing the fd directory: only the new descriptor remains on top of t *)
  unfold t1. cbn [tdel filter fst].
  assert (Hne : fresh ((pfd, P_FDDIR s) :: t) <> pfd).
  { pose proof (fresh_gt ((pfd, P_FDDIR s) :: t) pfd _ (or_introl eq_refl)). lia. }
  destruct (Z.eqb_spec (fresh ((pfd, P_FDDIR s) :: t)) pfd); [contradiction|]. cbn [negb].
  rewrite Z.eqb_refl. cbn [negb]. f_equal.
  apply tdel_notin. destruct (tfind t pfd) as [x|] eqn:E; [|reflexivity].
  apply tfind_in, fresh_gt in E. pose proof (fresh_gt ((fresh t, P_THREAD s) :: t) (fresh t) _ (or_introl eq_refl)). unfold pfd in *. lia.
Qed.

Theorem run_reopen pf t fd o exp flags :
  tget t (ph_fd gh) = Some (PB s) ->
  tget t fd = Some o -> (o < PB s)%nat -> FSModel.link_body s o = None ->
  find_path s o = Some exp -> N.leb READLINK_BUF (N.of_nat (length (render rp exp))) = false ->
  (* flags the library accepts, and that fit the object (O_DIRECTORY only on a directory) *)
  (intersects (without flags REOPEN_REMOVED) OPEN_FOLLOW_REFUSED || has_nz (without flags REOPEN_REMOVED) OPEN_FOLLOW_REFUSED_CONTAINS) = false ->
  (has (N.lor (N.lor (without flags REOPEN_REMOVED) OPENAT_FORCED) O_LARGEFILE) O_DIRECTORY && negb (obj_is_dir s o)) = false ->
  exists nfd, run t (reopen fz true (S pf) gh fd flags) = Done ((nfd, o) :: t) (Ok nfd).
Proof.
  intros HP Hfd Holt Hnl Hpath Hlen Hacc Hdir.
  destruct (run_reopen_strong pf t fd o exp flags HP Hfd Holt Hnl Hpath Hlen Hacc Hdir) as (nfd & H & _). exists nfd. exact H.
Qed.

End RO.

(* ---- the same with openat2 absent: every procfs step through the emulated resolver ---- *)

Section ROE.
Variable s : fs.
Variable rp : bytes.
Variable fz : nat.
Hypothesis Hfz : fz <> 0%nat.
Variable gh : phandle.
Hypothesis Hmnt : ph_mnt gh = Some PROC_MNT.
Hypothesis Ho2 : ph_openat2 gh = false.

Notation run := (run s rp).

Lemma run_open_base_emu t :
  tget t (ph_fd gh) = Some (PB s) ->
  exists n, run t (open_base fz false gh ProcThreadSelf) = Done ([(n, (PB s + 4)%nat)] ++ t) (Ok n) /\ Stk t [(n, (PB s + 4)%nat)].
Proof.
  intro HP. destruct (run_walk_thread_self s rp fz Hfz t (ph_fd gh) HP) as (n5 & Hw1 & S5).
  exists n5. split; [|exact S5].
  unfold open_base, bindR. rewrite (run_bind s rp).
  assert (Hinto : run t (into_path fz (ph_fd gh) ProcThreadSelf) = Done t (b "thread-self")).
  { unfold into_path. cbn [Static.run]. unfold answer at 1. cbn [sem as_num thread_self_cands].
    rewrite (run_bind s rp). unfold w_fstatat, simple1, rustix_path. rewrite (tget_valid _ _ _ HP).
    change (has_nul (b "thread-self")) with false. cbn [negb Static.run]. unfold answer. cbn [sem].
    rewrite (tget_not_cwd _ _ _ HP), HP. change (is_nil (b "thread-self")) with false.
    rewrite Nat.eqb_refl. change (beq (b "thread-self") (b "thread-self")) with true. cbn [andb as_stat Static.run].
    reflexivity. }
  rewrite Hinto. rewrite (run_bind s rp). unfold presolve. rewrite Ho2.
  change (procfs_flags_invalid OPEN_BASE_FLAGS) with false. cbv iota.
  rewrite Hw1. cbv iota.
  rewrite (run_bind s rp), (run_verify_proc s rp fz Hfz gh Hmnt _ n5 _ (stk_top t n5 _ [] S5)) by lia. reflexivity.
Qed.

Notation PFL := (N.lor OPEN_FOLLOW_PARENT_FLAGS PROCFS_OPEN_FORCED).

(* ProcfsHandle::open(ProcThreadSelf, "fd", O_PATH|O_DIRECTORY) *)
Lemma run_popen_fddir_emu pf t :
  tget t (ph_fd gh) = Some (PB s) ->
  exists m, run t (popen fz false (S pf) gh ProcThreadSelf (b "fd") OPEN_FOLLOW_PARENT_FLAGS) = Done ([(m, P_FDDIR s)] ++ t) (Ok m)
            /\ Stk t [(m, P_FDDIR s)].
Proof.
  intro HP. destruct (run_open_base_emu t HP) as (n5 & Hb & S5).
  cbn [popen]. unfold bindR. rewrite (run_bind s rp), Hb. cbv iota.
  rewrite (run_bind s rp). unfold presolve. rewrite Ho2.
  change (procfs_flags_invalid PFL) with false. cbv iota.
  (* opath_resolve n5 "fd" *)
  unfold opath_resolve, bindR.
  pose proof (stk_top t n5 _ [] S5) as H5.
  rewrite (run_bind s rp), (run_fetch_mnt s rp fz _ n5 _ H5).
  destruct (Nat.leb_spec (PB s) (PB s + 4)) as [_|Hbad]; [|lia]. cbv iota.
  rewrite (run_bind s rp), (run_dup s rp fz Hfz _ n5 _ H5). cbv iota.
  set (d0 := fresh ([(n5, (PB s + 4)%nat)] ++ t)).
  assert (Sd : Stk t [(d0, (PB s + 4)%nat); (n5, (PB s + 4)%nat)]) by (apply (stk_alloc t _ _ S5)).
  change ((d0, (PB s + 4)%nat) :: [(n5, (PB s + 4)%nat)] ++ t) with ([(d0, (PB s + 4)%nat); (n5, (PB s + 4)%nat)] ++ t).
  change (N.to_nat MAX_SYMLINK_TRAVERSALS) with (S (S 126)). rewrite pwalk_SS.
  change (raw_components (b "fd")) with [b "fd"].
  rewrite (body_final_step s rp fz Hfz PFL 0 _ _ d0 4 (b "fd") (P_FDDIR s) (stk_top t d0 _ _ Sd) eq_refl eq_refl eq_refl eq_refl
             ltac:(intro; reflexivity) eq_refl ltac:(unfold P_FDDIR; lia) eq_refl ltac:(vm_compute; reflexivity)
             ltac:(unfold P_FDDIR; rewrite (obj_is_dir_p s 5) by (unfold NP; lia); vm_compute; reflexivity)).
  set (m1 := fresh ([(d0, (PB s + 4)%nat); (n5, (PB s + 4)%nat)] ++ t)).
  assert (S1 : Stk t [(m1, P_FDDIR s); (d0, (PB s + 4)%nat); (n5, (PB s + 4)%nat)]) by (apply (stk_alloc t _ _ Sd)).
  change ((m1, P_FDDIR s) :: [(d0, (PB s + 4)%nat); (n5, (PB s + 4)%nat)] ++ t)
    with ([(m1, P_FDDIR s); (d0, (PB s + 4)%nat); (n5, (PB s + 4)%nat)] ++ t).
  set (m2 := fresh ([(m1, P_FDDIR s); (d0, (PB s + 4)%nat); (n5, (PB s + 4)%nat)] ++ t)).
  assert (S2 : Stk t [(m2, P_FDDIR s); (m1, P_FDDIR s); (d0, (PB s + 4)%nat); (n5, (PB s + 4)%nat)]) by (apply (stk_alloc t _ _ S1)).
  change ((m2, P_FDDIR s) :: [(m1, P_FDDIR s); (d0, (PB s + 4)%nat); (n5, (PB s + 4)%nat)] ++ t)
    with ([(m2, P_FDDIR s); (m1, P_FDDIR s); (d0, (PB s + 4)%nat); (n5, (PB s + 4)%nat)] ++ t).
  rewrite (stk_close_second t m2 _ m1 _ _ S2).
  pose proof (stk_drop_second t m2 _ m1 _ _ S2) as S2'.
  rewrite (stk_close_second t m2 _ d0 _ _ S2').
  pose proof (stk_drop_second t m2 _ d0 _ _ S2') as S2''.
  cbv iota.
  rewrite (run_bind s rp), (run_bind s rp), (run_verify_proc s rp fz Hfz gh Hmnt _ m2 _ (stk_top t m2 _ _ S2'')) by (unfold P_FDDIR; lia).
  cbv beta iota. cbn [Static.run]. cbv beta iota. cbn [bind].
  rewrite (run_bind s rp), run_close. cbn [Static.run]. cbv beta iota.
  rewrite (stk_close_second t m2 _ n5 _ [] S2'').
  exists m2. split; [reflexivity|exact (stk_drop_second t m2 _ n5 _ [] S2'')].
Qed.

Theorem run_reopen_emu pf t fd o exp flags :
  tget t (ph_fd gh) = Some (PB s) ->
  tget t fd = Some o -> (o < PB s)%nat -> FSModel.link_body s o = None ->
  find_path s o = Some exp -> N.leb READLINK_BUF (N.of_nat (length (render rp exp))) = false ->
  (intersects (without flags REOPEN_REMOVED) OPEN_FOLLOW_REFUSED || has_nz (without flags REOPEN_REMOVED) OPEN_FOLLOW_REFUSED_CONTAINS) = false ->
  (has (N.lor (N.lor (without flags REOPEN_REMOVED) OPENAT_FORCED) O_LARGEFILE) O_DIRECTORY && negb (obj_is_dir s o)) = false ->
  exists nfd, run t (reopen fz false (S pf) gh fd flags) = Done ((nfd, o) :: t) (Ok nfd).
Proof.
  intros HP Hfd Holt Hnl Hpath Hlen Hacc Hdir.
  pose proof (tget_pos _ _ _ Hfd) as Hpos.
  unfold reopen, bindR. rewrite (run_bind s rp), (run_fstatat s rp fz Hfz t fd o Hfd Holt). cbv iota. cbn [st_mode].
  rewrite symlink_mode_of. rewrite link_body_kind in Hnl.
  assert (Hk : match FSModel.kind_of s o with FSModel.KLnk _ => true | _ => false end = false)
    by (destruct (FSModel.kind_of s o); try reflexivity; discriminate).
  rewrite Hk. rewrite (proc_subpath_nonneg fd Hpos).
  set (fl := without flags REOPEN_REMOVED) in *.
  set (nm := dec (Z.to_N fd)).
  unfold popen_follow. change (follow_refused fl = false) in Hacc. rewrite Hacc, andb_false_r. cbv iota.
  unfold nm. rewrite (strip_fd _ (dec_no_slash _) (dec_ne _)). fold nm. cbv beta iota.
  rewrite Hacc, andb_false_r. cbv iota.
  rewrite (run_bind s rp).
  pose proof (run_as_unsafe_path_emu s rp fz Hfz gh Hmnt Ho2 pf t fd o exp HP Hfd Hpath Hlen) as Hrl.
  unfold as_unsafe_path in Hrl. rewrite (proc_subpath_nonneg fd Hpos) in Hrl. fold nm in Hrl. rewrite Hrl. cbv iota.
  unfold nm. rewrite (split_fd _ (dec_no_slash _) (dec_ne _)). fold nm.
  unfold bindR. destruct (run_popen_fddir_emu pf t HP) as (pfd & Hpo & Sp).
  rewrite (run_bind s rp), Hpo. cbv iota.
  pose proof (stk_top t pfd _ [] Sp) as Hp.
  assert (Hfd1 : tget ([(pfd, P_FDDIR s)] ++ t) fd = Some o) by (apply (stk_old t _ fd o Sp Hfd)).
  rewrite (run_bind s rp), (run_fetch_mnt s rp fz _ pfd _ Hp).
  destruct (Nat.leb_spec (PB s) (P_FDDIR s)) as [_|Hb]; [|unfold P_FDDIR in Hb; lia]. cbv iota.
  rewrite (run_bind s rp). unfold verify_same_mnt, bindR. rewrite (run_bind s rp).
  assert (Hst : run ([(pfd, P_FDDIR s)] ++ t) (fetch_mnt_id fz pfd nm) = Done ([(pfd, P_FDDIR s)] ++ t) (Ok (Some PROC_MNT))).
  { unfold fetch_mnt_id, w_statx, simple1, rustix_path. rewrite (tget_valid _ _ _ Hp).
    unfold nm. rewrite dec_no_nul. cbn [negb bind Static.run].
    unfold answer. cbn [sem]. rewrite Hp. rewrite (dec_not_nil (Z.to_N fd)). rewrite Nat.eqb_refl.
    rewrite parse_dec_dec, Z2N.id by exact Hpos. rewrite Hfd1.
    cbn [as_statx bind Static.run]. change (intersects STATX_WANT_MASK STATX_WANT_MASK) with true. reflexivity. }
  rewrite Hst. cbv iota. cbn [opt_n_eqb]. rewrite (N.eqb_refl PROC_MNT). cbn [Static.run]. cbv iota.
  rewrite (run_bind s rp). unfold os, map_err, w_openat_follow, rustix_path.
  rewrite (tget_valid _ _ _ Hp). unfold nm. rewrite dec_no_nul. fold nm. cbn [negb bind Static.run].
  unfold answer. cbn [sem]. rewrite Hp, Nat.eqb_refl.
  pose proof (reopen_flags_follow flags) as Hnf. fold fl in Hnf. rewrite Hnf. cbn [negb andb].
  unfold nm. rewrite parse_dec_dec, Z2N.id by exact Hpos. rewrite Hfd1, Hdir.
  set (T1 := [(pfd, P_FDDIR s)] ++ t).
  cbn [as_fd]. pose proof (fresh_ge3 T1). destruct (Z.leb_spec 0 (fresh T1)); [|lia]. cbn [Static.run]. cbv iota.
  cbn [bind Static.run]. cbv beta iota. rewrite (run_bind s rp), run_close. cbn [Static.run].
  exists (fresh T1). f_equal.
  assert (S2 : Stk t [(fresh T1, o); (pfd, P_FDDIR s)]) by (apply (stk_alloc t _ _ Sp)).
  change ((fresh T1, o) :: T1) with ([(fresh T1, o); (pfd, P_FDDIR s)] ++ t).
  rewrite (stk_close_second t _ _ pfd _ [] S2). reflexivity.
Qed.

End ROE.
