(* BitsProofs.v -- flag-set reasoning: [has], [intersects], [without]. *)
From PV Require Import Bytes LinuxAbi.
From Coq Require Import NArith Bool Lia.
Open Scope N_scope.

Lemma has_spec x c : has x c = true <-> (forall i, N.testbit c i = true -> N.testbit x i = true).
Proof.
  unfold has. rewrite N.eqb_eq. split.
  - intros H i Hc. rewrite <- H in Hc. rewrite N.land_spec in Hc.
    apply andb_true_iff in Hc. tauto.
  - intros H. apply N.bits_inj. intro i. rewrite N.land_spec.
    destruct (N.testbit c i) eqn:E.
    + rewrite (H i E). reflexivity.
    + apply andb_false_r.
Qed.

Lemma has_lor_l a b' c : has a c = true -> has (N.lor a b') c = true.
Proof.
  rewrite !has_spec. intros H i Hc. rewrite N.lor_spec, (H i Hc). reflexivity.
Qed.

Lemma has_lor_r a b' c : has b' c = true -> has (N.lor a b') c = true.
Proof.
  rewrite !has_spec. intros H i Hc. rewrite N.lor_spec, (H i Hc). apply orb_true_r.
Qed.

Lemma has_refl c : has c c = true.
Proof. apply has_spec. auto. Qed.

Lemma has_trans a b' c : has a b' = true -> has b' c = true -> has a c = true.
Proof. rewrite !has_spec. auto. Qed.

Lemma has_land_mask a m c : has a c = true -> has m c = true -> has (N.land a m) c = true.
Proof.
  rewrite !has_spec. intros Ha Hm i Hc. rewrite N.land_spec, (Ha i Hc), (Hm i Hc). reflexivity.
Qed.

(* a bit that is set in [c] and cleared by ldiff cannot be present *)
Lemma has_ldiff_false a c : c <> 0 -> has (N.ldiff a c) c = false.
Proof.
  intros Hc. destruct (has (N.ldiff a c) c) eqn:E; [|reflexivity].
  exfalso. apply Hc. apply N.bits_inj_0. intro i.
  destruct (N.testbit c i) eqn:Ei; [|reflexivity].
  rewrite has_spec in E. specialize (E i Ei).
  rewrite N.ldiff_spec, Ei in E. rewrite andb_false_r in E. discriminate.
Qed.

Lemma has_ldiff_other a c d : N.land c d = 0 -> has a d = true -> has (N.ldiff a c) d = true.
Proof.
  intros Hcd. rewrite !has_spec. intros H i Hd.
  rewrite N.ldiff_spec, (H i Hd). cbn.
  destruct (N.testbit c i) eqn:Ec; [|reflexivity].
  assert (N.testbit (N.land c d) i = true) by (rewrite N.land_spec, Ec, Hd; reflexivity).
  rewrite Hcd in H0. rewrite N.bits_0 in H0. discriminate.
Qed.

Lemma intersects_false_has a m c : c <> 0 -> has m c = true -> intersects a m = false -> has a c = false.
Proof.
  unfold intersects. intros Hc Hm Hi. apply negb_false_iff, N.eqb_eq in Hi.
  destruct (has a c) eqn:E; [|reflexivity]. exfalso. apply Hc.
  apply N.bits_inj_0. intro i. destruct (N.testbit c i) eqn:Ei; [|reflexivity].
  rewrite has_spec in E, Hm.
  assert (N.testbit (N.land a m) i = true) by (rewrite N.land_spec, (E i Ei), (Hm i Ei); reflexivity).
  rewrite Hi, N.bits_0 in H. discriminate.
Qed.
