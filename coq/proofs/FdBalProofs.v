(* FdBalProofs.v -- C11: composition rules for the balance judgement, its
   soundness on every trace the model accepts, and the per-program lemmas. *)
From PV Require Import FdBalance ProgTac PathProofs.
From Coq Require Import Permutation.
Open Scope N_scope.

(* ---- multiset facts --------------------------------------------------------- *)

Lemma mem_in x l : mem x l = true <-> In x l.
Proof.
  unfold mem. rewrite existsb_exists. split.
  - intros [y [Hy He]]. apply Z.eqb_eq in He. subst. exact Hy.
  - intro H. exists x. split; [exact H|apply Z.eqb_refl].
Qed.

Lemma mem_perm x l l' : Permutation l l' -> mem x l = mem x l'.
Proof.
  intro H. destruct (mem x l') eqn:E.
  - apply mem_in. apply mem_in in E. eapply Permutation_in; [apply Permutation_sym; exact H|exact E].
  - destruct (mem x l) eqn:E2; [|reflexivity]. apply mem_in in E2.
    assert (In x l') by (eapply Permutation_in; eassumption). apply mem_in in H0. congruence.
Qed.

Lemma remove_one_in x l : In x l -> Permutation l (x :: remove_one x l).
Proof.
  induction l as [|y t IH]; [intros []|]. intro H. cbn [remove_one].
  destruct (Z.eqb_spec x y) as [->|Hne]; [reflexivity|].
  destruct H as [H|H]; [congruence|].
  eapply perm_trans; [apply perm_skip, IH, H|apply perm_swap].
Qed.

Lemma remove_one_notin x l : ~ In x l -> remove_one x l = l.
Proof.
  induction l as [|y t IH]; [reflexivity|]. intro H. cbn [remove_one].
  destruct (Z.eqb_spec x y) as [->|Hne]; [exfalso; apply H; left; reflexivity|].
  rewrite IH; [reflexivity|]. intro; apply H; right; assumption.
Qed.

Lemma remove_one_perm x l l' : Permutation l l' -> Permutation (remove_one x l) (remove_one x l').
Proof.
  intro H. destruct (in_dec Z.eq_dec x l) as [Hin|Hnin].
  - assert (Hin' : In x l') by (eapply Permutation_in; eassumption).
    apply Permutation_cons_inv with (a := x).
    eapply perm_trans; [apply Permutation_sym, remove_one_in, Hin|].
    eapply perm_trans; [exact H|apply remove_one_in, Hin'].
  - assert (Hnin' : ~ In x l') by (intro; apply Hnin; eapply Permutation_in; [apply Permutation_sym|]; eassumption).
    rewrite !remove_one_notin by assumption. exact H.
Qed.

Lemma remove_one_cons_perm x l l' : Permutation l (x :: l') -> Permutation (remove_one x l) l'.
Proof.
  intro H. eapply perm_trans; [apply remove_one_perm, H|]. cbn [remove_one]. rewrite Z.eqb_refl. reflexivity.
Qed.

Lemma step_owned_perm o o' c r : Permutation o o' -> Permutation (step_owned o c r) (step_owned o' c r).
Proof.
  intro H. destruct c; cbn [step_owned]; try (apply Permutation_app_head; exact H).
  apply remove_one_perm, H.
Qed.

(* ---- structural rules --------------------------------------------------------- *)

Definition perm_closed {A} (R : A -> list Z -> Prop) : Prop :=
  forall a o1 o2, R a o1 -> Permutation o1 o2 -> R a o2.

Lemma bal_perm {A} (R : A -> list Z -> Prop) (p : prog A) o1 o2 :
  perm_closed R -> bal R o1 p -> Permutation o1 o2 -> bal R o2 p.
Proof.
  intros HR Hb. revert o2. induction Hb as [a o Ha | c k o Hc Hk IH | s o | o]; intros o2 Hp.
  - constructor. eapply HR; eassumption.
  - constructor.
    + intros fd E. rewrite <- (mem_perm fd _ _ Hp). apply Hc, E.
    + intros r Hf. apply IH; [|apply step_owned_perm, Hp].
      intros n Hn Hin. apply (Hf n Hn). eapply Permutation_in; [exact Hp|exact Hin].
  - constructor.
  - constructor.
Qed.

Lemma bal_bind {A B} (R1 : A -> list Z -> Prop) (R2 : B -> list Z -> Prop) o (p : prog A) (f : A -> prog B) :
  bal R1 o p -> (forall a o', R1 a o' -> bal R2 o' (f a)) -> bal R2 o (bind p f).
Proof.
  intros Hp Hf. induction Hp as [a o Ha | c k o Hc Hk IH | s o | o]; cbn.
  - apply Hf, Ha.
  - constructor; [exact Hc|]. intros r Hfr. apply IH, Hfr.
  - constructor.
  - constructor.
Qed.

Lemma bal_weaken {A} (R1 R2 : A -> list Z -> Prop) o (p : prog A) :
  bal R1 o p -> (forall a o', R1 a o' -> R2 a o') -> bal R2 o p.
Proof. intros Hp H. induction Hp; constructor; auto. Qed.

(* ---- soundness on traces: what the judgement says about every trace that the
   model accepts (tie T1 replays recorded traces through [run_trace]) ---------- *)

Theorem bal_sound_on_traces {A} (R : A -> list Z -> Prop) (p : prog A) :
  forall o t idx a n foreign,
    bal R o p -> run_trace p t idx = RDone a n -> trace_fresh t o = true ->
    exists o', trace_owned t o foreign = (o', foreign) /\ R a o'.
Proof.
  intros o t idx a n foreign Hb. revert t idx foreign.
  induction Hb as [a' o Ha | c k o Hc Hk IH | s o | o]; intros t idx foreign Hr Hfr.
  - destruct t; cbn in Hr; [|discriminate]. inversion Hr; subst. exists o. split; [reflexivity|exact Ha].
  - destruct t as [|[c' r] t']; cbn in Hr; [discriminate|].
    destruct (call_eqb c c') eqn:E; [|discriminate].
    cbn [trace_owned].
    assert (Hcc : step_owned o c' r = step_owned o c r /\
                  (match c' with Close fd => if mem fd o then foreign else fd :: foreign | _ => foreign end) = foreign /\
                  opens c' r = opens c r).
    { destruct c, c'; cbn in E; try discriminate; try (repeat split; reflexivity).
      all: repeat match goal with H : _ && _ = true |- _ => apply andb_true_iff in H; destruct H end.
      all: repeat match goal with H : zeqb _ _ = true |- _ => apply Z.eqb_eq in H; subst end.
      all: repeat match goal with H : beq _ _ = true |- _ => apply beq_true_iff in H; subst end.
      all: repeat match goal with H : N.eqb _ _ = true |- _ => apply N.eqb_eq in H; subst end.
      all: try (repeat split; reflexivity).
      split; [reflexivity|split; [|reflexivity]]. rewrite (Hc fd0 eq_refl). reflexivity. }
    destruct Hcc as (Hs & Hf & Ho). rewrite Hs, Hf.
    cbn [trace_fresh] in Hfr. apply andb_true_iff in Hfr. destruct Hfr as [Hfr1 Hfr2]. rewrite Hs in Hfr2. rewrite Ho in Hfr1.
    eapply IH; [|exact Hr|exact Hfr2].
    intros m Hm Hin. rewrite forallb_forall in Hfr1. specialize (Hfr1 m Hm).
    apply negb_true_iff in Hfr1. apply mem_in in Hin. congruence.
  - cbn in Hr. discriminate.
  - cbn in Hr. discriminate.
Qed.

(* ---- wrappers ------------------------------------------------------------------ *)

Definition Rsame {A} (o : list Z) : A -> list Z -> Prop := fun _ o' => Permutation o' o.
Definition Rfd {E} (o : list Z) : result Z E -> list Z -> Prop :=
  fun r o' => Permutation o' (match r with Ok n => n :: o | Err _ => o end).

Lemma perm_closed_Rsame {A} o : perm_closed (@Rsame A o).
Proof. intros a o1 o2 H Hp. unfold Rsame in *. eapply perm_trans; [apply Permutation_sym, Hp|exact H]. Qed.
Lemma perm_closed_Rfd {E} o : perm_closed (@Rfd E o).
Proof. intros a o1 o2 H Hp. unfold Rfd in *. eapply perm_trans; [apply Permutation_sym, Hp|exact H]. Qed.

(* a call that neither opens nor closes *)
Definition neutral (c : call) : Prop :=
  (forall r, opens c r = []) /\ (forall fd, c <> Close fd).

Lemma bal_neutral_call {A} (R : A -> list Z -> Prop) o c k :
  neutral c -> (forall r, bal R o (k r)) -> bal R o (Call c k).
Proof.
  intros [Ho Hc] Hk. constructor.
  - intros fd E. exfalso. exact (Hc fd E).
  - intros r _. replace (step_owned o c r) with o; [apply Hk|].
    destruct c; cbn [step_owned]; try (rewrite Ho; reflexivity). exfalso. exact (Hc fd eq_refl).
Qed.

Ltac neutral_solve := split; [intro; reflexivity | intros ? ?; discriminate].

Lemma frozen_bal fz : forall fd o, bal (@Rsame unit o) o (frozen fz fd).
Proof.
  induction fz as [|f IH]; intros fd o; cbn [frozen]; [constructor|].
  apply bal_neutral_call; [neutral_solve|]. intro rt.
  generalize (thread_self_cands (as_num rt)). intro cands.
  induction cands as [|c rest IHc]; [constructor|].
  apply bal_neutral_call; [neutral_solve|]. intro r.
  destruct (as_stat r).
  - destruct (proc_subpath fd); [|constructor; hnf; reflexivity].
    apply bal_neutral_call; [neutral_solve|]. intro; constructor; hnf; reflexivity.
  - eapply bal_bind; [apply IH|]. intros u o' Ho'.
    eapply bal_perm; [apply perm_closed_Rsame|exact IHc|apply Permutation_sym, Ho'].
Qed.

Lemma fail1_bal {A} fz fd e o (R : result A N -> list Z -> Prop) :
  perm_closed R -> R (Err e) o -> bal R o (@fail1 fz A fd e).
Proof.
  intros HR He. unfold fail1. eapply bal_bind; [apply frozen_bal|]. intros u o' Ho'.
  constructor. eapply HR; [exact He|apply Permutation_sym, Ho'].
Qed.

Lemma fail2_bal {A} fz fd1 fd2 e o (R : result A N -> list Z -> Prop) :
  perm_closed R -> R (Err e) o -> bal R o (@fail2 fz A fd1 fd2 e).
Proof.
  intros HR He. unfold fail2. eapply bal_bind; [apply frozen_bal|]. intros u1 o1 Ho1.
  eapply bal_bind; [apply frozen_bal|]. intros u2 o2 Ho2.
  constructor. eapply HR; [exact He|]. apply Permutation_sym. eapply perm_trans; eassumption.
Qed.

Lemma w_openat_follow_bal fz fd n fl m o : bal (Rfd o) o (w_openat_follow fz fd n fl m).
Proof.
  unfold w_openat_follow. destruct (negb (valid_fd fd)); [constructor; hnf; reflexivity|].
  unfold rustix_path. destruct (has_nul n); [apply fail1_bal; [apply perm_closed_Rfd|hnf; reflexivity]|].
  constructor; [intros ? E; discriminate|]. intros r _. cbn [step_owned opens].
  destruct (as_fd r) as [k|e]; cbn [app].
  - constructor. hnf. reflexivity.
  - apply fail1_bal; [apply perm_closed_Rfd|hnf; reflexivity].
Qed.

Lemma w_openat_bal fz fd n fl m o : bal (Rfd o) o (w_openat fz fd n fl m).
Proof. apply w_openat_follow_bal. Qed.

Lemma w_openat2_bal fz fd p fl m rs o : bal (Rfd o) o (w_openat2 fz fd p fl m rs).
Proof.
  unfold w_openat2. destruct (negb (valid_fd fd)); [constructor; hnf; reflexivity|].
  destruct (OPENAT2_NUL_EINVAL && has_nul p); [apply fail1_bal; [apply perm_closed_Rfd|hnf; reflexivity]|].
  constructor; [intros ? E; discriminate|]. intros r _. cbn [step_owned opens].
  destruct (as_fd r) as [k|e]; cbn [app].
  - constructor. hnf. reflexivity.
  - apply fail1_bal; [apply perm_closed_Rfd|hnf; reflexivity].
Qed.

Lemma simple1_bal {A} fz fd path c (dec : resp -> result A N) o :
  neutral c -> bal (Rsame o) o (simple1 fz fd path c dec).
Proof.
  intro Hn. unfold simple1. destruct (negb (valid_fd fd)); [constructor; hnf; reflexivity|].
  unfold rustix_path. destruct (has_nul path); [apply fail1_bal; [apply perm_closed_Rsame|hnf; reflexivity]|].
  apply bal_neutral_call; [exact Hn|]. intro r.
  destruct (dec r); [constructor; hnf; reflexivity|apply fail1_bal; [apply perm_closed_Rsame|hnf; reflexivity]].
Qed.

Lemma w_readlinkat_bal fz fd p o : bal (Rsame o) o (w_readlinkat fz fd p).
Proof.
  unfold w_readlinkat. destruct (negb (valid_fd fd)); [constructor; hnf; reflexivity|].
  unfold rustix_path. destruct (has_nul p); [apply fail1_bal; [apply perm_closed_Rsame|hnf; reflexivity]|].
  apply bal_neutral_call; [neutral_solve|]. intro r.
  destruct (as_bytes r); [|apply fail1_bal; [apply perm_closed_Rsame|hnf; reflexivity]].
  destruct (N.leb _ _); [apply fail1_bal; [apply perm_closed_Rsame|hnf; reflexivity]|constructor; hnf; reflexivity].
Qed.

Lemma w_mkdirat_bal fz fd n m o : bal (Rsame o) o (w_mkdirat fz fd n m).
Proof. apply simple1_bal. neutral_solve. Qed.
Lemma w_mknodat_bal fz fd n m d o : bal (Rsame o) o (w_mknodat fz fd n m d).
Proof. apply simple1_bal. neutral_solve. Qed.
Lemma w_unlinkat_bal fz fd n a o : bal (Rsame o) o (w_unlinkat fz fd n a).
Proof. apply simple1_bal. neutral_solve. Qed.
Lemma w_fstatat_bal fz fd n o : bal (Rsame o) o (w_fstatat fz fd n).
Proof. apply simple1_bal. neutral_solve. Qed.
Lemma w_statx_bal fz fd n mk o : bal (Rsame o) o (w_statx fz fd n mk).
Proof. apply simple1_bal. neutral_solve. Qed.

Lemma w_fstatfs_bal fz fd o : bal (Rsame o) o (w_fstatfs fz fd).
Proof.
  unfold w_fstatfs. destruct (negb (valid_fd fd)); [constructor; hnf; reflexivity|].
  apply bal_neutral_call; [neutral_solve|]. intro r.
  destruct (as_fstype r); [constructor; hnf; reflexivity|apply fail1_bal; [apply perm_closed_Rsame|hnf; reflexivity]].
Qed.

Lemma w_symlinkat_bal fz t fd n o : bal (Rsame o) o (w_symlinkat fz t fd n).
Proof.
  unfold w_symlinkat. destruct (negb (valid_fd fd)); [constructor; hnf; reflexivity|].
  destruct (_ || _); [apply fail1_bal; [apply perm_closed_Rsame|hnf; reflexivity]|].
  apply bal_neutral_call; [neutral_solve|]. intro r.
  destruct (as_unit r); [constructor; hnf; reflexivity|apply fail1_bal; [apply perm_closed_Rsame|hnf; reflexivity]].
Qed.

Lemma two_fd_bal fz ofd on nfd nn c o : neutral c -> bal (Rsame o) o (two_fd fz ofd on nfd nn c).
Proof.
  intro Hn. unfold two_fd.
  destruct (negb (valid_fd ofd)); [constructor; hnf; reflexivity|].
  destruct (negb (valid_fd nfd)); [constructor; hnf; reflexivity|].
  destruct (_ || _); [apply fail2_bal; [apply perm_closed_Rsame|hnf; reflexivity]|].
  apply bal_neutral_call; [exact Hn|]. intro r.
  destruct (as_unit r); [constructor; hnf; reflexivity|apply fail2_bal; [apply perm_closed_Rsame|hnf; reflexivity]].
Qed.

Lemma w_linkat_bal fz ofd on nfd nn a o : bal (Rsame o) o (w_linkat fz ofd on nfd nn a).
Proof. apply two_fd_bal. neutral_solve. Qed.
Lemma w_renameat2_bal fz ofd on nfd nn fl o : bal (Rsame o) o (w_renameat2 fz ofd on nfd nn fl).
Proof. unfold w_renameat2, w_renameat. destruct (N.eqb fl 0); apply two_fd_bal; neutral_solve. Qed.

Lemma dup_cloexec_bal fd o : bal (@Rfd N o) o (dup_cloexec fd).
Proof.
  unfold dup_cloexec. constructor; [intros ? H; discriminate|]. intros r _. cbn [step_owned opens].
  constructor. unfold Rfd. destruct (as_fd r); reflexivity.
Qed.

(* closing a descriptor the operation owns *)
Lemma close_bal fd o o' : Permutation o (fd :: o') -> bal (@Rsame unit o') o (close fd).
Proof.
  intro Hp. unfold close. constructor.
  - intros fd' E. inversion E; subst. rewrite (mem_perm _ _ _ Hp). apply mem_in. left; reflexivity.
  - intros r _. cbn [step_owned]. constructor. unfold Rsame. apply remove_one_cons_perm, Hp.
Qed.

(* ---- error plumbing ------------------------------------------------------------ *)

Lemma bal_map_err_fd {E F} (g : E -> F) o oo (p : prog (result Z E)) :
  bal (Rfd o) oo p -> bal (Rfd o) oo (map_err g p).
Proof.
  intro H. unfold map_err. eapply bal_bind; [exact H|]. intros [n|e] o' Ho'; constructor; exact Ho'.
Qed.

Lemma bal_map_err_same {A E F} (g : E -> F) o oo (p : prog (result A E)) :
  bal (Rsame o) oo p -> bal (Rsame o) oo (map_err g p).
Proof.
  intro H. unfold map_err. eapply bal_bind; [exact H|]. intros [n|e] o' Ho'; constructor; exact Ho'.
Qed.

(* p leaves the table as it found it, then the continuation runs from the same state *)
Lemma bal_bindR_same {A B E} (R2 : result B E -> list Z -> Prop) o (p : prog (result A E))
      (f : A -> prog (result B E)) :
  perm_closed R2 ->
  bal (Rsame o) o p -> (forall a, bal R2 o (f a)) -> (forall e, R2 (Err e) o) -> bal R2 o (bindR p f).
Proof.
  intros HR Hp Hf He. unfold bindR. eapply bal_bind; [exact Hp|]. intros [a|e] o' Ho'.
  - eapply bal_perm; [exact HR|apply Hf|apply Permutation_sym, Ho'].
  - constructor. eapply HR; [apply He|apply Permutation_sym, Ho'].
Qed.

Lemma bal_bind_same {A B} (R2 : B -> list Z -> Prop) o (p : prog A) (f : A -> prog B) :
  perm_closed R2 -> bal (Rsame o) o p -> (forall a, bal R2 o (f a)) -> bal R2 o (bind p f).
Proof.
  intros HR Hp Hf. eapply bal_bind; [exact Hp|]. intros a o' Ho'.
  eapply bal_perm; [exact HR|apply Hf|apply Permutation_sym, Ho'].
Qed.

(* close fd; then return r *)
Lemma close_ret_bal {A} (R : A -> list Z -> Prop) fd o o' (a : A) :
  perm_closed R -> Permutation o (fd :: o') -> R a o' -> bal R o (close fd ;;; Ret a).
Proof.
  intros HR Hp Ha. eapply bal_bind; [apply (close_bal fd o o' Hp)|]. intros u o2 Ho2.
  constructor. eapply HR; [exact Ha|apply Permutation_sym, Ho2].
Qed.

(* close fd; then continue with q from the reduced table *)
Lemma close_then_bal {A} (R : A -> list Z -> Prop) fd o o' (q : prog A) :
  perm_closed R -> Permutation o (fd :: o') -> bal R o' q -> bal R o (close fd ;;; q).
Proof.
  intros HR Hp Hq. eapply bal_bind; [apply (close_bal fd o o' Hp)|]. intros u o2 Ho2.
  eapply bal_perm; [exact HR|exact Hq|apply Permutation_sym, Ho2].
Qed.

(* ---- procfs.rs / resolvers/procfs.rs -------------------------------------------- *)

Section ProcfsBal.
Variable fz : nat.
Variable cfg : bool.

Lemma fetch_mnt_id_bal fd n o : bal (Rsame o) o (fetch_mnt_id fz fd n).
Proof.
  unfold fetch_mnt_id. eapply bal_bind_same; [apply perm_closed_Rsame|apply w_statx_bal|].
  intros [[mask id]|e]; [constructor; hnf; reflexivity|].
  destruct (existsb _ _); constructor; hnf; reflexivity.
Qed.

Lemma verify_same_mnt_bal m fd n o : bal (Rsame o) o (verify_same_mnt fz m fd n).
Proof.
  unfold verify_same_mnt. apply bal_bindR_same; [apply perm_closed_Rsame|apply fetch_mnt_id_bal| |intro; hnf; reflexivity].
  intro mnt. destruct (opt_n_eqb m mnt); constructor; hnf; reflexivity.
Qed.

Lemma verify_is_procfs_bal fd o : bal (Rsame o) o (verify_is_procfs fz fd).
Proof.
  unfold verify_is_procfs, os. apply bal_bindR_same; [apply perm_closed_Rsame|apply bal_map_err_same, w_fstatfs_bal| |intro; hnf; reflexivity].
  intro t. destruct (N.eqb t PROC_SUPER_MAGIC); constructor; hnf; reflexivity.
Qed.

Lemma verify_same_procfs_mnt_bal h fd o : bal (Rsame o) o (verify_same_procfs_mnt fz h fd).
Proof.
  unfold verify_same_procfs_mnt. apply bal_bindR_same; [apply perm_closed_Rsame|apply verify_same_mnt_bal| |intro; hnf; reflexivity].
  intro. apply verify_is_procfs_bal.
Qed.

Lemma openat2_retry_bal n root p fl rs o : bal (Rfd o) o (openat2_retry fz n root p fl rs).
Proof.
  induction n as [|m IH]; cbn [openat2_retry]; [constructor; hnf; reflexivity|].
  eapply bal_bind; [apply w_openat2_bal|]. intros [fd|e] o1 Ho1; [constructor; exact Ho1|].
  hnf in Ho1. destruct (N.eqb e EAGAIN); [|constructor; exact Ho1].
  eapply bal_perm; [apply perm_closed_Rfd|exact IH|apply Permutation_sym, Ho1].
Qed.

Lemma openat2_resolve_bal root p fl rf o : bal (Rfd o) o (openat2_resolve fz cfg root p fl rf).
Proof.
  unfold openat2_resolve, os. destruct (negb cfg); [constructor; hnf; reflexivity|].
  destruct (N.eqb PROCFS_OPENAT2_RETRIES 0); [apply bal_map_err_fd, w_openat2_bal|apply openat2_retry_bal].
Qed.

(* the walk owns [cur] on entry and hands on exactly one descriptor (or none) *)
Lemma pwalk_body_bal m fl rf follow o :
  (forall go, follow = Some go -> forall cur cs oo, Permutation oo (cur :: o) -> bal (Rfd o) oo (go cur cs)) ->
  forall cs cur oo, Permutation oo (cur :: o) -> bal (Rfd o) oo (pwalk_body fz m fl rf follow cur cs).
Proof.
  intros Hgo cs. induction cs as [|part0 rest IH]; intros cur oo Hoo; cbn [pwalk_body].
  - constructor. exact Hoo.
  - set (part := if is_nil part0 then [DOT] else part0).
    destruct (is_dotdot part).
    { apply close_ret_bal with (o' := o); [apply perm_closed_Rfd|exact Hoo|hnf; reflexivity]. }
    unfold os.
    eapply bal_bind; [apply bal_map_err_fd, w_openat_bal|]. intros r o1 Ho1. hnf in Ho1.
    destruct r as [next|e].
    2: { apply close_ret_bal with (o' := o); [apply perm_closed_Rfd| |hnf; reflexivity].
         eapply perm_trans; [exact Ho1|exact Hoo]. }
    assert (H1 : Permutation o1 (next :: cur :: o)).
    { eapply perm_trans; [exact Ho1|]. apply perm_skip, Hoo. }
    assert (Hfail : forall e, bal (@Rfd ekind o) o1 (close next ;;; close cur ;;; Ret (Err e))).
    { intro e. apply close_then_bal with (o' := cur :: o); [apply perm_closed_Rfd|exact H1|].
      apply close_ret_bal with (o' := o); [apply perm_closed_Rfd|reflexivity|hnf; reflexivity]. }
    eapply bal_bind_same; [apply perm_closed_Rfd|apply verify_same_mnt_bal|]. intros [u|e]; [|apply Hfail].
    eapply bal_bind_same; [apply perm_closed_Rfd|apply bal_map_err_same, w_fstatat_bal|]. intros [meta|e]; [|apply Hfail].
    assert (Hcont : bal (@Rfd ekind o) o1
      (if negb (is_symlink_mode (st_mode meta)) then close cur;;; pwalk_body fz m fl rf follow next rest
       else if has rf RESOLVE_NO_SYMLINKS then close next;;; close cur;;; Ret (Err (OsError ELOOP))
       else match follow with
            | None => close next;;; close cur;;; Ret (Err (OsError ELOOP))
            | Some go =>
                r <- map_err OsError (w_readlinkat fz next []) ;;
                match r with
                | Err e => close next;;; close cur;;; Ret (Err e)
                | Ok target =>
                    if is_abs target then close next;;; close cur;;; Ret (Err (OsError ELOOP))
                    else close next;;; go cur (raw_components target ++ rest)
                end
            end)).
    { destruct (negb (is_symlink_mode (st_mode meta))).
      - apply close_then_bal with (o' := next :: o); [apply perm_closed_Rfd| |apply IH; reflexivity].
        eapply perm_trans; [exact H1|apply perm_swap].
      - destruct (has rf RESOLVE_NO_SYMLINKS); [apply Hfail|].
        destruct follow as [go|]; [|apply Hfail].
        eapply bal_bind_same; [apply perm_closed_Rfd|apply bal_map_err_same, w_readlinkat_bal|].
        intros [target|e]; [|apply Hfail].
        destruct (is_abs target); [apply Hfail|].
        apply close_then_bal with (o' := cur :: o); [apply perm_closed_Rfd|exact H1|].
        eapply Hgo; [reflexivity|reflexivity]. }
    destruct (is_nil rest && negb (N.eqb (N.land fl PROCFS_CASE1_MASK) PROCFS_CASE1_VALUE)); [|exact Hcont].
    eapply bal_bind; [apply w_openat_bal|]. intros r4 o2 Ho2.
    destruct r4 as [final|e].
    + assert (H2 : Permutation o2 (final :: next :: cur :: o)).
      { eapply perm_trans; [exact Ho2|apply perm_skip, H1]. }
      eapply bal_bind_same; [apply perm_closed_Rfd|apply verify_same_mnt_bal|]. intros [u2|e].
      * apply close_then_bal with (o' := final :: cur :: o); [apply perm_closed_Rfd| |].
        { eapply perm_trans; [exact H2|apply perm_swap]. }
        apply close_ret_bal with (o' := final :: o); [apply perm_closed_Rfd|apply perm_swap|hnf; reflexivity].
      * apply close_then_bal with (o' := next :: cur :: o); [apply perm_closed_Rfd|exact H2|].
        apply close_then_bal with (o' := cur :: o); [apply perm_closed_Rfd|reflexivity|].
        apply close_ret_bal with (o' := o); [apply perm_closed_Rfd|reflexivity|hnf; reflexivity].
    + eapply bal_perm; [apply perm_closed_Rfd| |apply Permutation_sym, Ho2].
      destruct (_ || _); [apply Hfail|exact Hcont].
Qed.

Lemma pwalk_bal budget m fl rf o : forall cs cur oo,
  Permutation oo (cur :: o) -> bal (Rfd o) oo (pwalk fz budget m fl rf cur cs).
Proof.
  induction budget as [|bd IH]; intros cs cur oo Hoo; cbn [pwalk].
  - apply pwalk_body_bal; [discriminate|exact Hoo].
  - apply pwalk_body_bal; [|exact Hoo].
    intros go Hgo. destruct bd; [discriminate|]. inversion Hgo; subst. intros; apply IH; assumption.
Qed.

Lemma opath_resolve_bal root p fl rf o : bal (Rfd o) o (opath_resolve fz root p fl rf).
Proof.
  unfold opath_resolve, os.
  apply bal_bindR_same; [apply perm_closed_Rfd|apply fetch_mnt_id_bal| |intro; hnf; reflexivity]. intro m.
  unfold bindR. eapply bal_bind; [apply bal_map_err_fd, dup_cloexec_bal|]. intros [cur|e] o1 Ho1.
  - apply pwalk_bal. exact Ho1.
  - constructor. exact Ho1.
Qed.

Lemma presolve_bal use root p fl rf o : bal (Rfd o) o (presolve fz cfg use root p fl rf).
Proof.
  unfold presolve. destruct (procfs_flags_invalid fl); [constructor; hnf; reflexivity|].
  destruct use; [apply openat2_resolve_bal|apply opath_resolve_bal].
Qed.

Lemma into_path_bal root base o : bal (Rsame o) o (into_path fz root base).
Proof.
  destruct base; cbn [into_path]; try (constructor; hnf; reflexivity).
  apply bal_neutral_call; [neutral_solve|]. intro rt.
  generalize (thread_self_cands (as_num rt)). intro cands.
  induction cands as [|c rest IH]; [constructor|].
  eapply bal_bind_same; [apply perm_closed_Rsame|apply w_fstatat_bal|].
  intros [s|e]; [constructor; hnf; reflexivity|exact IH].
Qed.

(* a constructed handle owns exactly its descriptor *)
Definition Rph {E} (o : list Z) : result phandle E -> list Z -> Prop :=
  fun r o' => Permutation o' (match r with Ok h => ph_fd h :: o | Err _ => o end).
Lemma perm_closed_Rph {E} o : perm_closed (@Rph E o).
Proof. intros a o1 o2 H Hp. unfold Rph in *. eapply perm_trans; [apply Permutation_sym, Hp|exact H]. Qed.

Lemma try_from_fd_bal inner o oo :
  Permutation oo (inner :: o) -> bal (Rph o) oo (try_from_fd fz cfg inner).
Proof.
  intro Hoo. unfold try_from_fd.
  assert (Hcl : forall e, bal (@Rph ekind o) oo (close inner ;;; Ret (Err e))).
  { intro e. apply close_ret_bal with (o' := o); [apply perm_closed_Rph|exact Hoo|hnf; reflexivity]. }
  eapply bal_bind_same; [apply perm_closed_Rph|apply verify_is_procfs_bal|]. intros [u|e]; [|apply Hcl].
  eapply bal_bind_same; [apply perm_closed_Rph|apply w_fstatat_bal|]. intros [meta|e].
  2: { destruct TRY_FROM_FD_FSTAT_PANICS; [constructor|apply Hcl]. }
  destruct (negb _); [apply Hcl|].
  eapply bal_bind_same; [apply perm_closed_Rph|apply fetch_mnt_id_bal|]. intros [mnt|e]; [|apply Hcl].
  generalize SUBSET_PROBES. intro ps. induction ps as [|p rest IH]; [constructor; exact Hoo|].
  apply bal_neutral_call; [neutral_solve|]. intro r.
  destruct (as_unit r); [exact IH|constructor; exact Hoo].
Qed.

Lemma new_fsopen_bal subset o : bal (Rph o) o (new_fsopen fz cfg subset).
Proof.
  unfold new_fsopen, os.
  unfold bindR at 1. eapply bal_bind.
  { apply bal_map_err_fd. unfold w_fsopen. constructor; [intros ? E; discriminate|]. intros r _.
    cbn [step_owned opens]. constructor. instantiate (1 := o). hnf. destruct (as_fd r); reflexivity. }
  intros [sfd|e] o1 Ho1; [|constructor; exact Ho1].
  assert (Hcl : forall e, bal (@Rph ekind o) o1 (close sfd ;;; Ret (Err e))).
  { intro e. apply close_ret_bal with (o' := o); [apply perm_closed_Rph|exact Ho1|hnf; reflexivity]. }
  eapply bal_bind_same; [apply perm_closed_Rph| |].
  { destruct subset; [|constructor; hnf; reflexivity].
    assert (Hs : forall k v, bal (Rsame o1) o1 (w_fsconfig_set_string fz sfd k v)).
    { intros k v. unfold w_fsconfig_set_string. destruct (negb (valid_fd sfd)); [constructor; hnf; reflexivity|].
      apply bal_neutral_call; [neutral_solve|]. intro r.
      destruct (as_unit r); [constructor; hnf; reflexivity|apply fail1_bal; [apply perm_closed_Rsame|hnf; reflexivity]]. }
    eapply bal_bind_same; [apply perm_closed_Rsame|apply Hs|]. intro.
    eapply bal_bind_same; [apply perm_closed_Rsame|apply Hs|]. intro. constructor; hnf; reflexivity. }
  intro.
  eapply bal_bind_same; [apply perm_closed_Rph| |].
  { apply bal_map_err_same. unfold w_fsconfig_create. destruct (negb (valid_fd sfd)); [constructor; hnf; reflexivity|].
    apply bal_neutral_call; [neutral_solve|]. intro r.
    destruct (as_unit r); [constructor; hnf; reflexivity|apply fail1_bal; [apply perm_closed_Rsame|hnf; reflexivity]]. }
  intros [u|e]; [|apply Hcl].
  eapply bal_bind.
  { apply bal_map_err_fd. instantiate (1 := o1). unfold w_fsmount.
    destruct (negb (valid_fd sfd)); [constructor; hnf; reflexivity|].
    constructor; [intros ? E; discriminate|]. intros r _. cbn [step_owned opens].
    destruct (as_fd r) as [k|e]; cbn [app]; [constructor; hnf; reflexivity|].
    apply fail1_bal; [apply perm_closed_Rfd|hnf; reflexivity]. }
  intros [mfd|e] o2 Ho2.
  2: { eapply bal_perm; [apply perm_closed_Rph|apply Hcl|apply Permutation_sym, Ho2]. }
  assert (H2 : Permutation o2 (mfd :: sfd :: o)) by (eapply perm_trans; [exact Ho2|apply perm_skip, Ho1]).
  eapply bal_bind; [apply (try_from_fd_bal mfd (sfd :: o)); exact H2|]. intros r o3 Ho3.
  hnf in Ho3. destruct r as [h|e].
  - apply close_ret_bal with (o' := ph_fd h :: o); [apply perm_closed_Rph| |hnf; reflexivity].
    eapply perm_trans; [exact Ho3|apply perm_swap].
  - apply close_ret_bal with (o' := o); [apply perm_closed_Rph|exact Ho3|hnf; reflexivity].
Qed.

Lemma new_open_tree_bal fl o : bal (Rph o) o (new_open_tree fz cfg fl).
Proof.
  unfold new_open_tree, os. unfold bindR. eapply bal_bind.
  { apply bal_map_err_fd. instantiate (1 := o). unfold w_open_tree.
    destruct (negb (valid_fd AT_FDCWD)); [constructor; hnf; reflexivity|].
    unfold rustix_path. destruct (has_nul _); [apply fail1_bal; [apply perm_closed_Rfd|hnf; reflexivity]|].
    constructor; [intros ? E; discriminate|]. intros r _. cbn [step_owned opens].
    destruct (as_fd r) as [k|e]; cbn [app]; [constructor; hnf; reflexivity|].
    apply fail1_bal; [apply perm_closed_Rfd|hnf; reflexivity]. }
  intros [fd|e] o1 Ho1; [apply try_from_fd_bal; exact Ho1|constructor; exact Ho1].
Qed.

Lemma new_unsafe_open_bal o : bal (Rph o) o (new_unsafe_open fz cfg).
Proof.
  unfold new_unsafe_open, os. unfold bindR. eapply bal_bind; [apply bal_map_err_fd, w_openat_bal|].
  intros [fd|e] o1 Ho1; [apply try_from_fd_bal; exact Ho1|constructor; exact Ho1].
Qed.

Lemma or_else_bal {A} (R : result A ekind -> list Z -> Prop) o (p q : prog (result A ekind)) :
  perm_closed R -> (forall e, R (Err e) o) ->
  bal (fun r o' => match r with Ok _ => R r o' | Err _ => Permutation o' o end) o p -> bal R o q ->
  bal R o (or_else p q).
Proof.
  intros HR He Hp Hq. unfold or_else. eapply bal_bind; [exact Hp|]. intros [a|e] o' Ho'.
  - constructor. exact Ho'.
  - eapply bal_perm; [exact HR|exact Hq|apply Permutation_sym, Ho'].
Qed.

Lemma Rph_split o (p : prog (result phandle ekind)) :
  bal (Rph o) o p ->
  bal (fun r o' => match r with Ok _ => Rph o r o' | Err _ => Permutation o' o end) o p.
Proof. intro H. eapply bal_weaken; [exact H|]. intros [h|e] o' Ho'; exact Ho'. Qed.

Lemma procfs_new_unmasked_bal o : bal (Rph o) o (procfs_new_unmasked fz cfg).
Proof.
  unfold procfs_new_unmasked.
  apply or_else_bal; [apply perm_closed_Rph|intro; hnf; reflexivity| |apply new_unsafe_open_bal].
  apply Rph_split. apply or_else_bal; [apply perm_closed_Rph|intro; hnf; reflexivity| |apply new_open_tree_bal].
  apply Rph_split, new_fsopen_bal.
Qed.

Lemma procfs_new_bal o : bal (Rph o) o (procfs_new fz cfg).
Proof.
  unfold procfs_new.
  apply or_else_bal; [apply perm_closed_Rph|intro; hnf; reflexivity| |apply new_unsafe_open_bal].
  apply Rph_split. apply or_else_bal; [apply perm_closed_Rph|intro; hnf; reflexivity| |apply new_open_tree_bal].
  apply Rph_split, new_fsopen_bal.
Qed.

Lemma open_base_bal h base o : bal (Rfd o) o (open_base fz cfg h base).
Proof.
  unfold open_base.
  eapply bal_bind_same; [apply perm_closed_Rfd|apply into_path_bal|]. intro p.
  unfold bindR. eapply bal_bind; [apply presolve_bal|]. intros [fd|e] o1 Ho1; [|constructor; exact Ho1].
  eapply bal_bind_same; [apply perm_closed_Rfd|apply verify_same_procfs_mnt_bal|].
  intros [u|e]; [constructor; exact Ho1|].
  apply close_ret_bal with (o' := o); [apply perm_closed_Rfd|exact Ho1|hnf; reflexivity].
Qed.

Lemma popen_bal fuel : forall h base sub fl o, bal (Rfd o) o (popen fz cfg fuel h base sub fl).
Proof.
  induction fuel as [|f IH]; intros h base sub fl o; cbn [popen]; [constructor|].
  unfold bindR at 1. eapply bal_bind; [apply open_base_bal|]. intros [basedir|e] o1 Ho1; [|constructor; exact Ho1].
  (* everything below runs owning basedir :: o and yields Rfd (basedir :: o) *)
  eapply bal_bind; [apply (presolve_bal (ph_openat2 h) basedir sub _ 0 o1)|]. intros r o2 Ho2.
  eapply bal_bind.
  { instantiate (1 := Rfd o1). destruct r as [fd|e]; [|constructor; exact Ho2].
    eapply bal_bind_same; [apply perm_closed_Rfd|apply verify_same_procfs_mnt_bal|].
    intros [u|e]; [constructor; exact Ho2|].
    apply close_ret_bal with (o' := o1); [apply perm_closed_Rfd|exact Ho2|hnf; reflexivity]. }
  intros r2 o3 Ho3.
  eapply bal_bind.
  { instantiate (1 := Rfd o1). destruct r2 as [fd|e]; [constructor; exact Ho3|]. hnf in Ho3.
    eapply bal_perm; [apply perm_closed_Rfd| |apply Permutation_sym, Ho3].
    destruct (ph_subset h && ekind_is_enoent e); [|constructor; hnf; reflexivity].
    eapply bal_bind; [apply procfs_new_unmasked_bal|]. intros [h'|e'] o4 Ho4; [|constructor; exact Ho4].
    destruct (RETRY_ONLY_UNMASKED && ph_subset h').
    { hnf in Ho4. apply close_ret_bal with (o' := o1); [apply perm_closed_Rfd|exact Ho4|hnf; reflexivity]. }
    eapply bal_bind; [apply (IH h' base sub _ o4)|]. intros r' o5 Ho5. hnf in Ho4, Ho5.
    destruct r' as [fd'|e''].
    - apply close_ret_bal with (o' := fd' :: o1); [apply perm_closed_Rfd| |hnf; reflexivity].
      eapply perm_trans; [exact Ho5|]. eapply perm_trans; [apply perm_skip, Ho4|apply perm_swap].
    - apply close_ret_bal with (o' := o1); [apply perm_closed_Rfd| |hnf; reflexivity].
      eapply perm_trans; [exact Ho5|exact Ho4]. }
  intros r3 o6 Ho6. hnf in Ho6. destruct r3 as [fd|e].
  - apply close_ret_bal with (o' := fd :: o); [apply perm_closed_Rfd| |hnf; reflexivity].
    eapply perm_trans; [exact Ho6|]. eapply perm_trans; [apply perm_skip, Ho1|apply perm_swap].
  - apply close_ret_bal with (o' := o); [apply perm_closed_Rfd| |hnf; reflexivity].
    eapply perm_trans; [exact Ho6|exact Ho1].
Qed.

Lemma preadlink_bal fuel h base sub o : bal (Rsame o) o (preadlink fz cfg fuel h base sub).
Proof.
  unfold preadlink, os. unfold bindR. eapply bal_bind; [apply popen_bal|].
  intros [link|e] o1 Ho1; [|constructor; exact Ho1].
  eapply bal_bind_same; [apply perm_closed_Rsame|apply bal_map_err_same, w_readlinkat_bal|]. intro r.
  apply close_ret_bal with (o' := o); [apply perm_closed_Rsame|exact Ho1|hnf; reflexivity].
Qed.

Lemma popen_follow_bal fuel h base sub fl o : bal (Rfd o) o (popen_follow fz cfg fuel h base sub fl).
Proof.
  unfold popen_follow. destruct (negb _ && _); [constructor; hnf; apply Permutation_refl|].
  destruct (path_strip_trailing_slash sub) as [sub' ts].
  destruct (OPEN_FOLLOW_REFUSAL_AFTER_SLASH && _); [constructor; hnf; apply Permutation_refl|].
  eapply bal_bind_same; [apply perm_closed_Rfd|apply preadlink_bal|].
  intros [bs|e]; [|destruct (_ && negb _); [constructor; hnf; apply Permutation_refl|apply popen_bal]].
  destruct (path_split sub') as [[[parent [trailing|]]|e]|].
  2: { constructor. hnf. apply Permutation_refl. }
  2: { constructor. hnf. apply Permutation_refl. }
  2: { constructor. }
  unfold bindR. eapply bal_bind; [apply popen_bal|]. intros [pfd|e] o1 Ho1; [|constructor; exact Ho1].
  assert (Hcl : forall e, bal (@Rfd ekind o) o1 (close pfd ;;; Ret (Err e))).
  { intro e. apply close_ret_bal with (o' := o); [apply perm_closed_Rfd|exact Ho1|hnf; reflexivity]. }
  eapply bal_bind_same; [apply perm_closed_Rfd|apply fetch_mnt_id_bal|]. intros [pm|e]; [|apply Hcl].
  eapply bal_bind_same; [apply perm_closed_Rfd|apply verify_same_mnt_bal|]. intros [u|e]; [|apply Hcl].
  unfold os. eapply bal_bind; [apply bal_map_err_fd, w_openat_follow_bal|]. intros r o2 Ho2. hnf in Ho2.
  destruct r as [fd|e].
  - apply close_ret_bal with (o' := fd :: o); [apply perm_closed_Rfd| |hnf; reflexivity].
    eapply perm_trans; [exact Ho2|]. eapply perm_trans; [apply perm_skip, Ho1|apply perm_swap].
  - apply close_ret_bal with (o' := o); [apply perm_closed_Rfd| |hnf; reflexivity].
    eapply perm_trans; [exact Ho2|exact Ho1].
Qed.

Lemma reopen_bal fuel gh fd fl o : bal (Rfd o) o (reopen fz cfg fuel gh fd fl).
Proof.
  unfold reopen, os. apply bal_bindR_same; [apply perm_closed_Rfd|apply bal_map_err_same, w_fstatat_bal| |intro; hnf; reflexivity].
  intro meta. destruct (is_symlink_mode _); [constructor; hnf; reflexivity|].
  destruct (proc_subpath fd); [apply popen_follow_bal|constructor; hnf; reflexivity].
Qed.

Lemma as_unsafe_path_bal fuel gh fd o : bal (Rsame o) o (as_unsafe_path fz cfg fuel gh fd).
Proof.
  unfold as_unsafe_path. destruct (proc_subpath fd); [apply preadlink_bal|constructor; hnf; reflexivity].
Qed.

Lemma is_magiclink_filesystem_bal fd o : bal (Rsame o) o (is_magiclink_filesystem fz fd).
Proof.
  unfold is_magiclink_filesystem, os.
  apply bal_bindR_same; [apply perm_closed_Rsame|apply bal_map_err_same, w_fstatfs_bal| |intro; hnf; reflexivity].
  intro. constructor; hnf; reflexivity.
Qed.

End ProcfsBal.
