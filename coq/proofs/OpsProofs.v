(* OpsProofs.v -- shape of the Root operations: C03 / C04 / C12 / C13 / C14. *)
From PV Require Import Discipline ProgTac BitsProofs PathProofs DisciplineProofs OpathDisc RootDisc FaultProofs.
Open Scope N_scope.

Arguments N.eqb : simpl never.
Arguments N.lor : simpl never.
Arguments N.land : simpl never.
Arguments N.ldiff : simpl never.

Section Ops.
Variable fz : nat.
Variable cfg : bool.
Variable pfuel : nat.
Variable gh : phandle.
Variable ps : N.

Notation pan := (parent_and_name fz cfg pfuel gh ps).
Notation rres := (r_resolve fz cfg pfuel gh ps).

(* ---- (in-root parent, final name) ------------------------------------------------- *)

(* resolve_parent + the name check, spelled out: the parent is the in-root
   resolution (following links) of everything before the last '/', the name is
   the last component; a path without a final name (empty, or ending in '/') is
   an InvalidArgument -- after the parent was resolved and closed again *)
Theorem parent_and_name_shape rs root path :
  match path_split path with
  | Some (Ok (dirp, Some name)) =>
      peq (pan rs root path) (dir <-? rres rs root dirp false ;; Ret (Ok (dir, name)))
      /\ name <> [] /\ has_slash name = false
  | Some (Ok (dirp, None)) =>
      peq (pan rs root path) (dir <-? rres rs root dirp false ;; close dir ;;; Ret (Err InvalidArgument))
      /\ (path = [] \/ exists q, path = q ++ [SLASH])
  | _ => False
  end.
Proof.
  destruct (path_split path) as [[[dirp [name|]]|e]|] eqn:Hsp.
  - split.
    + unfold parent_and_name, resolve_parent. rewrite Hsp. unfold bindR.
      eapply peq_trans; [apply bind_assoc|]. apply peq_bind; [apply peq_refl|].
      intros [dir|e]; cbn; apply peq_refl.
    + exact (path_split_name_single _ _ _ Hsp).
  - split.
    + unfold parent_and_name, resolve_parent. rewrite Hsp. unfold bindR.
      eapply peq_trans; [apply bind_assoc|]. apply peq_bind; [apply peq_refl|].
      intros [dir|e]; cbn; apply peq_refl.
    + exact (path_split_noname _ _ Hsp).
  - exact (path_split_never_err _ _ Hsp).
  - exact (path_split_total _ Hsp).
Qed.

(* a path without a final name (trailing slash, or empty): the whole operation is
   "resolve the parent, close it, InvalidArgument" -- no other system call, for any
   continuation K (create, create_file, remove_*, rename, remove_all) *)
Theorem no_name_refused {B} (K : Z * bytes -> prog (result B ekind)) rs root path dirp :
  path_split path = Some (Ok (dirp, None)) ->
  peq (dn <-? pan rs root path ;; K dn)
      (dir <-? rres rs root dirp false ;; close dir ;;; Ret (Err InvalidArgument)).
Proof.
  intro Hsp. unfold parent_and_name, resolve_parent. rewrite Hsp. unfold bindR.
  eapply peq_trans; [apply bind_assoc|].
  eapply peq_trans; [apply bind_assoc|].
  apply peq_bind; [apply peq_refl|].
  intros [dir|e]; cbn; [|apply peq_refl].
  constructor. intro r. cbn. apply peq_refl.
Qed.

(* mkdir_all: mode bits outside 0o1777 are an InvalidArgument, before any system call *)
Theorem mkdir_all_mode_checked rs root path mode :
  N.ldiff mode 1023 <> 0 ->
  root_mkdir_all fz cfg pfuel gh ps rs root path mode = Ret (Err InvalidArgument).
Proof.
  intro H. unfold root_mkdir_all.
  destruct (negb (N.eqb (N.ldiff mode MKDIR_ALL_MASK1) 0)); [reflexivity|].
  assert (E : N.eqb (N.ldiff mode MKDIR_ALL_MASK2) 0 = false).
  { apply N.eqb_neq. exact H. }
  rewrite E. reflexivity.
Qed.

End Ops.

(* remove_all refuses "." and ".." (and names containing '/') before touching anything *)
Theorem remove_all_dots_refused fz fuel dirfd name :
  dot_or_dotdot name = true -> has_slash name = false ->
  remove_all fz (S fuel) dirfd name = Ret (Err InvalidArgument).
Proof.
  intros Hd Hs. cbn [remove_all]. rewrite Hs.
  assert (E : REMOVE_ALL_REFUSES_DOTS = true) by reflexivity. rewrite E, Hd. reflexivity.
Qed.

Theorem remove_all_slash_refused fz fuel dirfd name :
  has_slash name = true -> remove_all fz (S fuel) dirfd name = Ret (Err SafetyViolation).
Proof. intro Hs. cbn [remove_all]. rewrite Hs. reflexivity. Qed.
