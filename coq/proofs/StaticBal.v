(* StaticBal.v -- what the balance judgement (C11, for all answers) means on the static
   kernel of theories/Static.v, whose answers are particular ones: a program that is
   balanced leaves every descriptor that was open before it started bound to what it was
   bound to, and the descriptors open afterwards are the old ones plus the ones the
   judgement says it returns owning.  Used by StaticEffects for the operations that
   resolve two parents (rename, hard links): the first parent's descriptor survives the
   second walk. *)
From PV Require Import Static PathProofs StaticProofs FdBalance FdBalProofs.
From Coq Require Import Permutation Lia.
Open Scope N_scope.

Section SB.
Variable s : fs.
Variable rp : bytes.

(* the static kernel never answers an opening call with a descriptor number out of thin air *)
Lemma sem_ret_opens t c r : sem s rp t c = SRet r -> opens c r = [].
Proof.
  destruct c; try (intros _; reflexivity); intro E; unfold sem, ord_open in E;
    repeat match type of E with
           | context [match ?x with _ => _ end] => destruct x
           end; inversion E; subst; reflexivity.
Qed.

Lemma answer_opens t c : forall n, In n (opens c (snd (answer s rp t c))) -> n = fresh t.
Proof.
  intros n. unfold answer. destruct (sem s rp t c) as [ob|r|fd] eqn:E; cbn [snd].
  - intro Hn. destruct c; cbn [opens as_fd] in Hn; try (cbn [In] in Hn; contradiction);
      destruct (Z.leb 0 (fresh t)); cbn [In] in Hn; try contradiction; destruct Hn as [H|[]]; symmetry; exact H.
  - rewrite (sem_ret_opens _ _ _ E). intros [].
  - intro Hn. destruct c; cbn [opens as_fd] in Hn; try (cbn [In] in Hn; contradiction);
      exfalso; unfold sem, ord_open in E;
      repeat match type of E with
             | context [match ?x with _ => _ end] => destruct x
             end; discriminate.
Qed.

Lemma answer_table t c :
  fst (answer s rp t c) = match sem s rp t c with
                          | SNew ob => (fresh t, ob) :: t
                          | SRet _ => t
                          | SClose fd => tdel t fd
                          end.
Proof. unfold answer. destruct (sem s rp t c); reflexivity. Qed.

Lemma sem_close t c fd : sem s rp t c = SClose fd -> c = Close fd.
Proof.
  destruct c; try (cbn [sem]; intro E; inversion E; reflexivity);
    unfold sem, ord_open; repeat match goal with
                       | |- context [match ?x with _ => _ end] => destruct x
                       end; intro E; discriminate.
Qed.

Lemma sem_new_opens t c ob : sem s rp t c = SNew ob -> opens c (RFd (fresh t)) = [fresh t].
Proof.
  intro E. pose proof (fresh_ge3 t) as H3.
  assert (Hfd : as_fd (RFd (fresh t)) = Ok (fresh t)) by (cbn [as_fd]; destruct (Z.leb_spec 0 (fresh t)); [reflexivity|lia]).
  destruct c; cbn [opens]; try (rewrite Hfd; reflexivity);
    exfalso; revert E; unfold sem, ord_open;
    repeat match goal with
           | |- context [match ?x with _ => _ end] => destruct x
           end; intro E; discriminate.
Qed.

Definition indom (t : fdt) (fd : Z) : Prop := tfind t fd <> None.

Lemma indom_fresh t : ~ indom t (fresh t).
Proof.
  unfold indom. intro H. destruct (tfind t (fresh t)) as [ob|] eqn:E; [|contradiction].
  apply tfind_in, fresh_gt in E. lia.
Qed.

Lemma remove_one_nodup x l : NoDup l -> NoDup (remove_one x l) /\ ~ In x (remove_one x l) /\
                                        (forall y, In y (remove_one x l) -> In y l) /\
                                        (forall y, In y l -> y <> x -> In y (remove_one x l)).
Proof.
  induction l as [|y t IH]; intro Hnd; cbn [remove_one].
  - split; [constructor|split; [intros []|split; [intros z []|intros z []]]].
  - inversion Hnd as [|? ? Hny Hnt]; subst. destruct (Z.eqb_spec x y) as [->|Hne].
    + split; [exact Hnt|split; [exact Hny|split]].
      * intros z Hz. right. exact Hz.
      * intros z [->|Hz] Hzy; [contradiction|exact Hz].
    + destruct (IH Hnt) as (H1 & H2 & H3 & H4). split; [|split; [|split]].
      * constructor; [intro Hin; apply Hny, H3, Hin|exact H1].
      * intros [E|Hin]; [congruence|contradiction].
      * intros z [->|Hz]; [left; reflexivity|right; apply H3, Hz].
      * intros z [->|Hz] Hzx; [left; reflexivity|right; apply H4; assumption].
Qed.

Lemma tfind_cons_other t f ob fd : f <> fd -> tfind ((f, ob) :: t) fd = tfind t fd.
Proof. intro H. cbn [tfind]. destruct (Z.eqb_spec f fd); [contradiction|reflexivity]. Qed.

Lemma tfind_del_same t fd : tfind (tdel t fd) fd = None.
Proof.
  induction t as [|[f ob] t IH]; [reflexivity|]. cbn [tdel filter fst].
  destruct (Z.eqb_spec f fd) as [->|Hf]; cbn [negb]; [exact IH|].
  cbn [tfind]. destruct (Z.eqb_spec f fd); [contradiction|exact IH].
Qed.

(* the meaning of [bal] on a run of the static kernel *)
Theorem bal_run {A} (R : A -> list Z -> Prop) (p : prog A) : forall o t t' a,
  bal R o p -> run s rp t p = Done t' a ->
  NoDup o -> (forall n, In n o -> indom t n) ->
  exists o', R a o' /\ NoDup o' /\ (forall n, In n o' -> indom t' n) /\
    (* descriptors that were open and not the operation's own are what they were *)
    (forall fd, indom t fd -> ~ In fd o -> tfind t' fd = tfind t fd) /\
    (* and nothing else is open afterwards than those and what the operation owns *)
    (forall fd, indom t' fd -> (indom t fd /\ ~ In fd o) \/ In fd o').
Proof.
  intros o t t' a Hb. revert t. induction Hb as [a0 o Ha | c k o Hc Hk IH | st o | o]; intros t Hrun Hnd Hdom.
  - cbn [run] in Hrun. inversion Hrun; subst. exists o. repeat split; auto.
    intros fd Hin. destruct (in_dec Z.eq_dec fd o) as [Hi|Hni]; [right; exact Hi|left; split; assumption].
  - cbn [run] in Hrun. destruct (answer s rp t c) as [t1 r] eqn:Ea.
    pose proof (answer_opens t c) as Hop. pose proof (answer_table t c) as Htab. rewrite Ea in Hop, Htab. cbn [fst snd] in Hop, Htab.
    assert (Hfr : fresh_for o c r).
    { intros n Hn Hin. rewrite (Hop n Hn) in Hin. exact (indom_fresh t (Hdom _ Hin)). }
    (* the owned set and the table after this call *)
    assert (Hstep : NoDup (step_owned o c r) /\ (forall n, In n (step_owned o c r) -> indom t1 n) /\
                    (forall fd, indom t fd -> ~ In fd o -> tfind t1 fd = tfind t fd /\ ~ In fd (step_owned o c r)) /\
                    (forall fd, indom t1 fd -> (indom t fd /\ ~ In fd o) \/ In fd (step_owned o c r))).
    { destruct (sem s rp t c) as [ob|r0|fd0] eqn:Es.
      - (* a new descriptor *)
        assert (Hr : r = RFd (fresh t)) by (unfold answer in Ea; rewrite Es in Ea; inversion Ea; reflexivity). subst r t1.
        assert (Hnc : forall fd, c <> Close fd) by (intros fd E; subst c; cbn [sem] in Es; discriminate).
        assert (Hso : step_owned o c (RFd (fresh t)) = fresh t :: o).
        { destruct c; cbn [step_owned]; try (rewrite (sem_new_opens _ _ _ Es); reflexivity). exfalso. exact (Hnc fd eq_refl). }
        rewrite Hso. repeat split.
        + constructor; [intro Hin; exact (indom_fresh t (Hdom _ Hin))|exact Hnd].
        + intros n [<-|Hin]; unfold indom; [cbn [tfind]; rewrite Z.eqb_refl; discriminate|].
          rewrite tfind_cons_other; [exact (Hdom _ Hin)|]. intro E. subst n. exact (indom_fresh t (Hdom _ Hin)).
        + apply tfind_cons_other. intro E. subst fd. exact (indom_fresh t H).
        + intros [E|Hin]; [subst fd; exact (indom_fresh t H)|contradiction].
        + intros fd Hin. destruct (Z.eq_dec (fresh t) fd) as [<-|Hne]; [right; left; reflexivity|].
          unfold indom in Hin. rewrite (tfind_cons_other _ _ _ _ Hne) in Hin.
          destruct (in_dec Z.eq_dec fd o) as [Hi|Hni]; [right; right; exact Hi|left; split; assumption].
      - (* no change *)
        assert (Hr : r = r0) by (unfold answer in Ea; rewrite Es in Ea; inversion Ea; reflexivity). subst r0 t1.
        assert (Hso : step_owned o c r = o).
        { destruct c; cbn [step_owned]; try (rewrite (sem_ret_opens _ _ _ Es); reflexivity). cbn [sem] in Es. discriminate. }
        rewrite Hso. repeat split; auto.
        intros fd Hin. destruct (in_dec Z.eq_dec fd o) as [Hi|Hni]; [right; exact Hi|left; split; assumption].
      - (* close *)
        pose proof (sem_close _ _ _ Es) as Ec. subst c t1. cbn [step_owned].
        pose proof (Hc fd0 eq_refl) as Hmem. apply mem_in in Hmem.
        destruct (remove_one_nodup fd0 o Hnd) as (H1 & H2 & H3 & H4). repeat split.
        + exact H1.
        + intros n Hin. unfold indom. rewrite tfind_del_other; [exact (Hdom _ (H3 _ Hin))|]. intro E. subst n. exact (H2 Hin).
        + apply tfind_del_other. intro E. subst fd. contradiction.
        + intro Hin. apply H0, H3, Hin.
        + intros fd Hin. destruct (Z.eq_dec fd fd0) as [->|Hne]; [exfalso; apply Hin, tfind_del_same|].
          unfold indom in Hin. rewrite (tfind_del_other _ _ _ Hne) in Hin.
          destruct (in_dec Z.eq_dec fd o) as [Hi|Hni]; [right; apply H4; assumption|left; split; assumption]. }
    destruct Hstep as (Hnd1 & Hdom1 & Hkeep1 & Honly1).
    destruct (IH r Hfr t1 Hrun Hnd1 Hdom1) as (o' & HR & Hnd' & Hdom' & Hkeep' & Honly').
    exists o'. repeat split; auto.
    + intros fd Hin Hni. destruct (Hkeep1 fd Hin Hni) as [E1 Hn1].
      rewrite <- E1. apply Hkeep'; [unfold indom; rewrite E1; exact Hin|exact Hn1].
    + intros fd Hin. destruct (Honly' fd Hin) as [[Hin1 Hn1]|Ho']; [|right; exact Ho'].
      destruct (Honly1 fd Hin1) as [Hl|Hr']; [left; exact Hl|contradiction].
  - cbn [run] in Hrun. discriminate.
  - cbn [run] in Hrun. discriminate.
Qed.

End SB.
