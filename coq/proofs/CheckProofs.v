(* CheckProofs.v -- C02: what a passing check_current means.
   check_current (imp.rs:67-132) reads the kernel's rendering of the root
   descriptor and of the current descriptor (/proc/thread-self/fd/N) and compares
   PathBufs.  The theorem below says what that comparison establishes, for ALL
   byte strings: the current path consists of exactly the root path's components
   followed by the expected components.  Together with the kernel's d_path contract
   (the rendering is the true path of the object at that moment) and a root whose
   own path is not renamed, this is "the object is inside the root, at the place
   the walk believes it to be". *)
From PV Require Import OpathM PathProofs.
Open Scope N_scope.

Definition keep (c : bytes) : bool := negb (is_nil c || is_dot c).
(* the normalised component list of std::path::Path *)
Definition nf (p : bytes) : list bytes := filter keep (raw_components p).

Lemma list_beq_eq x y : list_beq x y = true -> x = y.
Proof.
  revert y. induction x as [|a x IH]; intros [|c y]; cbn [list_beq]; try discriminate; [reflexivity|].
  intro H. apply andb_true_iff in H as [H1 H2]. apply beq_true_iff in H1. subst. f_equal. apply IH, H2.
Qed.

Lemma path_eq_nf p q : path_eq p q = true -> nf p = nf q /\ is_abs p = is_abs q.
Proof.
  unfold path_eq, path_norm. intro H. apply andb_true_iff in H as [H Hl]. apply andb_true_iff in H as [Hr _].
  split; [apply list_beq_eq, Hl|]. apply Bool.eqb_prop, Hr.
Qed.

(* splitting at a separator *)
Lemma raw_components_slash a c :
  raw_components (a ++ SLASH :: c) = raw_components a ++ raw_components c.
Proof.
  induction a as [|x a IH]; cbn [app raw_components].
  - rewrite N.eqb_refl. reflexivity.
  - rewrite IH. destruct (N.eqb x SLASH); [reflexivity|].
    pose proof (raw_components_nonempty a) as Hne.
    destruct (raw_components a) as [|h t]; [contradiction|reflexivity].
Qed.

Lemma nf_slash a c : nf (a ++ SLASH :: c) = nf a ++ nf c.
Proof. unfold nf. rewrite raw_components_slash, filter_app. reflexivity. Qed.

(* a path that ends in a separator: the empty last component is dropped *)
Lemma nf_trailing a c : nf ((a ++ [SLASH]) ++ c) = nf (a ++ [SLASH]) ++ nf c.
Proof.
  rewrite <- app_assoc. cbn [app]. rewrite nf_slash. unfold nf at 3.
  rewrite raw_components_slash, filter_app. cbn [raw_components filter keep is_nil orb negb].
  rewrite app_nil_r. reflexivity.
Qed.

Lemma nf_nil : nf [] = [].
Proof. reflexivity. Qed.

(* PathBuf::push of relative components, as modelled by push_all *)
Lemma nf_push_all cs : forall acc, nf (push_all acc cs) = nf acc ++ concat (map nf cs).
Proof.
  induction cs as [|c t IH]; intro acc; cbn [push_all map concat]; [rewrite app_nil_r; reflexivity|].
  rewrite IH, app_assoc. f_equal.
  destruct (rev acc) as [|x l] eqn:Er.
  - assert (acc = []) by (destruct acc; [reflexivity|]; apply (f_equal (@length _)) in Er; cbn in Er; rewrite app_length in Er; cbn in Er; lia).
    subst. reflexivity.
  - assert (Ha : acc = rev l ++ [x]) by (rewrite <- (rev_involutive acc), Er; reflexivity).
    destruct (N.eqb_spec x SLASH) as [->|Hne].
    + rewrite Ha. apply nf_trailing.
    + apply nf_slash.
Qed.

(* a directory-entry name: not empty, no separator, not "." *)
Definition name_ok (c : bytes) : Prop := c <> [] /\ has_slash c = false /\ is_dot c = false.

Lemma nf_name c : name_ok c -> nf c = [c].
Proof.
  intros (Hne & Hsl & Hd). unfold nf. rewrite (raw_components_noslash_single c Hsl).
  cbn [filter]. unfold keep. rewrite Hd. destruct c; [contradiction|reflexivity].
Qed.

Lemma concat_nf_names exp : Forall name_ok exp -> concat (map nf exp) = exp.
Proof.
  induction 1 as [|c t Hc _ IH]; [reflexivity|]. cbn [map concat]. rewrite (nf_name c Hc), IH. reflexivity.
Qed.

(* the comparison check_current makes (imp.rs:93-108) *)
Theorem check_passes_means root_path cur_path exp :
  path_eq cur_path (push_all root_path ([DOT] :: exp)) = true ->
  Forall name_ok exp ->
  nf cur_path = nf root_path ++ exp.
Proof.
  intros H Hexp. apply path_eq_nf in H as [H _]. rewrite H, nf_push_all.
  cbn [map concat]. change (nf [DOT]) with (@nil bytes). cbn [app]. rewrite (concat_nf_names exp Hexp). reflexivity.
Qed.

(* ... and it really is the comparison check_current makes: with ANY routine [g]
   reading the kernel's rendering of a descriptor, the check passes only if the
   rendering of the current descriptor is root ++ expected and the root's
   rendering was the same before and after *)
Section Gen.
Variable g : Z -> prog (result bytes ekind).
Definition check_current_gen (current root : Z) (expected : list bytes) : prog (result unit ekind) :=
  root_path <-? g root ;;
  let full_path := push_all root_path ([DOT] :: expected) in
  current_path <-? g current ;;
  if negb (path_eq current_path full_path) then Ret (Err SafetyViolation) else
  new_root_path <-? g root ;;
  if negb (path_eq root_path new_root_path) then Ret (Err SafetyViolation) else
  Ret (Ok tt).
End Gen.

Lemma check_current_is_gen fz o2 pfuel gh cur root exp :
  check_current fz o2 pfuel gh cur root exp = check_current_gen (as_unsafe_path fz o2 pfuel gh) cur root exp.
Proof. reflexivity. Qed.

(* For all answers: the check passes only when the three renderings the kernel
   gave -- root, current, root again -- satisfy the two comparisons.  [g0] reads
   one rendering with a single call; as_unsafe_path does the same through the
   procfs handle (its own discipline is C05/C07). *)
From PV Require Import Hoare.

Definition g0 (fd : Z) : prog (result bytes ekind) :=
  Call (Readlink (dec (z2n fd))) (fun r => Ret (match as_bytes r with Ok bs => Ok bs | Err e => Err (OsError e) end)).

Theorem check_gen_sound cur root exp :
  spec (fun _ _ => True)
       (fun res h => res = Ok tt ->
          exists c1 c2 c3 p1 p2 p3,
            h = [(c3, RBytes p3); (c2, RBytes p2); (c1, RBytes p1)] /\
            path_eq p2 (push_all p1 ([DOT] :: exp)) = true /\ path_eq p1 p3 = true)
       [] (check_current_gen g0 cur root exp).
Proof.
  unfold check_current_gen, g0, bindR. cbn [bind].
  constructor; [exact I|]. intro r1.
  destruct r1 as [e|n| |m u i d|mk mi|t|p1|l|n]; cbn [as_bytes bind]; try (constructor; discriminate).
  constructor; [exact I|]. intro r2.
  destruct r2 as [e|n| |m u i d|mk mi|t|p2|l|n]; cbn [as_bytes bind]; try (constructor; discriminate).
  destruct (path_eq p2 (push_all p1 ([DOT] :: exp))) eqn:E1; cbn [negb bind]; [|constructor; discriminate].
  constructor; [exact I|]. intro r3.
  destruct r3 as [e|n| |m u i d|mk mi|t|p3|l|n]; cbn [as_bytes bind]; try (constructor; discriminate).
  destruct (path_eq p1 p3) eqn:E3; cbn [negb]; constructor; [|discriminate].
  intros _. do 6 eexists. split; [reflexivity|]. split; assumption.
Qed.
