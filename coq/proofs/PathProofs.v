(* PathProofs.v -- lemmas about Path.v, for all byte strings. *)
From PV Require Import Bytes Path.
Open Scope N_scope.

Lemma beq_true_iff x y : beq x y = true <-> x = y.
Proof.
  revert y; induction x as [|a x IH]; intros [|c y]; cbn; split; intro H;
    try congruence; try reflexivity.
  - apply andb_true_iff in H as [H1 H2]. apply N.eqb_eq in H1. apply IH in H2. congruence.
  - inversion H; subst. rewrite N.eqb_refl. cbn. apply IH. reflexivity.
Qed.

Lemma beq_refl x : beq x x = true.
Proof. apply beq_true_iff; reflexivity. Qed.

Arguments N.eqb : simpl never.

Lemma has_byte_cons c x r : has_byte c (x :: r) = N.eqb c x || has_byte c r.
Proof. reflexivity. Qed.
Lemma has_slash_cons x r : has_slash (x :: r) = N.eqb SLASH x || has_slash r.
Proof. reflexivity. Qed.
Lemma has_slash_cons_ne x r : N.eqb x SLASH = false -> has_slash (x :: r) = has_slash r.
Proof. intro H. rewrite has_slash_cons, N.eqb_sym, H. reflexivity. Qed.

Lemma has_byte_app c x y : has_byte c (x ++ y) = has_byte c x || has_byte c y.
Proof. unfold has_byte. apply existsb_app. Qed.

(* ---- raw_components ---------------------------------------------------- *)

Lemma raw_components_nonempty p : raw_components p <> [].
Proof.
  induction p as [|c r IH]; cbn; [discriminate|].
  destruct (N.eqb c SLASH); [discriminate|].
  destruct (raw_components r); [contradiction|discriminate].
Qed.

Lemma raw_components_no_slash p :
  Forall (fun c => has_slash c = false) (raw_components p).
Proof.
  induction p as [|c r IH]; cbn.
  - constructor; [reflexivity|constructor].
  - destruct (N.eqb c SLASH) eqn:E.
    + constructor; [reflexivity|exact IH].
    + destruct (raw_components r) as [|h t] eqn:Er.
      * constructor; [|constructor]. rewrite has_slash_cons_ne by exact E. reflexivity.
      * inversion IH as [|? ? Hh Ht]; subst. constructor; [|exact Ht].
        rewrite has_slash_cons_ne by exact E. exact Hh.
Qed.

Lemma join_slash_cons c rest :
  rest <> [] -> join_slash (c :: rest) = c ++ SLASH :: join_slash rest.
Proof. destruct rest; [contradiction|reflexivity]. Qed.

Theorem join_raw_components p : join_slash (raw_components p) = p.
Proof.
  induction p as [|c r IH]; [reflexivity|].
  cbn [raw_components]. destruct (N.eqb c SLASH) eqn:E.
  - apply N.eqb_eq in E; subst c.
    rewrite join_slash_cons by apply raw_components_nonempty.
    cbn. now rewrite IH.
  - destruct (raw_components r) as [|h t] eqn:Er.
    + exfalso. eapply raw_components_nonempty; eauto.
    + destruct t as [|h2 t2].
      * cbn in *. now rewrite IH.
      * change (join_slash ((c :: h) :: h2 :: t2)) with ((c :: h) ++ SLASH :: join_slash (h2 :: t2)).
        change (join_slash (h :: h2 :: t2)) with (h ++ SLASH :: join_slash (h2 :: t2)) in IH.
        rewrite <- IH. reflexivity.
Qed.

Lemma raw_components_noslash_single p :
  has_slash p = false -> raw_components p = [p].
Proof.
  induction p as [|c r IH]; [reflexivity|].
  rewrite has_slash_cons. intro H.
  apply orb_false_iff in H as [H1 H2]. rewrite N.eqb_sym in H1.
  cbn [raw_components]. rewrite H1.
  rewrite IH by exact H2. reflexivity.
Qed.

(* ---- rindex_slash ------------------------------------------------------ *)

Lemma rindex_slash_from_spec p : forall i acc,
  match rindex_slash_from i p acc with
  | None => acc = None /\ has_slash p = false
  | Some j =>
      (rindex_slash_from i p acc = acc /\ has_slash p = false) \/
      (exists k, j = (i + k)%nat /\ (k < length p)%nat /\
                 nth k p 0 = SLASH /\ has_slash (skipn (S k) p) = false)
  end.
Proof.
  induction p as [|c r IH]; intros i acc; cbn [rindex_slash_from].
  - destruct acc; [left; split; reflexivity | split; reflexivity].
  - specialize (IH (S i) (if N.eqb c SLASH then Some i else acc)).
    destruct (rindex_slash_from (S i) r (if N.eqb c SLASH then Some i else acc)) as [j|] eqn:Ej.
    + destruct IH as [[Hacc Hns] | [k [Hj [Hk [Hn Hs]]]]].
      * destruct (N.eqb c SLASH) eqn:Ec.
        -- right. exists 0%nat. inversion Hacc; subst. apply N.eqb_eq in Ec.
           repeat split; cbn; try lia; auto.
        -- left. split; [exact Hacc|]. rewrite has_slash_cons_ne by exact Ec. exact Hns.
      * right. exists (S k). repeat split; cbn; try lia; auto.
    + destruct IH as [Hacc Hns]. destruct (N.eqb c SLASH) eqn:Ec; [discriminate|].
      split; [exact Hacc|]. rewrite has_slash_cons_ne by exact Ec. exact Hns.
Qed.

Lemma rindex_slash_none p : rindex_slash p = None -> has_slash p = false.
Proof.
  unfold rindex_slash. intro H. pose proof (rindex_slash_from_spec p 0 None) as S.
  rewrite H in S. apply S.
Qed.

Lemma rindex_slash_some p j :
  rindex_slash p = Some j ->
  (j < length p)%nat /\ nth j p 0 = SLASH /\ has_slash (skipn (S j) p) = false.
Proof.
  unfold rindex_slash. intro H. pose proof (rindex_slash_from_spec p 0 None) as S.
  rewrite H in S. destruct S as [[Hc _] | [k [Hj [Hk [Hn Hs]]]]].
  - congruence.
  - cbn in Hj. subst k. auto.
Qed.

Lemma skipn_nth_cons {A} (d : A) (l : list A) n :
  (n < length l)%nat -> skipn n l = nth n l d :: skipn (S n) l.
Proof.
  revert l; induction n as [|n IH]; intros [|x l] H; cbn in *; try lia; auto.
  apply IH. lia.
Qed.

(* ---- partial_ancestors / path_split ------------------------------------ *)

Lemma partial_ancestors_nonempty p : partial_ancestors p <> [].
Proof.
  unfold partial_ancestors. cbn [anc_iter].
  destruct (rindex_slash p); discriminate.
Qed.

Theorem path_split_total p : path_split p <> None.
Proof.
  unfold path_split. pose proof (partial_ancestors_nonempty p).
  destruct (partial_ancestors p) as [|[d bs] t]; [contradiction|discriminate].
Qed.

(* The name returned by path_split is a single, non-empty, slash-free component. *)
Theorem path_split_name_single p d n :
  path_split p = Some (Ok (d, Some n)) -> n <> [] /\ has_slash n = false.
Proof.
  unfold path_split. destruct (partial_ancestors p) as [|[d' bs] t]; [discriminate|].
  destruct bs as [bs|]; [|discriminate].
  destruct (is_nil bs) eqn:E1; [discriminate|].
  destruct (has_slash bs) eqn:E2; [discriminate|].
  intro H; inversion H; subst. split; [|exact E2].
  intro; subst; discriminate.
Qed.

(* Shape of the first ancestor: what (dir, name) mean relative to the input. *)
Theorem path_split_shape p d n :
  path_split p = Some (Ok (d, Some n)) ->
  (has_slash p = false /\ d = [DOT] /\ n = p) \/
  (exists d0, p = d0 ++ SLASH :: n /\ d = (if is_nil d0 then [SLASH] else d0)).
Proof.
  unfold path_split, partial_ancestors. cbn [anc_iter].
  destruct (rindex_slash p) as [idx|] eqn:Er.
  - apply rindex_slash_some in Er as [Hlt [Hn Hs]].
    set (anc := firstn idx p). set (rem := skipn idx p).
    destruct (beq rem [SLASH]) eqn:Eb; [discriminate|].
    destruct (is_nil (tl rem)) eqn:E1; [discriminate|].
    destruct (has_slash (tl rem)); [discriminate|].
    intro H. inversion H; subst. right. exists anc. split; [|reflexivity].
    unfold rem. rewrite (skipn_nth_cons 0) by exact Hlt. rewrite Hn. cbn [tl].
    unfold anc. rewrite <- Hn. rewrite <- (skipn_nth_cons 0 p idx Hlt).
    symmetry. apply firstn_skipn.
  - apply rindex_slash_none in Er.
    destruct (is_nil p) eqn:E0; [discriminate|].
    rewrite E0. rewrite Er. intro H; inversion H; subst. left. auto.
Qed.

(* No name <=> empty path or trailing slash. *)
Theorem path_split_noname p d :
  path_split p = Some (Ok (d, None)) -> p = [] \/ (exists q, p = q ++ [SLASH]).
Proof.
  unfold path_split, partial_ancestors. cbn [anc_iter].
  destruct (rindex_slash p) as [idx|] eqn:Er.
  - apply rindex_slash_some in Er as [Hlt [Hn Hs]].
    destruct (beq (skipn idx p) [SLASH]) eqn:Eb.
    + intros _. right. exists (firstn idx p). apply beq_true_iff in Eb.
      rewrite <- Eb. symmetry. apply firstn_skipn.
    + destruct (is_nil (tl (skipn idx p))); [discriminate|].
      destruct (has_slash (tl (skipn idx p))); discriminate.
  - destruct (is_nil p) eqn:E0.
    + intros _. left. destruct p; [reflexivity|discriminate].
    + rewrite E0. apply rindex_slash_none in Er. rewrite Er. discriminate.
Qed.

(* path_split never fails on any input: the two SafetyViolation branches are
   dead code (the remaining part after the last '/' has no '/', and an empty
   one is reported as None).  *)
Theorem path_split_never_err p e : path_split p <> Some (Err e).
Proof.
  unfold path_split, partial_ancestors. cbn [anc_iter].
  destruct (rindex_slash p) as [idx|] eqn:Er.
  - apply rindex_slash_some in Er as [Hlt [Hn Hs]].
    destruct (beq (skipn idx p) [SLASH]) eqn:Eb; [discriminate|].
    rewrite (skipn_nth_cons 0) in * by exact Hlt. cbn [tl]. rewrite Hn in Eb.
    rewrite Hs.
    destruct (skipn (S idx) p) eqn:Es; cbn.
    + cbn in Eb. rewrite N.eqb_refl in Eb. discriminate.
    + discriminate.
  - apply rindex_slash_none in Er.
    destruct (is_nil p) eqn:E0; [discriminate|]. rewrite E0, Er. discriminate.
Qed.

(* ---- path_strip_trailing_slash ---------------------------------------- *)

Lemma to_c_string_no_nul p : has_nul (to_c_string p) = false.
Proof.
  induction p as [|c r IH]; [reflexivity|]. cbn.
  destruct (N.eqb c 0) eqn:E; [reflexivity|].
  unfold has_nul, has_byte in *; cbn. rewrite N.eqb_sym, E. exact IH.
Qed.

Lemma to_c_string_id p : has_nul p = false -> to_c_string p = p.
Proof.
  induction p as [|c r IH]; [reflexivity|]. unfold has_nul, has_byte; cbn.
  intro H. apply orb_false_iff in H as [H1 H2]. rewrite N.eqb_sym in H1. rewrite H1.
  f_equal. apply IH. exact H2.
Qed.
