(* AbiProofs.v -- soundness of the ABI checkers: what a [true] answer means. *)
From Coq Require Import String List ZArith Bool. Import ListNotations.
From PV Require Import AbiCheck.
Open Scope string_scope.

Lemma cty_eqb_eq a c : cty_eqb a c = true -> a = c.
Proof. destruct a, c; cbn; congruence. Qed.

Lemma ctys_eqb_eq x : forall y, ctys_eqb x y = true -> x = y.
Proof.
  induction x as [|a x IH]; intros [|c y]; cbn; try congruence.
  intro H. apply andb_true_iff in H as [H1 H2]. rewrite (cty_eqb_eq _ _ H1), (IH _ H2). reflexivity.
Qed.

Lemma decl_eqb_eq f g : decl_eqb f g = true -> f = g.
Proof.
  destruct f as [[n1 r1] a1], g as [[n2 r2] a2]. cbn. intro H.
  apply andb_true_iff in H as [H H3]. apply andb_true_iff in H as [H1 H2].
  apply String.eqb_eq in H1. apply cty_eqb_eq in H2. apply ctys_eqb_eq in H3. congruence.
Qed.

(* same symbols, same arity, same argument and return width classes -- both ways *)
Theorem decls_match_sound h r :
  decls_match h r = true -> (forall f, In f h -> In f r) /\ (forall g, In g r -> In g h).
Proof.
  unfold decls_match, decls_sub. intro H. apply andb_true_iff in H as [H1 H2].
  rewrite forallb_forall in H1, H2. split; intros f Hin.
  - specialize (H1 f Hin). apply existsb_exists in H1 as (g & Hg & E). apply decl_eqb_eq in E. subst. exact Hg.
  - specialize (H2 f Hin). apply existsb_exists in H2 as (g & Hg & E). apply decl_eqb_eq in E. subst. exact Hg.
Qed.

Theorem strs_sub_sound x y : strs_sub x y = true -> forall s, In s x -> In s y.
Proof.
  unfold strs_sub. intro H. rewrite forallb_forall in H. intros s Hin.
  specialize (H s Hin). apply existsb_exists in H as (t & Ht & E). apply String.eqb_eq in E. subst. exact Ht.
Qed.

Lemma args_compat_length x : forall y, args_compat x y = true -> length x = length y.
Proof.
  induction x as [|a x IH]; intros [|c y]; cbn; try congruence.
  intro H. apply andb_true_iff in H as [_ H]. f_equal. apply IH, H.
Qed.

(* every call site names a declared function of the same arity whose visible
   argument classes agree with the declaration *)
Theorem calls_ok_sound h calls :
  forallb (call_ok h) calls = true ->
  forall c, In c calls -> exists d, In d h /\ fst c = fst (fst d) /\ length (snd c) = length (snd d) /\
                                    args_compat (snd c) (snd d) = true.
Proof.
  intro H. rewrite forallb_forall in H. intros c Hin. specialize (H c Hin).
  unfold call_ok in H. apply existsb_exists in H as (d & Hd & E). apply andb_true_iff in E as [E1 E2].
  apply String.eqb_eq in E1. exists d. repeat split; try assumption. apply args_compat_length, E2.
Qed.

Theorem arity_ok_sound h calls :
  forallb (arity_ok h) calls = true ->
  forall c, In c calls -> exists d, In d h /\ fst c = fst (fst d) /\ snd c = length (snd d).
Proof.
  intro H. rewrite forallb_forall in H. intros c Hin. specialize (H c Hin).
  unfold arity_ok in H. apply existsb_exists in H as (d & Hd & E). apply andb_true_iff in E as [E1 E2].
  apply String.eqb_eq in E1. apply Nat.eqb_eq in E2. exists d. repeat split; assumption.
Qed.
