From PV Require Import Dyn BitsProofs PathProofs StaticProofs ProgTac StaticBal FaultProofs EffectProofs DynProofs DynMkdir DynRemove DynRemoveExact DynResolve DynMkdirComplete DynRemoveConc.
From PV Require FSModel FSProofs.
From Coq Require Import Lia.
Open Scope N_scope.

(* ---- the tree invariant: what the functional theorems of C12 / C13 / C14 assume of a tree is true of every tree
   the modelled operations can produce ------------------------------------------------------------------------ *)

Definition ent_ok (s : fs) (e : ent) : Prop :=
  (ent_dir e < length (kinds s))%nat /\ (ent_obj e < length (kinds s))%nat /\ nm_ok (ent_name e).

Definition inv (s : fs) : Prop :=
  (0 < length (kinds s))%nat /\ length (parents s) = length (kinds s) /\
  (forall e, In e (ents s) -> ent_ok s e) /\ uniq s /\ Forall (fun p => (p < length (kinds s))%nat) (parents s).

Lemma find_ent_of_in es d n n' c : In (d, n', c) es -> beq n n' = true -> FSModel.find_ent es d n <> None.
Proof.
  intros Hin Hb. induction es as [|[[d0 n0] c0] es IH]; [destruct Hin|]. destruct Hin as [H|H]; cbn [FSModel.find_ent].
  - inversion H; subst. rewrite Nat.eqb_refl, Hb. discriminate.
  - destruct (Nat.eqb d d0 && beq n n0); [discriminate|apply IH, H].
Qed.

Lemma inv_shrinks s s' : shrinks s s' -> inv s -> inv s'.
Proof.
  intros Hs (H0 & Hlen & He & Hu & Hp). pose proof Hs as (Hk & Hpar & Hi). unfold inv, ent_ok. rewrite Hk, Hpar.
  repeat split; try assumption.
  - apply (He e), Hi, H.
  - apply (He e), Hi, H.
  - apply (He e), Hi, H.
  - apply (He e), Hi, H.
  - exact (uniq_shrinks _ _ Hs Hu).
Qed.

Lemma del_ent_shrinks s d n : shrinks s (del_ent s d n).
Proof. repeat split; try reflexivity. unfold del_ent. cbn [FSModel.ents]. apply incl_filter. Qed.

Lemma inv_del_ent s d n : inv s -> inv (del_ent s d n).
Proof. apply inv_shrinks, del_ent_shrinks. Qed.

Lemma uniq_snoc s d n c es' : uniq s -> lookup s d n = None -> es' = ents s ++ [(d, n, c)] ->
  forall d0 n1 n2 c1 c2, In (d0, n1, c1) es' -> In (d0, n2, c2) es' -> beq n1 n2 = true -> c1 = c2.
Proof.
  intros Hu Hl -> d0 n1 n2 c1 c2 H1 H2 Hb. apply in_app_or in H1. apply in_app_or in H2.
  destruct H1 as [H1|[H1|[]]]; destruct H2 as [H2|[H2|[]]].
  - exact (Hu d0 n1 n2 c1 c2 H1 H2 Hb).
  - exfalso. inversion H2; subst. rewrite beq_sym in Hb. exact (find_ent_of_in _ _ _ _ _ H1 Hb Hl).
  - exfalso. inversion H1; subst. exact (find_ent_of_in _ _ _ _ _ H2 Hb Hl).
  - inversion H1; inversion H2; subst. reflexivity.
Qed.

Lemma inv_add_ent s d n c : inv s -> (d < length (kinds s))%nat -> (c < length (kinds s))%nat -> nm_ok n -> lookup s d n = None ->
  inv (add_ent s d n c).
Proof.
  intros (H0 & Hlen & He & Hu & Hp) Hd Hc Hn Hl. unfold inv, ent_ok, add_ent. cbn [FSModel.kinds FSModel.parents FSModel.ents].
  split; [exact H0|]. split; [exact Hlen|]. split; [|split; [|exact Hp]].
  - intros e Hin. apply in_app_or in Hin. destruct Hin as [Hin|[<-|[]]]; [exact (He e Hin)|]. cbn [ent_dir ent_obj ent_name fst snd]. repeat split; try assumption; apply Hn.
  - intros d0 n1 n2 c1 c2. apply (uniq_snoc s d n c _ Hu Hl eq_refl).
Qed.

Lemma inv_add_obj s d n k : inv s -> (d < length (kinds s))%nat -> nm_ok n -> lookup s d n = None -> inv (FSModel.add_obj s d n k).
Proof.
  intros (H0 & Hlen & He & Hu & Hp) Hd Hn Hl. unfold inv, ent_ok, FSModel.add_obj. cbn [FSModel.kinds FSModel.parents FSModel.ents].
  rewrite !app_length. cbn [length].
  split; [lia|]. split; [lia|]. split; [|split].
  - intros e Hin. apply in_app_or in Hin. destruct Hin as [Hin|[<-|[]]].
    + destruct (He e Hin) as (A & B & C). repeat split; try lia; apply C.
    + cbn [ent_dir ent_obj ent_name fst snd]. repeat split; try lia; apply Hn.
  - intros d0 n1 n2 c1 c2. apply (uniq_snoc s d n (length (kinds s)) _ Hu Hl eq_refl).
  - apply Forall_app. split; [eapply Forall_impl; [|exact Hp]; cbv beta; intros; lia|constructor; [lia|constructor]].
Qed.

Lemma set_nth_length {A} (l : list A) i x : length (set_nth l i x) = length l.
Proof. revert i. induction l as [|h t IH]; intros [|i]; cbn [set_nth length]; try reflexivity. rewrite IH. reflexivity. Qed.

Lemma set_nth_Forall {A} (P : A -> Prop) (l : list A) i x : Forall P l -> P x -> Forall P (set_nth l i x).
Proof.
  intros Hl Hx. revert i. induction Hl as [|h t Hh Ht IH]; intros [|i]; cbn [set_nth]; try constructor; try assumption. apply IH.
Qed.

Lemma inv_reparent s c d : inv s -> (d < length (kinds s))%nat -> inv (reparent s c d).
Proof.
  intros Hi Hd. unfold reparent. destruct (is_dir s c); [|exact Hi]. destruct Hi as (H0 & Hlen & He & Hu & Hp).
  unfold inv, ent_ok, set_parent. cbn [FSModel.kinds FSModel.parents FSModel.ents]. rewrite set_nth_length.
  repeat split; try assumption; try (apply (He e); assumption). apply set_nth_Forall; assumption.
Qed.

Lemma lookup_lt s d n c : inv s -> lookup s d n = Some c -> (c < length (kinds s))%nat.
Proof.
  intros (_ & _ & He & _) H. unfold FSModel.lookup in H. destruct (find_ent_in _ _ _ _ H) as (n' & Hin & _).
  exact (proj1 (proj2 (He _ Hin))).
Qed.

(* what the invariant gives the theorems *)
Lemma inv_facts s : inv s -> closed2 s /\ ents_ok s /\ uniq s /\ dirs_ok s /\ tree_ok s.
Proof.
  intros Hi. pose proof Hi as (H0 & Hlen & He & Hu & Hp).
  split; [|split; [|split; [exact Hu|split]]].
  - split; [split; [exact H0|split]|exact Hlen].
    + intros d n c H. exact (lookup_lt s d n c Hi H).
    + intros o _. unfold Static.PB, FSModel.parent_of. destruct (Nat.lt_ge_cases o (length (parents s))) as [Hlt|Hge].
      * rewrite Forall_forall in Hp. apply Hp. apply nth_In. exact Hlt.
      * rewrite nth_overflow by exact Hge. exact H0.
  - intros x Hx. split; [unfold NPB; exact (proj1 (proj2 (He x Hx)))|exact (proj1 (proj2 (proj2 (He x Hx))))].
  - intros x Hx. exact (proj1 (He x Hx)).
  - split; [exact Hu|]. intros x Hx. exact (proj2 (proj2 (He x Hx))).
Qed.

Lemma plain_of n : is_nil n = false -> has_slash n || has_nul n = false -> is_dot n || is_dotdot n = false -> Dyn.plain n = true.
Proof.
  intros H1 H2 H3. apply orb_false_iff in H2. apply orb_false_iff in H3. destruct H2 as [A B]. destruct H3 as [C D].
  unfold Dyn.plain. rewrite H1, A, B, C, D. reflexivity.
Qed.

Lemma create_inv s d n k s' : create_sem s d n k = EUnit s' -> inv s -> inv s'.
Proof.
  unfold create_sem. intros H Hi.
  destruct (is_dir s d) eqn:Ed; cbn [negb] in H; [|discriminate].
  destruct (is_nil n) eqn:E1; [discriminate|]. destruct (has_slash n || has_nul n) eqn:E2; [discriminate|].
  destruct (is_dot n || is_dotdot n) eqn:E3; [discriminate|]. destruct (too_long n) eqn:E4; [discriminate|].
  destruct (lookup s d n) eqn:El; [discriminate|]. inversion H; subst s'.
  apply inv_add_obj; [exact Hi|exact (is_dir_lt _ _ Ed)|split; [exact (plain_of n E1 E2 E3)|exact E4]|exact El].
Qed.

Lemma creat_inv s d n fl s' o : creat_sem s d n fl = EOpen s' o -> inv s -> inv s'.
Proof.
  unfold creat_sem. intros H Hi.
  destruct (has fl O_PATH || has fl O_DIRECTORY || negb (has fl O_NOFOLLOW)); [discriminate|].
  destruct (is_dir s d) eqn:Ed; cbn [negb] in H; [|discriminate].
  destruct (is_nil n) eqn:E1; [discriminate|]. destruct (has_slash n || has_nul n) eqn:E2; [discriminate|].
  destruct (is_dot n || is_dotdot n) eqn:E3; [discriminate|]. destruct (too_long n) eqn:E4; [discriminate|].
  destruct (lookup s d n) as [c|] eqn:El.
  - destruct (has fl O_EXCL); [discriminate|]. destruct (FSModel.kind_of s c); try discriminate. inversion H; subst. exact Hi.
  - inversion H; subst s' o.
    apply inv_add_obj; [exact Hi|exact (is_dir_lt _ _ Ed)|split; [exact (plain_of n E1 E2 E3)|exact E4]|exact El].
Qed.

Lemma unlink_inv s d n fl s' : unlink_sem s d n fl = EUnit s' -> inv s -> inv s'.
Proof. intros H Hi. rewrite (unlink_unit_del _ _ _ _ _ H). apply inv_del_ent, Hi. Qed.

Lemma link_inv s od on nd nn fl s' : link_sem s od on nd nn fl = EUnit s' -> inv s -> inv s'.
Proof.
  unfold link_sem. intros H Hi.
  destruct (negb (N.eqb fl 0) || negb (Dyn.plain on && Dyn.plain nn)) eqn:E0; [discriminate|].
  apply orb_false_iff in E0. destruct E0 as [_ E0]. apply negb_false_iff in E0. apply andb_true_iff in E0. destruct E0 as [_ Hpn].
  destruct (is_dir s od); cbn [negb] in H; [|discriminate].
  destruct (lookup s od on) as [c|] eqn:El; [|discriminate].
  destruct (is_dir s nd) eqn:Ed; cbn [negb] in H; [|discriminate].
  destruct (too_long nn) eqn:Et; [discriminate|]. destruct (lookup s nd nn) eqn:El2; [discriminate|].
  destruct (is_dir s c); [discriminate|]. inversion H; subst s'.
  apply inv_add_ent; [exact Hi|exact (is_dir_lt _ _ Ed)|exact (lookup_lt _ _ _ _ Hi El)|split; assumption|exact El2].
Qed.

Lemma lookup_del_other s d n d' n' : lookup s d' n' = None -> lookup (del_ent s d n) d' n' = None.
Proof. apply lookup_shrinks_none, del_ent_shrinks. Qed.

Lemma lookup_add_ent s d n c d' n' :
  lookup (add_ent s d n c) d' n' = match lookup s d' n' with Some x => Some x | None => if Nat.eqb d' d && beq n' n then Some c else None end.
Proof. unfold FSModel.lookup, add_ent. cbn [FSModel.ents]. rewrite find_ent_app. cbn [FSModel.find_ent]. reflexivity. Qed.

Lemma kinds_del s d n : kinds (del_ent s d n) = kinds s. Proof. reflexivity. Qed.
Lemma kinds_add s d n c : kinds (add_ent s d n c) = kinds s. Proof. reflexivity. Qed.
Lemma kinds_reparent s c d : kinds (reparent s c d) = kinds s. Proof. unfold reparent. destruct (is_dir s c); reflexivity. Qed.

Lemma rename_inv s od on nd nn fl s' : rename_sem s od on nd nn fl = EUnit s' -> inv s -> inv s'.
Proof.
  unfold rename_sem. intros H Hi.
  destruct (negb (Dyn.plain on && Dyn.plain nn)) eqn:E0; [discriminate|].
  apply negb_false_iff in E0. apply andb_true_iff in E0. destruct E0 as [Hpo Hpn].
  destruct (negb (N.eqb fl 0 || N.eqb fl RENAME_NOREPLACE || N.eqb fl RENAME_EXCHANGE)); [discriminate|].
  destruct (is_dir s od) eqn:Eod; cbn [negb orb] in H; [|discriminate].
  destruct (is_dir s nd) eqn:End_; cbn [negb] in H; [|discriminate].
  pose proof (is_dir_lt _ _ Eod) as Hod. pose proof (is_dir_lt _ _ End_) as Hnd.
  destruct (too_long on) eqn:Eto; [discriminate|].
  destruct (lookup s od on) as [c|] eqn:Elo; [|discriminate]. pose proof (lookup_lt _ _ _ _ Hi Elo) as Hc.
  destruct (too_long nn) eqn:Etn; [discriminate|].
  assert (Hnn : nm_ok nn) by (split; assumption). assert (Hon : nm_ok on) by (split; assumption).
  destruct (lookup s nd nn) as [e|] eqn:Eln.
  - pose proof (lookup_lt _ _ _ _ Hi Eln) as He.
    destruct (N.eqb fl RENAME_NOREPLACE); [discriminate|].
    destruct (is_dir s c && is_anc s c nd); [discriminate|].
    assert (Hbase : inv (del_ent (del_ent s od on) nd nn)) by (apply inv_del_ent, inv_del_ent, Hi).
    assert (Hl1 : lookup (del_ent (del_ent s od on) nd nn) nd nn = None) by apply lookup_del_ent.
    destruct (N.eqb fl RENAME_EXCHANGE).
    + destruct (is_dir s e && is_anc s e od); [discriminate|].
      destruct (Nat.eqb c e) eqn:Ece; [inversion H; subst; exact Hi|]. inversion H; subst s'.
      apply inv_reparent; [apply inv_reparent|rewrite kinds_reparent; exact Hod]; [|exact Hnd].
      apply inv_add_ent; [apply inv_add_ent; try assumption| | | |]; try assumption.
      rewrite lookup_add_ent. rewrite (lookup_del_other _ nd nn od on (lookup_del_ent s od on)).
      destruct (Nat.eqb_spec od nd) as [->|_]; cbn [andb]; [|reflexivity].
      destruct (beq on nn) eqn:Eb; [|reflexivity]. exfalso. apply beq_true_iff in Eb. subst nn.
      rewrite Elo in Eln. inversion Eln; subst e. rewrite Nat.eqb_refl in Ece. discriminate.
    + destruct (is_dir s e && is_anc s e od); [discriminate|].
      destruct (Nat.eqb c e) eqn:Ece; [inversion H; subst; exact Hi|].
      destruct (is_dir s c).
      * destruct (is_dir s e); cbn [negb] in H; [|discriminate]. destruct (has_child s e); [discriminate|]. inversion H; subst s'.
        apply inv_reparent; [|exact Hnd]. apply inv_add_ent; assumption.
      * destruct (is_dir s e); [discriminate|]. inversion H; subst s'. apply inv_add_ent; assumption.
  - destruct (N.eqb fl RENAME_EXCHANGE); [discriminate|]. destruct (is_dir s c && is_anc s c nd); [discriminate|].
    inversion H; subst s'. apply inv_reparent; [|exact Hnd].
    apply inv_add_ent; [apply inv_del_ent, Hi|exact Hnd|exact Hc|exact Hnn|apply lookup_del_other; exact Eln].
Qed.

(* mkdir_all's loop and remove_all *)
Lemma mk_spec_inv : forall ps s o, inv s -> inv (fst (mk_spec s o ps)).
Proof.
  induction ps as [|p rest IH]; intros s o Hi; cbn [mk_spec]; [exact Hi|].
  destruct (mk_dir s o p) as [s1|e] eqn:Ed; [|exact Hi].
  assert (Hi1 : inv s1).
  { unfold mk_dir in Ed. destruct (create_sem s o p FSModel.KDir) as [|e|s2|s2 o2] eqn:Ec; try discriminate.
    - destruct (N.eqb e EEXIST); inversion Ed; subst; exact Hi.
    - inversion Ed; subst. exact (create_inv _ _ _ _ _ Ec Hi). }
  destruct (mk_open s1 o p) as [c|e]; [apply IH; exact Hi1|exact Hi1].
Qed.

Lemma rm_all_inv f s d n s' r : rm_all f s d n = Some (s', r) -> inv s -> inv s'.
Proof. intros H. exact (inv_shrinks _ _ (rm_all_shrinks _ _ _ _ _ _ H)). Qed.

(* ---- every reachable tree ------------------------------------------------------------------------------- *)

Inductive op :=
| OCreate (d : nat) (n : bytes) (k : FSModel.kind)       (* mkdirat / mknodat / symlinkat *)
| OCreat (d : nat) (n : bytes) (fl : N)                   (* openat(O_CREAT) *)
| OUnlink (d : nat) (n : bytes) (fl : N)                  (* unlinkat, with or without AT_REMOVEDIR *)
| OLink (od : nat) (on : bytes) (nd : nat) (nn : bytes) (fl : N)
| ORename (od : nat) (on : bytes) (nd : nat) (nn : bytes) (fl : N)
| OMkdirAll (o : nat) (ps : list bytes)
| ORemoveAll (f : nat) (d : nat) (n : bytes).

Definition tree_of (r : eres) (s : fs) : fs := match r with EUnit s' => s' | EOpen s' _ => s' | _ => s end.

Definition apply_op (s : fs) (o : op) : fs :=
  match o with
  | OCreate d n k => tree_of (create_sem s d n k) s
  | OCreat d n fl => tree_of (creat_sem s d n fl) s
  | OUnlink d n fl => tree_of (unlink_sem s d n fl) s
  | OLink od on nd nn fl => tree_of (link_sem s od on nd nn fl) s
  | ORename od on nd nn fl => tree_of (rename_sem s od on nd nn fl) s
  | OMkdirAll o ps => fst (mk_spec s o ps)
  | ORemoveAll f d n => match rm_all f s d n with Some (s', _) => s' | None => s end
  end.

Lemma no_open_from_unit_ops s :
  (forall d n k s' o, create_sem s d n k <> EOpen s' o) /\ (forall d n fl s' o, unlink_sem s d n fl <> EOpen s' o) /\
  (forall a b0 c d0 e s' o, link_sem s a b0 c d0 e <> EOpen s' o) /\ (forall a b0 c d0 e s' o, rename_sem s a b0 c d0 e <> EOpen s' o).
Proof.
  repeat split; intros; intro H.
  - unfold create_sem in H. repeat (first [discriminate | match type of H with context [match ?x with _ => _ end] => destruct x end]).
  - unfold unlink_sem in H. repeat (first [discriminate | match type of H with context [match ?x with _ => _ end] => destruct x end]).
  - unfold link_sem in H. repeat (first [discriminate | match type of H with context [match ?x with _ => _ end] => destruct x end]).
  - unfold rename_sem in H. repeat (first [discriminate | match type of H with context [match ?x with _ => _ end] => destruct x end]).
Qed.

Lemma creat_no_unit s d n fl s' : creat_sem s d n fl <> EUnit s'.
Proof. intro H. unfold creat_sem in H. repeat (first [discriminate | match type of H with context [match ?x with _ => _ end] => destruct x end]). Qed.

Lemma apply_op_inv s o : inv s -> inv (apply_op s o).
Proof.
  intro Hi. destruct (no_open_from_unit_ops s) as (N1 & N2 & N3 & N4).
  destruct o as [d n k|d n fl|d n fl|od on nd nn fl|od on nd nn fl|o ps|f d n]; cbn [apply_op].
  - destruct (create_sem s d n k) eqn:E; cbn [tree_of]; try exact Hi; [exact (create_inv _ _ _ _ _ E Hi)|exfalso; exact (N1 _ _ _ _ _ E)].
  - destruct (creat_sem s d n fl) eqn:E; cbn [tree_of]; try exact Hi; [exfalso; exact (creat_no_unit _ _ _ _ _ E)|exact (creat_inv _ _ _ _ _ _ E Hi)].
  - destruct (unlink_sem s d n fl) eqn:E; cbn [tree_of]; try exact Hi; [exact (unlink_inv _ _ _ _ _ E Hi)|exfalso; exact (N2 _ _ _ _ _ E)].
  - destruct (link_sem s od on nd nn fl) eqn:E; cbn [tree_of]; try exact Hi; [exact (link_inv _ _ _ _ _ _ _ E Hi)|exfalso; exact (N3 _ _ _ _ _ _ _ E)].
  - destruct (rename_sem s od on nd nn fl) eqn:E; cbn [tree_of]; try exact Hi; [exact (rename_inv _ _ _ _ _ _ _ E Hi)|exfalso; exact (N4 _ _ _ _ _ _ _ E)].
  - apply mk_spec_inv, Hi.
  - destruct (rm_all f s d n) as [[s' r]|] eqn:E; [exact (rm_all_inv _ _ _ _ _ _ E Hi)|exact Hi].
Qed.

Definition root_only : fs := {| kinds := [FSModel.KDir]; parents := [0%nat]; ents := [] |}.

Lemma inv_root_only : inv root_only.
Proof.
  unfold inv, root_only. cbn [FSModel.kinds FSModel.parents FSModel.ents length].
  split; [lia|]. split; [reflexivity|]. split; [intros e []|]. split; [intros d n1 n2 c1 c2 []|]. constructor; [lia|constructor].
Qed.

(* every tree the operations can produce from an empty root -- in any order, any number of them, with any arguments,
   failing or not -- satisfies what the functional theorems assume *)
Theorem inv_reachable ops : inv (fold_left apply_op ops root_only).
Proof.
  assert (H : forall s, inv s -> inv (fold_left apply_op ops s)).
  { induction ops as [|o ops IH]; intros s Hi; cbn [fold_left]; [exact Hi|]. apply IH, apply_op_inv, Hi. }
  exact (H _ inv_root_only).
Qed.

Corollary reachable_premises ops :
  let s := fold_left apply_op ops root_only in closed2 s /\ ents_ok s /\ uniq s /\ dirs_ok s /\ tree_ok s.
Proof. exact (inv_facts _ (inv_reachable ops)). Qed.
