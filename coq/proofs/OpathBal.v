(* OpathBal.v -- C11 for the emulated in-root resolver (imp.rs, symlink_stack.rs), Rc
   reference counting included: for ALL kernel answers (that do not hand out a
   descriptor number the operation holds), opath::resolve and opath::resolve_partial
   close only descriptors they opened, and return owning exactly the descriptor of
   the result.  The invariant is a counting one: the reference count the model keeps
   for a descriptor equals the number of roles holding it (root, current, one per
   symlink-stack entry), and the operation owns, beside what it owned when it
   started, exactly the descriptors with a non-zero count. *)
From PV Require Import FdBalance ProgTac PathProofs FdBalProofs RootBal.
From Coq Require Import Permutation Lia.
Open Scope N_scope.

Arguments N.eqb : simpl never.
Arguments N.lor : simpl never.
Arguments N.land : simpl never.

(* ---- counting ------------------------------------------------------------------------ *)

Definition cnt (l : list Z) (x : Z) : nat := count_occ Z.eq_dec l x.
Definition one (a b : Z) : nat := if Z.eq_dec a b then 1%nat else 0%nat.
Definition pos (n : nat) : nat := match n with O => 0%nat | S _ => 1%nat end.

Lemma cnt_nil x : cnt [] x = 0%nat.
Proof. reflexivity. Qed.

Lemma cnt_cons y l x : cnt (y :: l) x = (one y x + cnt l x)%nat.
Proof. unfold cnt, one. cbn [count_occ]. destruct (Z.eq_dec y x); reflexivity. Qed.

Lemma cnt_app l1 l2 x : cnt (l1 ++ l2) x = (cnt l1 x + cnt l2 x)%nat.
Proof. unfold cnt. apply count_occ_app. Qed.

Lemma one_refl a : one a a = 1%nat.
Proof. unfold one. destruct (Z.eq_dec a a); [reflexivity|contradiction]. Qed.

Lemma one_neq a b : a <> b -> one a b = 0%nat.
Proof. unfold one. intro H. destruct (Z.eq_dec a b); [contradiction|reflexivity]. Qed.

Lemma one_sym a b : one a b = one b a.
Proof. unfold one. destruct (Z.eq_dec a b), (Z.eq_dec b a); congruence. Qed.

Lemma cnt_remove_one fd o x : cnt (remove_one fd o) x = (cnt o x - one fd x)%nat.
Proof.
  induction o as [|y t IH]; cbn [remove_one]; [reflexivity|].
  destruct (Z.eqb_spec fd y) as [->|Hne].
  - rewrite cnt_cons. lia.
  - rewrite !cnt_cons, IH. unfold one. destruct (Z.eq_dec y x), (Z.eq_dec fd x); lia.
Qed.

Lemma cnt_pos_mem o x : (0 < cnt o x)%nat -> mem x o = true.
Proof. intro H. apply mem_in. apply (count_occ_In Z.eq_dec). exact H. Qed.

Lemma notin_cnt o x : ~ In x o -> cnt o x = 0%nat.
Proof. intro H. apply count_occ_not_In. exact H. Qed.

Lemma cnt_perm o o' : (forall x, cnt o x = cnt o' x) -> Permutation o o'.
Proof. intro H. apply (Permutation_count_occ Z.eq_dec). exact H. Qed.

Lemma perm_cnt o o' x : Permutation o o' -> cnt o x = cnt o' x.
Proof. intro H. apply (Permutation_count_occ Z.eq_dec). exact H. Qed.

(* ---- reference counts ---------------------------------------------------------------- *)

Lemma rc_get_set_same fd n r : rc_get fd (rc_set fd n r) = n.
Proof.
  induction r as [|[f m] r IH]; cbn [rc_set rc_get]; [rewrite Z.eqb_refl; reflexivity|].
  destruct (Z.eqb_spec f fd) as [->|Hne]; cbn [rc_get]; [rewrite Z.eqb_refl; reflexivity|].
  destruct (Z.eqb_spec f fd); [contradiction|exact IH].
Qed.

Lemma rc_get_set_other fd fd' n r : fd' <> fd -> rc_get fd' (rc_set fd n r) = rc_get fd' r.
Proof.
  intro Hne. induction r as [|[f m] r IH]; cbn [rc_set rc_get].
  - destruct (Z.eqb_spec fd fd'); [congruence|reflexivity].
  - destruct (Z.eqb_spec f fd) as [->|Hf]; cbn [rc_get].
    + destruct (Z.eqb_spec fd fd'); [congruence|reflexivity].
    + destruct (Z.eqb f fd'); [reflexivity|exact IH].
Qed.

Lemma rc_get_set fd n r x : rc_get x (rc_set fd n r) = if Z.eq_dec fd x then n else rc_get x r.
Proof.
  destruct (Z.eq_dec fd x) as [->|Hne]; [apply rc_get_set_same|apply rc_get_set_other; congruence].
Qed.

(* [Inv o0 r H o]: the model's reference counts are the function H (number of holders
   per descriptor) and the operation owns o0 plus one of every held descriptor *)
Definition Inv (o0 : list Z) (r : refs) (H : Z -> nat) (o : list Z) : Prop :=
  (forall x, rc_get x r = H x) /\ (forall x, cnt o x = (cnt o0 x + pos (H x))%nat).

Lemma Inv_perm o0 r H o o' : Permutation o o' -> Inv o0 r H o -> Inv o0 r H o'.
Proof. intros Hp [H1 H2]. split; [exact H1|]. intro x. rewrite <- (perm_cnt _ _ x Hp). apply H2. Qed.

Lemma Inv_ext o0 r H H' o : (forall x, H x = H' x) -> Inv o0 r H o -> Inv o0 r H' o.
Proof. intros E [H1 H2]. split; intro x; rewrite <- E; [apply H1|apply H2]. Qed.

(* a new descriptor (one the operation does not hold) becomes an Rc of its own *)
Lemma Inv_new o0 r H o n :
  Inv o0 r H o -> ~ In n o -> Inv o0 (rc_set n 1 r) (fun x => (one n x + H x)%nat) (n :: o).
Proof.
  intros [H1 H2] Hn. pose proof (H2 n) as Hc. rewrite (notin_cnt _ _ Hn) in Hc.
  assert (Hz : H n = 0%nat) by (destruct (H n); [reflexivity|cbn [pos Nat.add] in Hc; lia]).
  split; intro x.
  - rewrite rc_get_set. unfold one. destruct (Z.eq_dec n x) as [<-|Hne]; [rewrite Hz; reflexivity|]. cbn [Nat.add]. apply H1.
  - rewrite cnt_cons, H2. unfold one. destruct (Z.eq_dec n x) as [<-|Hne]; [rewrite Hz; cbn [pos Nat.add]; lia|reflexivity].
Qed.

(* one more reference to a descriptor that is held already *)
Lemma Inv_inc o0 r H o fd :
  Inv o0 r H o -> (0 < H fd)%nat -> Inv o0 (rc_inc fd r) (fun x => (one fd x + H x)%nat) o.
Proof.
  intros [H1 H2] Hp. unfold rc_inc. split; intro x.
  - rewrite rc_get_set. unfold one. destruct (Z.eq_dec fd x) as [<-|Hne]; [rewrite H1; lia|]. cbn [Nat.add]. apply H1.
  - rewrite H2. unfold one. destruct (Z.eq_dec fd x) as [<-|Hne]; [|reflexivity].
    destruct (H fd); [lia|reflexivity].
Qed.

(* dropping one reference: the descriptor is closed exactly when it was the last one *)
Lemma rc_drop_bal o0 r H o fd H' :
  Inv o0 r H o -> (forall x, H x = (one fd x + H' x)%nat) ->
  bal (fun r' o' => Inv o0 r' H' o') o (rc_drop fd r).
Proof.
  intros [H1 H2] HH. unfold rc_drop. pose proof (HH fd) as Hfd. rewrite one_refl in Hfd.
  rewrite (H1 fd), Hfd. cbn [Nat.add]. destruct (H' fd) as [|m] eqn:E.
  - (* the last reference *)
    unfold close. cbn [bind]. constructor.
    + intros fd' Ec. inversion Ec; subst fd'. apply cnt_pos_mem. rewrite H2, Hfd. cbn [pos Nat.add]. lia.
    + intros rr _. cbn [step_owned bind]. constructor. split; intro x.
      * rewrite rc_get_set. destruct (Z.eq_dec fd x) as [<-|Hne]; [symmetry; exact E|].
        rewrite H1, HH, (one_neq _ _ Hne). reflexivity.
      * rewrite cnt_remove_one, H2, HH. unfold one. destruct (Z.eq_dec fd x) as [<-|Hne]; [rewrite E; cbn [pos Nat.add]; lia|].
        cbn [Nat.add]. lia.
  - constructor. split; intro x.
    + rewrite rc_get_set. destruct (Z.eq_dec fd x) as [<-|Hne]; [symmetry; exact E|].
      rewrite H1, HH, (one_neq _ _ Hne). reflexivity.
    + rewrite H2, HH. unfold one. destruct (Z.eq_dec fd x) as [<-|Hne]; [rewrite E; reflexivity|reflexivity].
Qed.

Lemma rc_drop_all_bal o0 fds : forall r H o H',
  Inv o0 r H o -> (forall x, H x = (cnt fds x + H' x)%nat) ->
  bal (fun r' o' => Inv o0 r' H' o') o (rc_drop_all fds r).
Proof.
  induction fds as [|fd t IH]; intros r H o H' Hi HH; cbn [rc_drop_all].
  - constructor. eapply Inv_ext; [|exact Hi]. intro x. rewrite HH, cnt_nil. reflexivity.
  - eapply bal_bind.
    + apply (rc_drop_bal o0 r H o fd (fun x => (cnt t x + H' x)%nat) Hi).
      intro x. rewrite HH, cnt_cons. lia.
    + intros r' o' Hi'. eapply IH; [exact Hi'|]. intro x. reflexivity.
Qed.

(* ---- the symlink stack: which directory references it holds ------------------------- *)

Definition sdirs (ss : sstack) : list Z := map se_dir ss.
Definition dirs (s : option sstack) : list Z := match s with None => [] | Some ss => sdirs ss end.

Lemma unsnoc_app {A} (l init : list A) (t : A) : unsnoc l = Some (init, t) -> l = init ++ [t].
Proof.
  revert init t. induction l as [|x r IH]; intros init t; cbn [unsnoc]; [discriminate|].
  destruct r as [|y r'].
  - intro H; inversion H; subst. reflexivity.
  - destruct (unsnoc (y :: r')) as [[i t']|] eqn:E; [|discriminate].
    intro H; inversion H; subst. cbn [app]. f_equal. apply IH. reflexivity.
Qed.

Lemma sdirs_app a b0 : sdirs (a ++ b0) = sdirs a ++ sdirs b0.
Proof. apply map_app. Qed.

Lemma ss_do_pop_dirs st part st' : ss_do_pop st part = Ok st' -> sdirs st' = sdirs st.
Proof.
  unfold ss_do_pop. destruct (is_dot part); [intro H; inversion H; reflexivity|].
  destruct (unsnoc st) as [[init tail]|] eqn:E; [|discriminate].
  destruct (se_parts tail) as [|ex ps]; [discriminate|].
  destruct (beq ex part); [|discriminate].
  intro H; inversion H; subst. rewrite (unsnoc_app _ _ _ E), !sdirs_app. reflexivity.
Qed.

Lemma ss_strip_dirs fuel : forall st rel st' rel',
  ss_strip fuel st rel = (st', rel') ->
  forall x, (cnt (sdirs st) x + cnt rel x = cnt (sdirs st') x + cnt rel' x)%nat.
Proof.
  induction fuel as [|f IH]; intros st rel st' rel'; cbn [ss_strip].
  - intro H; inversion H; subst. reflexivity.
  - destruct (unsnoc st) as [[init tail]|] eqn:E; [|intro H; inversion H; subst; reflexivity].
    destruct (is_nil (se_parts tail)); [|intro H; inversion H; subst; reflexivity].
    intros H x. rewrite <- (IH _ _ _ _ H x). rewrite (unsnoc_app _ _ _ E), sdirs_app, !cnt_app.
    cbn [sdirs map]. lia.
Qed.

Lemma ss_pop_part_dirs st part st' rel :
  ss_pop_part st part = Ok (st', rel) -> forall x, cnt (sdirs st) x = (cnt rel x + cnt (sdirs st') x)%nat.
Proof.
  unfold ss_pop_part. destruct (ss_do_pop st part) as [st1|e] eqn:E.
  - intros H x. inversion H as [H1]. pose proof (ss_strip_dirs _ _ _ _ _ H1 x) as Hs.
    rewrite (ss_do_pop_dirs _ _ _ E), cnt_nil in Hs. lia.
  - destruct e; try discriminate. intros H x; inversion H; subst. rewrite cnt_nil. reflexivity.
Qed.

Lemma ss_swap_link_dirs st part dir rem target st' :
  ss_swap_link st part dir rem target = Ok st' -> forall x, cnt (sdirs st') x = (one dir x + cnt (sdirs st) x)%nat.
Proof.
  unfold ss_swap_link, ss_do_push. destruct (ss_do_pop st part) as [st1|e] eqn:E.
  - intros H x; inversion H; subst. rewrite sdirs_app, cnt_app, (ss_do_pop_dirs _ _ _ E).
    cbn [sdirs map se_dir]. rewrite cnt_cons, cnt_nil. lia.
  - destruct e; try discriminate. intros H x; inversion H; subst. rewrite sdirs_app, cnt_app.
    cbn [sdirs map se_dir]. rewrite cnt_cons, cnt_nil. lia.
Qed.

(* ---- walk states --------------------------------------------------------------------- *)

(* who holds a reference: the root, current, and every entry of the symlink stack *)
Definition HS (st : wst) : Z -> nat :=
  fun x => (one (w_root st) x + one (w_cur st) x + cnt (dirs (w_stack st)) x)%nat.
Definition lfd (l : lookup) : Z := match l with Complete fd => fd | Partial fd _ _ => fd end.

(* at the end of the walk: the handle of the result (if any) and the stack entries *)
Definition HR (w : wres) : Z -> nat :=
  fun x => (match r_out w with Ok l => one (lfd l) x | Err _ => 0%nat end + cnt (dirs (r_stack w)) x)%nat.

(* a descriptor that is open but not (yet) an Rc -- `next` -- is accounted like a lent one *)
Lemma Inv_lend o0 r H o n : Inv o0 r H o -> Inv (n :: o0) r H (n :: o).
Proof. intros [H1 H2]. split; [exact H1|]. intro x. rewrite !cnt_cons, H2. lia. Qed.

Lemma close_lent o0 r H o n : Inv (n :: o0) r H o -> bal (fun (_ : unit) o' => Inv o0 r H o') o (close n).
Proof.
  intros [H1 H2]. unfold close. constructor.
  - intros fd E. inversion E; subst fd. apply cnt_pos_mem. rewrite H2, cnt_cons, one_refl. lia.
  - intros rr _. cbn [step_owned]. constructor. split; [exact H1|]. intro x.
    rewrite cnt_remove_one, H2, cnt_cons. lia.
Qed.

(* ... and becomes an Rc of its own when `current = Rc::new(next)` *)
Lemma Inv_adopt o0 r H o n :
  Inv (n :: o0) r H o -> cnt o0 n = 0%nat -> H n = 0%nat ->
  Inv o0 (rc_set n 1 r) (fun x => (one n x + H x)%nat) o.
Proof.
  intros [H1 H2] Hz0 HzH. split; intro x.
  - rewrite rc_get_set. unfold one. destruct (Z.eq_dec n x) as [<-|Hne]; [rewrite HzH; reflexivity|]. cbn [Nat.add]. apply H1.
  - rewrite H2, cnt_cons. unfold one. destruct (Z.eq_dec n x) as [<-|Hne]; [rewrite Hz0, HzH; reflexivity|reflexivity].
Qed.

Definition lent (next : option Z) (o0 : list Z) : list Z := match next with Some n => n :: o0 | None => o0 end.

Lemma opt_close_bal o0 r H o next :
  Inv (lent next o0) r H o ->
  bal (fun (_ : unit) o' => Inv o0 r H o') o (match next with Some n => close n | None => Ret tt end).
Proof. destruct next as [n|]; cbn [lent]; intro Hi; [apply close_lent, Hi|constructor; exact Hi]. Qed.


Definition upd (st : wst) (exp : list bytes) (refs' : refs) (stack' : option sstack) : wst :=
  {| w_root := w_root st; w_cur := w_cur st; w_exp := exp; w_refs := refs'; w_stack := stack' |}.

Section Mode.
(* resolve (no symlink stack) or resolve_partial (with one): without a stack there never is one *)
Variable nostk : bool.

Definition WInv (o0 : list Z) (st : wst) (o : list Z) : Prop :=
  Inv o0 (w_refs st) (HS st) o /\ (nostk = true -> w_stack st = None).
Definition Rw (o0 : list Z) (w : wres) (o : list Z) : Prop :=
  Inv o0 (r_refs w) (HR w) o /\ (nostk = true -> r_stack w = None).

Lemma bail_bal o0 st o next e : WInv (lent next o0) st o -> bal (Rw o0) o (bail st next e).
Proof.
  intros [Hi Hm]. unfold bail. eapply bal_bind; [apply opt_close_bal; exact Hi|]. intros u1 o1 Hi1. cbn beta in Hi1.
  eapply bal_bind.
  { apply (rc_drop_bal o0 _ _ o1 (w_cur st) (fun x => (one (w_root st) x + cnt (dirs (w_stack st)) x)%nat) Hi1).
    intro x. unfold HS. lia. }
  intros r1 o2 Hi2. eapply bal_bind.
  { apply (rc_drop_bal o0 _ _ o2 (w_root st) (fun x => cnt (dirs (w_stack st)) x) Hi2). intro x. reflexivity. }
  intros r2 o3 Hi3. constructor. split; [exact Hi3|exact Hm].
Qed.

Lemma ret_partial_bal o0 st o next rem e : WInv (lent next o0) st o -> bal (Rw o0) o (ret_partial st next rem e).
Proof.
  intros [Hi Hm]. unfold ret_partial. eapply bal_bind; [apply opt_close_bal; exact Hi|]. intros u1 o1 Hi1. cbn beta in Hi1.
  eapply bal_bind.
  { apply (rc_drop_bal o0 _ _ o1 (w_root st) (fun x => (one (w_cur st) x + cnt (dirs (w_stack st)) x)%nat) Hi1).
    intro x. unfold HS. lia. }
  intros r1 o2 Hi2. constructor. split; [exact Hi2|exact Hm].
Qed.

(* current = Rc::new(next) *)
Lemma set_cur_new_bal o0 st o n exp :
  WInv (n :: o0) st o -> cnt o0 n = 0%nat -> HS st n = 0%nat ->
  bal (fun st' o' => WInv o0 st' o') o (set_cur st n true exp (w_stack st)).
Proof.
  intros [Hi Hm] Hz0 HzH. unfold set_cur. eapply bal_bind.
  { apply (rc_drop_bal o0 _ _ o (w_cur st)
             (fun x => (one (w_root st) x + one n x + cnt (dirs (w_stack st)) x)%nat) (Inv_adopt _ _ _ _ _ Hi Hz0 HzH)).
    intro x. unfold HS. lia. }
  intros r2 o2 Hi2. constructor. split; [exact Hi2|exact Hm].
Qed.

(* current = Rc::clone(&root) *)
Lemma set_cur_root_bal o0 st o exp :
  WInv o0 st o -> bal (fun st' o' => WInv o0 st' o') o (set_cur st (w_root st) false exp (w_stack st)).
Proof.
  intros [Hi Hm]. unfold set_cur. eapply bal_bind.
  { apply (rc_drop_bal o0 _ _ o (w_cur st)
             (fun x => (one (w_root st) x + one (w_root st) x + cnt (dirs (w_stack st)) x)%nat)
             (Inv_inc _ _ _ _ (w_root st) Hi ltac:(unfold HS; rewrite one_refl; lia))).
    intro x. unfold HS. lia. }
  intros r2 o2 Hi2. constructor. split; [exact Hi2|exact Hm].
Qed.

(* stack.pop_part: the references of the entries that are dropped are released *)
Lemma stack_pop_part_bal o0 st o part :
  WInv o0 st o ->
  bal (fun r o' => match r with
                   | Err _ => WInv o0 st o'
                   | Ok (stack', refs') => WInv o0 (upd st (w_exp st) refs' stack') o' /\
                                           forall x, (HS (upd st (w_exp st) refs' stack') x <= HS st x)%nat
                   end) o (stack_pop_part st part).
Proof.
  intros [Hi Hm]. unfold stack_pop_part. destruct (w_stack st) as [ss|] eqn:Es.
  - destruct (ss_pop_part ss part) as [[ss' rel]|e] eqn:Ep; [|constructor; split; [exact Hi|rewrite Es; exact Hm]].
    pose proof (ss_pop_part_dirs _ _ _ _ Ep) as Hd.
    eapply bal_bind.
    { apply (rc_drop_all_bal o0 rel _ _ o (fun x => (one (w_root st) x + one (w_cur st) x + cnt (sdirs ss') x)%nat) Hi).
      intro x. unfold HS. rewrite Es. cbn [dirs]. rewrite Hd. lia. }
    intros r o' Hi'. constructor. split; [split; [exact Hi'|]|].
    + intro Hn. specialize (Hm Hn). discriminate.
    + intro x. unfold HS, upd. cbn [w_root w_cur w_stack]. rewrite Es. cbn [dirs]. rewrite (Hd x). lia.
  - constructor. split; [split|].
    + unfold upd, HS. cbn [w_root w_cur w_stack w_refs]. unfold HS in Hi. rewrite Es in Hi. exact Hi.
    + intros _. reflexivity.
    + intro x. unfold HS, upd. cbn [w_root w_cur w_stack]. rewrite Es. lia.
Qed.

(* ---- the walk ------------------------------------------------------------------------- *)

Variable fz : nat.
Variable ps : N.
Variable chk : Z -> Z -> list bytes -> prog (result unit ekind).
Hypothesis chk_bal : forall cur root exp o, bal (Rsame o) o (chk cur root exp).
Notation fin := (final_check_gen chk).

(* a step that leaves the owned set as it was keeps whatever invariant holds *)
Lemma same_keeps {A} o0 st o (p : prog A) :
  bal (Rsame o) o p -> WInv o0 st o -> bal (fun _ o' => WInv o0 st o') o p.
Proof.
  intros Hb [Hi Hm]. eapply bal_weaken; [exact Hb|]. intros a o' Hp. hnf in Hp.
  split; [eapply Inv_perm; [apply Permutation_sym, Hp|exact Hi]|exact Hm].
Qed.

Definition Rnew {E} (o : list Z) : result Z E -> list Z -> Prop :=
  fun r o' => match r with Ok k => o' = k :: o /\ ~ In k o | Err _ => Permutation o' o end.

Lemma fail1_new_bal fd e o : bal (@Rnew N o) o (@fail1 fz Z fd e).
Proof.
  eapply bal_weaken.
  - apply (fail1_bal fz fd e o (fun r o' => match r with Ok _ => False | Err _ => Permutation o' o end)).
    + intros a o1 o2 H Hp. destruct a; [exact H|]. eapply perm_trans; [apply Permutation_sym, Hp|exact H].
    + reflexivity.
  - intros a o' H. destruct a; [contradiction|exact H].
Qed.

Lemma w_openat_new_bal fd n fl m o : bal (Rnew o) o (w_openat fz fd n fl m).
Proof.
  unfold w_openat, w_openat_follow. destruct (negb (valid_fd fd)); [constructor; hnf; reflexivity|].
  unfold rustix_path. destruct (has_nul n); [apply fail1_new_bal|].
  constructor; [intros ? E; discriminate|]. intros r Hf. cbn [step_owned opens]. unfold fresh_for in Hf. cbn [opens] in Hf.
  destruct (as_fd r) as [k|e]; cbn [app].
  - constructor. split; [reflexivity|]. apply Hf. left. reflexivity.
  - apply fail1_new_bal.
Qed.

Lemma dup_new_bal fd o : bal (@Rnew N o) o (dup_cloexec fd).
Proof.
  unfold dup_cloexec. constructor; [intros ? E; discriminate|]. intros r Hf. cbn [step_owned opens].
  unfold fresh_for in Hf. cbn [opens] in Hf.
  destruct (as_fd r) as [k|e]; cbn [app]; constructor.
  - split; [reflexivity|]. apply Hf. left. reflexivity.
  - hnf. reflexivity.
Qed.

Lemma os_new_bal o (p : prog (result Z N)) : bal (Rnew o) o p -> bal (Rnew o) o (os p).
Proof.
  intro H. unfold os, map_err. eapply bal_bind; [exact H|]. intros [k|e] o' Hr; constructor; exact Hr.
Qed.

Lemma may_follow_link_bal dir link o : bal (Rsame o) o (may_follow_link fz ps dir link).
Proof.
  unfold may_follow_link. apply bal_neutral_call; [neutral_solve|]. intro ru. unfold os.
  apply bal_bindR_same; [apply perm_closed_Rsame|apply bal_map_err_same, w_fstatat_bal| |intro; hnf; reflexivity]. intro dm.
  apply bal_bindR_same; [apply perm_closed_Rsame|apply bal_map_err_same, w_fstatat_bal| |intro; hnf; reflexivity]. intro lm.
  destruct (_ || _); constructor; hnf; reflexivity.
Qed.

Lemma final_check_bal o0 st o : WInv o0 st o -> bal (Rw o0) o (fin st).
Proof.
  intro Hi. unfold final_check_gen.
  eapply bal_bind; [apply (same_keeps o0 st o _ (chk_bal _ _ _ o) Hi)|]. intros r o1 Hi1. cbn beta in Hi1.
  destruct r as [_u|e]; [|apply (bail_bal o0 st o1 None); exact Hi1].
  destruct Hi1 as [Hi1 Hm]. eapply bal_bind.
  { apply (rc_drop_bal o0 _ _ o1 (w_root st) (fun x => (one (w_cur st) x + cnt (dirs (w_stack st)) x)%nat) Hi1).
    intro x. unfold HS. lia. }
  intros r1 o2 Hi2. constructor. split; [exact Hi2|exact Hm].
Qed.

Lemma fresh_facts o0 st o n : WInv o0 st o -> ~ In n o -> cnt o0 n = 0%nat /\ HS st n = 0%nat.
Proof.
  intros [[_ H2] _] Hn. pose proof (H2 n) as Hc. rewrite (notin_cnt _ _ Hn) in Hc.
  split; [lia|]. destruct (HS st n); [reflexivity|cbn [pos] in Hc; lia].
Qed.

Lemma WInv_lend o0 st o n : WInv o0 st o -> WInv (n :: o0) st (n :: o).
Proof. intros [Hi Hm]. split; [apply Inv_lend, Hi|exact Hm]. Qed.

Lemma close_lent_w o0 st o n : WInv (n :: o0) st o -> bal (fun (_ : unit) o' => WInv o0 st o') o (close n).
Proof.
  intros [Hi Hm]. eapply bal_weaken; [apply close_lent; exact Hi|]. intros a o' Hi'. split; [exact Hi'|exact Hm].
Qed.

Lemma walk_open_bal o0 nosym nofollow follow inner remaining rest :
  (forall go, follow = Some go -> forall st cs o, WInv o0 st o -> bal (Rw o0) o (go st cs)) ->
  (forall st o, WInv o0 st o -> bal (Rw o0) o (inner st rest)) ->
  forall st part o, WInv o0 st o ->
    bal (Rw o0) o (walk_open fz ps chk fin nosym nofollow follow inner remaining rest st part).
Proof.
  intros Hgo Hinner st part o Hi. unfold walk_open.
  destruct (has_slash part); [apply (bail_bal o0 st o None); exact Hi|].
  eapply bal_bind; [apply os_new_bal, w_openat_new_bal|]. intros r o1 Hr.
  destruct r as [next|e].
  2:{ apply (ret_partial_bal o0 st o1 None). cbn [lent]. hnf in Hr. destruct Hi as [Hi Hm].
      split; [eapply Inv_perm; [apply Permutation_sym, Hr|exact Hi]|exact Hm]. }
  destruct Hr as [-> Hfresh].
  destruct (fresh_facts o0 st o next Hi Hfresh) as [Hz0 HzH].
  pose proof (WInv_lend o0 st o next Hi) as HiL.
  assert (Hbail : forall o' e, WInv (next :: o0) st o' -> bal (Rw o0) o' (bail st (Some next) e))
    by (intros o' e H; apply (bail_bal o0 st o' (Some next)); exact H).
  (* the check after a '..' step *)
  eapply bal_bind.
  { instantiate (1 := fun (_ : result unit ekind) o' => WInv (next :: o0) st o').
    destruct (is_dotdot part); [apply same_keeps; [apply chk_bal|exact HiL]|constructor; exact HiL]. }
  intros r o2 Hi2. cbn beta in Hi2. destruct r as [_u|e]; [|apply Hbail; exact Hi2].
  eapply bal_bind; [unfold os; apply same_keeps; [apply bal_map_err_same, w_fstatat_bal|exact Hi2]|].
  intros r o3 Hi3. cbn beta in Hi3. destruct r as [meta|e]; [|apply Hbail; exact Hi3].
  destruct (negb (is_symlink_mode (st_mode meta))).
  { (* not a symlink: walk into it *)
    eapply bal_bind; [apply (stack_pop_part_bal (next :: o0) st o3 part Hi3)|].
    intros r o4 Hr4. destruct r as [[stack' refs']|e]; [|apply Hbail; exact Hr4].
    destruct Hr4 as [Hi4 Hle].
    eapply bal_bind.
    { apply (set_cur_new_bal o0 (upd st (w_exp st) refs' stack') o4 next (w_exp st) Hi4 Hz0).
      specialize (Hle next). lia. }
    intros st' o5 Hi5. apply Hinner. exact Hi5. }
  destruct (is_nil rest && nofollow).
  { eapply bal_bind; [apply (set_cur_new_bal o0 st o3 next (w_exp st) Hi3 Hz0 HzH)|].
    intros st' o4 Hi4. apply final_check_bal. exact Hi4. }
  destruct nosym; [apply (ret_partial_bal o0 st o3 (Some next)); exact Hi3|].
  eapply bal_bind.
  { instantiate (1 := fun (_ : result unit ekind) o' => WInv (next :: o0) st o').
    destruct (EMU_PS_ONLY_TRAILING && negb (ps_trailing rest)); [constructor; exact Hi3|].
    apply same_keeps; [apply may_follow_link_bal|exact Hi3]. }
  intros r o4 Hi4. cbn beta in Hi4. destruct r as [_u2|e]; [|apply Hbail; exact Hi4].
  destruct follow as [go|]; [|apply (ret_partial_bal o0 st o4 (Some next)); exact Hi4].
  eapply bal_bind; [unfold os; apply same_keeps; [apply bal_map_err_same, w_readlinkat_bal|exact Hi4]|].
  intros r o5 Hi5. cbn beta in Hi5. destruct r as [target|e]; [|apply Hbail; exact Hi5].
  eapply bal_bind.
  { instantiate (1 := fun (_ : result bool ekind) o' => WInv (next :: o0) st o').
    destruct (is_abs target); [apply same_keeps; [apply is_magiclink_filesystem_bal|exact Hi5]|constructor; exact Hi5]. }
  intros r o6 Hi6. cbn beta in Hi6. destruct r as [[|]|e]; try (apply Hbail; exact Hi6).
  (* the link is followed: swap_link keeps one more reference to current *)
  assert (Hst1 : forall stack' refs',
            match (match w_stack st with
                   | None => Ok (None, w_refs st)
                   | Some ss => match ss_swap_link ss part (w_cur st) remaining target with
                                | Ok ss' => Ok (Some ss', rc_inc (w_cur st) (w_refs st))
                                | Err e => Err e
                                end
                   end : result (option sstack * refs) sserr) with
            | Ok p => p = (stack', refs')
            | Err _ => False
            end -> WInv (next :: o0) (upd st (pop_exp (w_exp st)) refs' stack') o6).
  { intros stack' refs' H. destruct Hi6 as [Hi6 Hm]. destruct (w_stack st) as [ss|] eqn:Ess.
    - destruct (ss_swap_link ss part (w_cur st) remaining target) as [ss'|e] eqn:Esw; [|contradiction].
      inversion H; subst. split; [|intro Hn; specialize (Hm Hn); discriminate].
      eapply Inv_ext; [|apply (Inv_inc _ _ _ _ (w_cur st) Hi6); unfold HS; rewrite one_refl; lia].
      intro x. unfold HS, upd. cbn [w_root w_cur w_stack dirs]. rewrite Ess. cbn [dirs].
      rewrite (ss_swap_link_dirs _ _ _ _ _ _ Esw x). lia.
    - inversion H; subst. split; [|intros _; reflexivity].
      unfold upd, HS. cbn [w_root w_cur w_stack w_refs]. unfold HS in Hi6. rewrite Ess in Hi6. exact Hi6. }
  destruct (match w_stack st with
            | None => Ok (None, w_refs st)
            | Some ss => match ss_swap_link ss part (w_cur st) remaining target with
                         | Ok ss' => Ok (Some ss', rc_inc (w_cur st) (w_refs st))
                         | Err e => Err e
                         end
            end) as [[stack' refs']|e]; [|apply Hbail; exact Hi6].
  specialize (Hst1 stack' refs' eq_refl). cbn zeta.
  eapply bal_bind.
  { instantiate (1 := fun st2 o' => WInv (next :: o0) st2 o').
    destruct (is_abs target).
    - apply (set_cur_root_bal (next :: o0) (upd st (pop_exp (w_exp st)) refs' stack') o6 [] Hst1).
    - constructor. exact Hst1. }
  intros st2 o7 Hi7. cbn beta in Hi7.
  eapply bal_bind; [apply (close_lent_w o0 st2 o7 next Hi7)|]. intros u o8 Hi8. cbn beta in Hi8.
  eapply Hgo; [reflexivity|exact Hi8].
Qed.

Lemma walk_body_bal o0 nosym nofollow follow :
  (forall go, follow = Some go -> forall st cs o, WInv o0 st o -> bal (Rw o0) o (go st cs)) ->
  forall cs st o, WInv o0 st o -> bal (Rw o0) o (walk_body fz ps chk fin nosym nofollow follow st cs).
Proof.
  intros Hgo cs. induction cs as [|part0 rest IH]; intros st o Hi; cbn [walk_body].
  - apply final_check_bal; exact Hi.
  - cbn zeta.
    assert (Hopen : forall st' part o', WInv o0 st' o' ->
              bal (Rw o0) o' (walk_open fz ps chk fin nosym nofollow follow (walk_body fz ps chk fin nosym nofollow follow)
                                (join_slash (part0 :: rest)) rest st' part)).
    { intros st' part o' Hi'. apply walk_open_bal; [exact Hgo| |exact Hi']. intros st'' o'' Hi''. apply IH; exact Hi''. }
    destruct (is_nil part0); [apply Hopen; exact Hi|].
    destruct (is_dot part0); [apply Hopen; exact Hi|].
    destruct (is_dotdot part0).
    + destruct (w_exp st) eqn:Eexp.
      * eapply bal_bind; [apply (stack_pop_part_bal o0 st o part0 Hi)|].
        intros r o1 Hr1. destruct r as [[stack' refs']|e]; [|apply (bail_bal o0 st o1 None); exact Hr1].
        destruct Hr1 as [Hi1 _]. rewrite Eexp in Hi1.
        eapply bal_bind; [apply (set_cur_root_bal o0 (upd st [] refs' stack') o1 [] Hi1)|].
        intros st' o2 Hi2. apply IH; exact Hi2.
      * apply Hopen. exact Hi.
    + apply Hopen. exact Hi.
Qed.

Lemma walk_gen_bal o0 budget nosym nofollow : forall st cs o,
  WInv o0 st o -> bal (Rw o0) o (walk_gen fz ps chk fin budget nosym nofollow st cs).
Proof.
  induction budget as [|bd IH]; intros st cs o Hi; cbn [walk_gen].
  - apply walk_body_bal; [discriminate|exact Hi].
  - apply walk_body_bal; [|exact Hi].
    intros go Hgo. destruct bd; [discriminate|]. inversion Hgo; subst. intros; apply IH; assumption.
Qed.

End Mode.

(* ---- do_resolve, opath::resolve, opath::resolve_partial ----------------------------- *)

Section Resolve.
Variable fz : nat.
Variable cfg : bool.
Variable pfuel : nat.
Variable gh : phandle.
Variable ps : N.

Lemma check_current_bal cur root exp o : bal (Rsame o) o (check_current fz cfg pfuel gh cur root exp).
Proof.
  unfold check_current.
  apply bal_bindR_same; [apply perm_closed_Rsame|apply as_unsafe_path_bal| |intro; hnf; reflexivity]. intro rp.
  apply bal_bindR_same; [apply perm_closed_Rsame|apply as_unsafe_path_bal| |intro; hnf; reflexivity]. intro cp.
  destruct (negb _); [constructor; hnf; reflexivity|].
  apply bal_bindR_same; [apply perm_closed_Rsame|apply as_unsafe_path_bal| |intro; hnf; reflexivity]. intro np.
  destruct (negb _); constructor; hnf; reflexivity.
Qed.

Definition Rdo (nostk : bool) (o : list Z) : result wres ekind -> list Z -> Prop :=
  fun r o' => match r with Ok w => Rw nostk o w o' | Err _ => Permutation o' o end.

Lemma do_resolve_bal nostk root path nosym nofollow stack o :
  dirs stack = [] -> (nostk = true -> stack = None) ->
  bal (Rdo nostk o) o (do_resolve fz cfg pfuel gh ps root path nosym nofollow stack).
Proof.
  intros Hd Hm. unfold do_resolve, bindR.
  eapply bal_bind; [apply os_new_bal, dup_new_bal|]. intros r o1 Hr.
  destruct r as [rd|e]; [|constructor; exact Hr]. destruct Hr as [-> Hfresh].
  assert (Hi : WInv nostk o {| w_root := rd; w_cur := rd; w_exp := []; w_refs := [(rd, 2%nat)]; w_stack := stack |} (rd :: o)).
  { split; [|exact Hm]. split; intro x; unfold HS; cbn [w_root w_cur w_stack w_refs]; rewrite Hd, cnt_nil.
    - cbn [rc_get]. unfold one. destruct (Z.eqb_spec rd x) as [->|Hne].
      + destruct (Z.eq_dec x x); [reflexivity|contradiction].
      + destruct (Z.eq_dec rd x); [contradiction|reflexivity].
    - rewrite cnt_cons. unfold one. destruct (Z.eq_dec rd x); cbn [pos Nat.add]; lia. }
  destruct (EMPTY_PATH_IS_ENOENT && is_nil path).
  - eapply bal_bind; [apply (ret_partial_bal nostk o _ (rd :: o) None); exact Hi|]. intros w o2 Hw. constructor. exact Hw.
  - eapply bal_bind; [apply (walk_gen_bal nostk fz ps _ (check_current_bal) o); exact Hi|]. intros w o2 Hw. constructor. exact Hw.
Qed.

Lemma Rw_perm_fd o w o' fd :
  Inv o (r_refs w) (HR w) o' -> dirs (r_stack w) = [] -> r_out w = Ok (Complete fd) \/ (exists rem e, r_out w = Ok (Partial fd rem e)) ->
  Permutation o' (fd :: o) /\ rc_get fd (r_refs w) = 1%nat.
Proof.
  intros [H1 H2] Hd Ho.
  assert (HH : forall x, HR w x = one fd x).
  { intro x. unfold HR. rewrite Hd, cnt_nil. destruct Ho as [->|(rem & e & ->)]; cbn [lfd]; lia. }
  split.
  - apply cnt_perm. intro x. rewrite H2, HH, cnt_cons. unfold one. destruct (Z.eq_dec fd x); cbn [pos]; lia.
  - rewrite H1, HH. apply one_refl.
Qed.

(* opath::resolve *)
Theorem opath_resolve_root_bal root path nosym nofollow o :
  bal (Rfd o) o (opath_resolve_root fz cfg pfuel gh ps root path nosym nofollow).
Proof.
  unfold opath_resolve_root, bindR.
  eapply bal_bind; [apply (do_resolve_bal true root path nosym nofollow None o); [reflexivity|reflexivity]|].
  intros r o1 Hr. destruct r as [w|e]; [|constructor; exact Hr].
  destruct Hr as [Hi Hm]. specialize (Hm eq_refl).
  assert (Hd : dirs (r_stack w) = []) by (rewrite Hm; reflexivity).
  destruct (r_out w) as [l|e] eqn:Eo.
  2:{ constructor. hnf. apply cnt_perm. intro x. destruct Hi as [_ H2]. rewrite H2. unfold HR. rewrite Eo, Hd, cnt_nil. cbn [pos Nat.add]. lia. }
  assert (Hl : Permutation o1 (lfd l :: o) /\ rc_get (lfd l) (r_refs w) = 1%nat).
  { apply (Rw_perm_fd o w o1 (lfd l) Hi Hd). rewrite Eo. destruct l as [fd|fd rem e]; [left; reflexivity|right; eexists; eexists; reflexivity]. }
  destruct Hl as [Hp Hrc]. unfold unwrap_rc. fold (lfd l). rewrite Hrc. cbn [bind].
  destruct l as [fd|fd rem e]; cbn [lfd] in *.
  - constructor. exact Hp.
  - apply close_ret_bal with (o' := o); [apply perm_closed_Rfd|exact Hp|hnf; reflexivity].
Qed.

(* opath::resolve_partial, with the symlink stack dropped (or its top entry handed out) at the end *)
Theorem opath_resolve_partial_bal root path nosym nofollow o :
  bal (Rlk o) o (opath_resolve_partial fz cfg pfuel gh ps root path nosym nofollow).
Proof.
  unfold opath_resolve_partial, bindR.
  eapply bal_bind; [apply (do_resolve_bal false root path nosym nofollow (Some []) o); [reflexivity|discriminate]|].
  intros r o1 Hr. destruct r as [w|e]; [|constructor; exact Hr].
  destruct Hr as [Hi _].
  cbv zeta. remember (match r_stack w with Some s => s | None => [] end) as ss eqn:Ess.
  assert (Hss : dirs (r_stack w) = map se_dir ss) by (subst ss; destruct (r_stack w); reflexivity).
  clear Ess.
  assert (Hfin : forall (l : lookup) r' o', Inv o r' (fun x => one (lfd l) x) o' ->
            bal (@Rlk ekind o) o' (l0 <- unwrap_rc l r' ;; Ret (Ok l0))).
  { intros l r' o' [H1 H2]. unfold unwrap_rc. fold (lfd l). rewrite H1, one_refl. cbn [bind]. constructor. hnf.
    assert (Hp : Permutation o' (lfd l :: o)).
    { apply cnt_perm. intro x. rewrite H2, cnt_cons. unfold one. destruct (Z.eq_dec (lfd l) x); cbn [pos]; lia. }
    destruct l; exact Hp. }
  destruct (r_out w) as [[fd|fd rem e]|e] eqn:Eo.
  - eapply bal_bind.
    { apply (rc_drop_all_bal o (map se_dir ss) _ _ o1 (fun x => one fd x) Hi).
      intro x. unfold HR. rewrite Eo, Hss. cbn [lfd]. unfold sdirs. lia. }
    intros r' o2 Hi2. apply (Hfin (Complete fd)). exact Hi2.
  - destruct ss as [|top rest_ss].
    + apply (Hfin (Partial fd rem e)). eapply Inv_ext; [|exact Hi]. intro x. unfold HR. rewrite Eo, Hss. cbn [lfd map]. rewrite cnt_nil. lia.
    + eapply bal_bind.
      { apply (rc_drop_bal o _ _ o1 fd (fun x => cnt (map se_dir (top :: rest_ss)) x) Hi).
        intro x. unfold HR. rewrite Eo, Hss. cbn [lfd]. reflexivity. }
      intros r1 o2 Hi2. eapply bal_bind.
      { apply (rc_drop_all_bal o (map se_dir rest_ss) _ _ o2 (fun x => one (se_dir top) x) Hi2).
        intro x. cbn [map]. rewrite cnt_cons. lia. }
      intros r2 o3 Hi3. apply (Hfin (Partial (se_dir top) (se_rem top) e)). exact Hi3.
  - eapply bal_bind.
    { apply (rc_drop_all_bal o (map se_dir ss) _ _ o1 (fun x => 0%nat) Hi).
      intro x. unfold HR. rewrite Eo, Hss. unfold sdirs. lia. }
    intros r' o2 [_ H2]. constructor. hnf. apply cnt_perm. intro x. rewrite H2. cbn [pos]. lia.
Qed.

(* the emulated backend meets the lookup contracts of RootBal *)
Theorem emu_res_ok rs : rs_kernel rs = false -> res_ok fz cfg pfuel gh ps rs.
Proof. intros H root path nf o. unfold r_resolve. rewrite H. apply opath_resolve_root_bal. Qed.

Theorem emu_resp_ok rs : rs_kernel rs = false -> resp_ok fz cfg pfuel gh ps rs.
Proof. intros H root path nf o. unfold r_resolve_partial. rewrite H. apply opath_resolve_partial_bal. Qed.

End Resolve.
