(* Hoare.v -- a small program logic over [prog]: judgements that quantify over
   every answer the kernel can give.  [hist] is the list of (call, answer)
   pairs issued so far, most recent first. *)
From PV Require Import Prog.
Open Scope N_scope.

Definition hist := list (call * resp).

(* [spec P Q h p]: started after history h, every call p issues satisfies P
   (which may look at the history), and when p returns a in history h',
   Q a h' holds.  Panic / OutOfFuel end the execution (other judgements rule
   them out). *)
Inductive spec {A} (P : hist -> call -> Prop) (Q : A -> hist -> Prop) : hist -> prog A -> Prop :=
| sp_ret a h : Q a h -> spec P Q h (Ret a)
| sp_call c k h : P h c -> (forall r, spec P Q ((c, r) :: h) (k r)) -> spec P Q h (Call c k)
| sp_panic s h : spec P Q h (Panic s)
| sp_fuel h : spec P Q h OutOfFuel.

Lemma spec_bind {A B} P (Q1 : A -> hist -> Prop) (Q2 : B -> hist -> Prop) h (p : prog A) (f : A -> prog B) :
  spec P Q1 h p ->
  (forall a h', Q1 a h' -> spec P Q2 h' (f a)) ->
  spec P Q2 h (bind p f).
Proof.
  intros Hp Hf. induction Hp as [a h Hq | c k h Hc Hk IH | s h | h]; cbn.
  - apply Hf. exact Hq.
  - constructor; [exact Hc|]. intro r. apply IH.
  - constructor.
  - constructor.
Qed.

Lemma spec_weaken {A} P (Q Q' : A -> hist -> Prop) h (p : prog A) :
  spec P Q h p -> (forall a h', Q a h' -> Q' a h') -> spec P Q' h p.
Proof.
  intros Hp HQ. induction Hp; constructor; auto.
Qed.

Lemma spec_weaken_pre {A} (P P' : hist -> call -> Prop) (Q : A -> hist -> Prop) h (p : prog A) :
  spec P Q h p -> (forall h c, P h c -> P' h c) -> spec P' Q h p.
Proof.
  intros Hp HP. induction Hp; constructor; auto.
Qed.

(* history-independent special case *)
Definition TrueQ {A} : A -> hist -> Prop := fun _ _ => True.

Lemma spec_bind_T {A B} P h (p : prog A) (f : A -> prog B) (Q2 : B -> hist -> Prop) :
  spec P TrueQ h p -> (forall a h', spec P Q2 h' (f a)) -> spec P Q2 h (bind p f).
Proof. intros Hp Hf. eapply spec_bind; [exact Hp|]. intros a h' _. apply Hf. Qed.

(* spec implies the history-free all_calls when P ignores the history *)
Lemma spec_all_calls {A} (P : call -> Prop) (Q : A -> hist -> Prop) h (p : prog A) :
  spec (fun _ c => P c) Q h p -> all_calls P p.
Proof. intro Hp. induction Hp; constructor; auto. Qed.

(* no_panic composes through bind *)
Lemma no_panic_bind {A B} (p : prog A) (f : A -> prog B) :
  no_panic p -> (forall a, no_panic (f a)) -> no_panic (bind p f).
Proof.
  intros Hp Hf. induction Hp as [a | c k Hk IH | ]; cbn.
  - apply Hf.
  - constructor. intro r. apply IH.
  - constructor.
Qed.

(* map_err / bindR are binds *)
Lemma spec_map_err {A E F} P (Q : result A F -> hist -> Prop) h (g : E -> F) (p : prog (result A E)) :
  spec P (fun r h' => Q (match r with Ok a => Ok a | Err e => Err (g e) end) h') h p ->
  spec P Q h (map_err g p).
Proof.
  intro Hp. unfold map_err. eapply spec_bind; [exact Hp|].
  intros a h' Hq. constructor. exact Hq.
Qed.

Lemma spec_bindR {A B E} P (Q1 : result A E -> hist -> Prop) (Q2 : result B E -> hist -> Prop)
      h (p : prog (result A E)) (f : A -> prog (result B E)) :
  spec P Q1 h p ->
  (forall a h', Q1 (Ok a) h' -> spec P Q2 h' (f a)) ->
  (forall e h', Q1 (Err e) h' -> Q2 (Err e) h') ->
  spec P Q2 h (bindR p f).
Proof.
  intros Hp Hf He. unfold bindR. eapply spec_bind; [exact Hp|].
  intros [a|e] h' Hq; [apply Hf; exact Hq | constructor; apply He; exact Hq].
Qed.
