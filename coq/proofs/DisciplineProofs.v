(* DisciplineProofs.v -- C05: every call of every model program satisfies the
   per-call discipline, whatever the kernel answers. *)
From PV Require Import Discipline ProgTac BitsProofs PathProofs.
Open Scope N_scope.

Arguments N.eqb : simpl never.
Arguments N.lor : simpl never.
Arguments N.land : simpl never.
Arguments N.ldiff : simpl never.

(* ---- small facts ---------------------------------------------------------- *)

Lemma real_fd_not_cwd fd : real_fd fd = true -> Z.eqb fd AT_FDCWD = false.
Proof. unfold real_fd, AT_FDCWD. intro H. apply Z.leb_le in H. apply Z.eqb_neq. lia. Qed.

Lemma real_fd_valid fd : real_fd fd = true -> valid_fd fd = true.
Proof. unfold valid_fd, real_fd. intro H. rewrite H. apply orb_true_r. Qed.

Lemma single_nil : single [] = true.
Proof. reflexivity. Qed.

Lemma single_dot : single [DOT] = true.
Proof. reflexivity. Qed.

Lemma has_slash_app x y : has_slash (x ++ y) = has_slash x || has_slash y.
Proof. apply has_byte_app. Qed.

(* digits of [dec] are never '/' *)
Lemma dec_fuel_no_slash fuel n acc :
  has_slash acc = false -> has_slash (dec_fuel fuel n acc) = false.
Proof.
  revert n acc. induction fuel as [|f IH]; intros n acc Hacc; cbn [dec_fuel]; [exact Hacc|].
  assert (Hd : has_slash ((48 + n mod 10) :: acc) = false).
  { rewrite has_slash_cons, Hacc, orb_false_r. apply N.eqb_neq. unfold SLASH.
    generalize (n mod 10). intro x. lia. }
  destruct (N.eqb (n / 10) 0); [exact Hd|]. apply IH. exact Hd.
Qed.

Lemma dec_no_slash n : has_slash (dec n) = false.
Proof. unfold dec. apply dec_fuel_no_slash. reflexivity. Qed.

Lemma strip_prefix_app pre s : strip_prefix pre (pre ++ s) = Some s.
Proof. induction pre as [|a pre IH]; cbn; [reflexivity|]. rewrite N.eqb_refl. exact IH. Qed.

Lemma task_path_ok n : is_task_path (b "self/task/" ++ dec n) = true.
Proof. unfold is_task_path. rewrite strip_prefix_app, dec_no_slash. reflexivity. Qed.

Lemma host_proc_ok s : is_host_proc (b "/proc/" ++ s) = true.
Proof. unfold is_host_proc. rewrite strip_prefix_app. reflexivity. Qed.

(* ---- FrozenFd and the wrappers ------------------------------------------- *)

Definition QT {A} : A -> Prop := fun _ => True.
Definition Qfd {E} : result Z E -> Prop := okR (fun n => real_fd n = true).
(* Panic sites of /repo that the model can reach (C10): 1 = no thread-self
   candidate works, 5 = Rc::try_unwrap (believed unreachable; not proved), and
   -- depending on what T0 reads in the source -- 2 = try_from_fd's fstat
   expect(), 6 = the unreachable!() of openat2::resolve_partial. *)
Definition allowed_panic (s : N) : Prop :=
  s = PANIC_THREAD_SELF \/ s = PANIC_RC_UNWRAP \/
  (TRY_FROM_FD_FSTAT_PANICS = true /\ s = PANIC_FSTAT_PROC) \/
  (PARTIAL_UNREACHABLE_PANICS = true /\ s = PANIC_PARTIAL_UNREACHABLE).
Notation okd := (okp Pdn allowed_panic).
Notation okf := (okp Pd allowed_panic).

Lemma as_fd_real r n : as_fd r = Ok n -> real_fd n = true.
Proof.
  destruct r as [e|n0| | | | | | |]; cbn; try discriminate.
  destruct (Z.leb 0 n0) eqn:E; [|discriminate].
  intro H; inversion H; subst. exact E.
Qed.

Lemma okd_T {A} (Q : A -> Prop) (p : prog A) : okd Q p -> okd QT p.
Proof. intro H. eapply okp_weaken; [exact H|]. intros; exact I. Qed.

Lemma frozen_ok fz fd : okd QT (frozen fz fd).
Proof.
  revert fd. induction fz as [|f IH]; intro fd; cbn [frozen]; [constructor|].
  constructor; [split; reflexivity|]. intro rt.
  generalize (thread_self_cands (as_num rt)). intro cands.
  induction cands as [|c rest IHc]; [constructor; left; reflexivity|].
  constructor.
  - split; [|reflexivity]. cbn [disc_b]. change (Z.eqb AT_FDCWD AT_FDCWD) with true. cbn iota.
    rewrite host_proc_ok. reflexivity.
  - intro r. destruct (as_stat r).
    + destruct (proc_subpath fd); [|constructor; exact I].
      constructor; [|intro; constructor; exact I].
      split; [|reflexivity]. cbn [disc_b]. apply host_proc_ok.
    + eapply okp_bind; [apply IH|]. intros ? _. exact IHc.
Qed.

Lemma fail1_ok {A} (Qa : A -> Prop) fz fd e : okd (okR Qa) (@fail1 fz A fd e).
Proof. unfold fail1. eapply okp_bind; [apply frozen_ok|]. intros ? _; constructor. exact I. Qed.
Lemma fail2_ok {A} (Qa : A -> Prop) fz fd1 fd2 e : okd (okR Qa) (@fail2 fz A fd1 fd2 e).
Proof.
  unfold fail2. eapply okp_bind; [apply frozen_ok|]. intros ? _.
  eapply okp_bind; [apply frozen_ok|]. intros ? _; constructor. exact I.
Qed.

Lemma rustix_path_ok {A} (Qa : A -> Prop) fz fd path (k : prog (result A N)) :
  okd (okR Qa) k -> okd (okR Qa) (rustix_path fz fd path k).
Proof. intro H. unfold rustix_path. destruct (has_nul path); [apply fail1_ok|exact H]. Qed.

(* the open wrappers: O_CLOEXEC|O_NOCTTY are forced *)
Lemma forced_cloexec fl : has (N.lor (N.lor fl OPENAT_FORCED) O_LARGEFILE) O_CLOEXEC = true.
Proof. apply has_lor_l, has_lor_r. reflexivity. Qed.
Lemma forced_noctty fl : has (N.lor (N.lor fl OPENAT_FORCED) O_LARGEFILE) O_NOCTTY = true.
Proof. apply has_lor_l, has_lor_r. reflexivity. Qed.

(* openat_follow: disciplined except for O_NOFOLLOW *)
Lemma w_openat_follow_ok fz fd n fl m :
  real_fd fd = true -> single n = true ->
  okf Qfd (w_openat_follow fz fd n fl m).
Proof.
  intros Hfd Hn. unfold w_openat_follow. rewrite (real_fd_valid _ Hfd). cbn [negb].
  unfold rustix_path. destruct (has_nul n).
  - eapply okp_weaken_P; [|apply fail1_ok]. intros c [H _]; exact H.
  - constructor.
    + unfold Pd. cbn [disc_b]. rewrite (real_fd_not_cwd _ Hfd), Hfd, Hn, forced_cloexec, forced_noctty.
      cbn. rewrite orb_true_r. reflexivity.
    + intro r. destruct (as_fd r) eqn:E; [constructor; cbn; eapply as_fd_real; exact E|].
      eapply okp_weaken_P; [|apply fail1_ok]. intros c [H _]; exact H.
Qed.

Lemma w_openat_ok fz fd n fl m :
  real_fd fd = true -> single n = true -> okd Qfd (w_openat fz fd n fl m).
Proof.
  intros Hfd Hn. unfold w_openat, w_openat_follow. rewrite (real_fd_valid _ Hfd). cbn [negb].
  apply rustix_path_ok. constructor.
  - split.
    + cbn [disc_b]. rewrite (real_fd_not_cwd _ Hfd), Hfd, Hn, forced_cloexec, forced_noctty.
      cbn. rewrite orb_true_r. reflexivity.
    + cbn [nofollow_b]. apply orb_true_iff. left.
      apply has_lor_l, has_lor_l, has_lor_r. reflexivity.
  - intro r. destruct (as_fd r) eqn:E; [constructor; cbn; eapply as_fd_real; exact E|apply fail1_ok].
Qed.

(* new_unsafe_open: openat(AT_FDCWD, "/proc", O_PATH|O_DIRECTORY) *)
Lemma w_openat_proc_ok fz m : okd Qfd (w_openat fz AT_FDCWD (b "/proc") UNSAFE_OPEN_FLAGS m).
Proof.
  unfold w_openat, w_openat_follow. cbn [valid_fd negb]. change (Z.eqb AT_FDCWD AT_FDCWD) with true.
  cbn [orb negb]. apply rustix_path_ok. constructor.
  - split; reflexivity.
  - intro r. destruct (as_fd r) eqn:E; [constructor; cbn; eapply as_fd_real; exact E|apply fail1_ok].
Qed.

Lemma simple1_ok {A} fz fd path c (dec : resp -> result A N) :
  (valid_fd fd = true -> Pdn c) -> okd (okR QT) (simple1 fz fd path c dec).
Proof.
  intro Hc. unfold simple1. destruct (valid_fd fd) eqn:Hv; cbn [negb]; [|constructor; exact I].
  apply rustix_path_ok. constructor; [apply Hc; reflexivity|].
  intro r. destruct (dec r); [constructor; exact I|apply fail1_ok].
Qed.

Ltac pdn_solve :=
  split; [cbn [disc_b];
          repeat match goal with
                 | H : real_fd ?fd = true |- context [Z.eqb ?fd AT_FDCWD] => rewrite (real_fd_not_cwd _ H)
                 | H : ?x = true |- context [?x] => rewrite H
                 end; try reflexivity
         | reflexivity].

Lemma w_readlinkat_ok fz fd : real_fd fd = true -> okd (okR QT) (w_readlinkat fz fd []).
Proof.
  intro Hfd. unfold w_readlinkat. rewrite (real_fd_valid _ Hfd). cbn [negb].
  apply rustix_path_ok. constructor; [pdn_solve|].
  intro r. destruct (as_bytes r); [|apply fail1_ok].
  destruct (N.leb _ _); [apply fail1_ok|constructor; exact I].
Qed.

Lemma w_mkdirat_ok fz fd n m : real_fd fd = true -> single n = true -> okd (okR QT) (w_mkdirat fz fd n m).
Proof. intros Hfd Hn. apply simple1_ok. intros _. pdn_solve. Qed.
Lemma w_mknodat_ok fz fd n m d : real_fd fd = true -> single n = true -> okd (okR QT) (w_mknodat fz fd n m d).
Proof. intros Hfd Hn. apply simple1_ok. intros _. pdn_solve. Qed.
Lemma w_unlinkat_ok fz fd n a : real_fd fd = true -> single n = true -> okd (okR QT) (w_unlinkat fz fd n a).
Proof. intros Hfd Hn. apply simple1_ok. intros _. pdn_solve. Qed.

Lemma w_fstatfs_ok fz fd : real_fd fd = true -> okd (okR QT) (w_fstatfs fz fd).
Proof.
  intro Hfd. unfold w_fstatfs. rewrite (real_fd_valid _ Hfd). cbn [negb].
  constructor; [pdn_solve|]. intro r. destruct (as_fstype r); [constructor; exact I|apply fail1_ok].
Qed.

Lemma w_fstatat_ok fz fd n :
  real_fd fd = true -> (stat_name n || is_task_path n = true) -> okd (okR QT) (w_fstatat fz fd n).
Proof. intros Hfd Hn. apply simple1_ok. intros _. pdn_solve. Qed.

Lemma w_statx_ok fz fd n mask :
  real_fd fd = true -> stat_name n = true -> okd (okR QT) (w_statx fz fd n mask).
Proof. intros Hfd Hn. apply simple1_ok. intros _. pdn_solve. Qed.

Lemma w_symlinkat_ok fz t fd n : real_fd fd = true -> single n = true -> okd (okR QT) (w_symlinkat fz t fd n).
Proof.
  intros Hfd Hn. unfold w_symlinkat. rewrite (real_fd_valid _ Hfd). cbn [negb].
  destruct (_ || _); [apply fail1_ok|].
  constructor; [pdn_solve|]. intro r. destruct (as_unit r); [constructor; exact I|apply fail1_ok].
Qed.

Lemma two_fd_ok fz ofd on nfd nn c :
  Pdn c -> okd (okR QT) (two_fd fz ofd on nfd nn c).
Proof.
  intro Hc. unfold two_fd.
  destruct (valid_fd ofd); cbn [negb]; [|constructor; exact I].
  destruct (valid_fd nfd); cbn [negb]; [|constructor; exact I].
  destruct (_ || _); [apply fail2_ok|].
  constructor; [exact Hc|]. intro r. destruct (as_unit r); [constructor; exact I|apply fail2_ok].
Qed.

Lemma w_linkat_ok fz ofd on nfd nn :
  real_fd ofd = true -> single on = true -> real_fd nfd = true -> single nn = true ->
  okd (okR QT) (w_linkat fz ofd on nfd nn LINKAT_FLAGS).
Proof. intros. apply two_fd_ok. pdn_solve. Qed.

Lemma w_renameat2_ok fz ofd on nfd nn fl :
  real_fd ofd = true -> single on = true -> real_fd nfd = true -> single nn = true ->
  okd (okR QT) (w_renameat2 fz ofd on nfd nn fl).
Proof.
  intros. unfold w_renameat2, w_renameat. destruct (N.eqb fl 0); apply two_fd_ok; pdn_solve.
Qed.

Lemma openat2_flags_keeps fl c : has fl c = true -> has (openat2_flags fl) c = true.
Proof. intro H. unfold openat2_flags. destruct (has _ O_PATH); [|apply has_lor_l]; apply has_lor_l; exact H. Qed.

Lemma openat2_flags_cloexec fl : has (openat2_flags fl) O_CLOEXEC = true.
Proof. unfold openat2_flags. destruct (has _ O_PATH); [|apply has_lor_l]; apply has_lor_r; reflexivity. Qed.

(* never a controlling terminal: O_NOCTTY, or the open is an O_PATH one *)
Lemma openat2_flags_noctty fl : has (openat2_flags fl) O_NOCTTY || has (openat2_flags fl) O_PATH = true.
Proof.
  unfold openat2_flags. destruct (has (N.lor fl OPENAT2_FORCED) O_PATH) eqn:E.
  - rewrite E. apply orb_true_r.
  - apply orb_true_iff. left. apply has_lor_r. reflexivity.
Qed.

Lemma w_openat2_ok fz fd p fl m rs :
  real_fd fd = true -> has rs RESOLVE_NO_MAGICLINKS = true ->
  (has rs RESOLVE_IN_ROOT || (has rs RESOLVE_BENEATH && has rs RESOLVE_NO_XDEV)) = true ->
  okd Qfd (w_openat2 fz fd p fl m rs).
Proof.
  intros Hfd Hm Hr. unfold w_openat2. rewrite (real_fd_valid _ Hfd). cbn [negb].
  destruct (OPENAT2_NUL_EINVAL && has_nul p); [apply fail1_ok|].
  constructor.
  - split; [|reflexivity]. cbn [disc_b]. rewrite Hfd, Hm, Hr, openat2_flags_cloexec. cbn [andb].
    pose proof (openat2_flags_noctty fl) as Hn. apply orb_true_iff in Hn. destruct Hn as [-> | ->]; [reflexivity|rewrite orb_true_r; reflexivity].
  - intro r. destruct (as_fd r) eqn:E; [constructor; cbn; eapply as_fd_real; exact E|apply fail1_ok].
Qed.

Lemma dup_cloexec_ok fd : real_fd fd = true -> okd Qfd (dup_cloexec fd).
Proof.
  intro Hfd. unfold dup_cloexec. constructor; [pdn_solve|]. intro r. constructor.
  destruct (as_fd r) eqn:E; cbn; [eapply as_fd_real; exact E|exact I].
Qed.

Lemma close_ok fd : real_fd fd = true -> okd QT (close fd).
Proof. intro Hfd. unfold close. constructor; [pdn_solve|]. intro; constructor; exact I. Qed.

(* ---- mount API wrappers --------------------------------------------------- *)

Lemma w_fsopen_ok : okd Qfd (w_fsopen (b "proc") FSOPEN_FLAGS).
Proof.
  unfold w_fsopen. constructor; [split; reflexivity|]. intro r; constructor.
  destruct (as_fd r) eqn:E; cbn; [eapply as_fd_real; exact E|exact I].
Qed.

Lemma w_fsconfig_set_string_ok fz sfd k v : real_fd sfd = true ->
  okd (okR QT) (w_fsconfig_set_string fz sfd k v).
Proof.
  intro H. unfold w_fsconfig_set_string. rewrite (real_fd_valid _ H). cbn [negb].
  constructor; [pdn_solve|]. intro r. destruct (as_unit r); [constructor; exact I|apply fail1_ok].
Qed.

Lemma w_fsconfig_create_ok fz sfd : real_fd sfd = true -> okd (okR QT) (w_fsconfig_create fz sfd).
Proof.
  intro H. unfold w_fsconfig_create. rewrite (real_fd_valid _ H). cbn [negb].
  constructor; [pdn_solve|]. intro r. destruct (as_unit r); [constructor; exact I|apply fail1_ok].
Qed.

Lemma w_fsmount_ok fz sfd : real_fd sfd = true -> okd Qfd (w_fsmount fz sfd FSMOUNT_FLAGS FSMOUNT_ATTRS).
Proof.
  intro H. unfold w_fsmount. rewrite (real_fd_valid _ H). cbn [negb].
  constructor; [pdn_solve|]. intro r.
  destruct (as_fd r) eqn:E; [constructor; cbn; eapply as_fd_real; exact E|apply fail1_ok].
Qed.

(* F-L: needs OPEN_TREE_CLOEXEC among the forced flags of syscalls::open_tree *)
Lemma open_tree_forced_cloexec : has OPEN_TREE_FORCED OPEN_TREE_CLOEXEC = true.
Proof. reflexivity. Qed.

Lemma w_open_tree_ok fz fl :
  okd Qfd (w_open_tree fz AT_FDCWD (b "/proc") (N.lor OPEN_TREE_BASE fl)).
Proof.
  unfold w_open_tree. change (valid_fd AT_FDCWD) with true. cbn [negb].
  apply rustix_path_ok. constructor.
  - split; [|reflexivity]. cbn [disc_b]. change (Z.eqb AT_FDCWD AT_FDCWD) with true.
    change (beq (b "/proc") (b "/proc")) with true. cbn [andb].
    rewrite (has_lor_r _ _ _ open_tree_forced_cloexec). cbn [andb].
    apply has_lor_l, has_lor_l. reflexivity.
  - intro r. destruct (as_fd r) eqn:E; [constructor; cbn; eapply as_fd_real; exact E|apply fail1_ok].
Qed.

(* ---- stepping tactic ------------------------------------------------------ *)

Create HintDb okdb.
#[export] Hint Resolve frozen_ok w_openat_ok w_readlinkat_ok w_mkdirat_ok w_mknodat_ok w_unlinkat_ok
  w_fstatfs_ok w_fstatat_ok w_statx_ok w_symlinkat_ok w_linkat_ok w_renameat2_ok w_openat2_ok
  dup_cloexec_ok close_ok w_fsopen_ok w_fsconfig_set_string_ok w_fsconfig_create_ok w_fsmount_ok
  w_open_tree_ok w_openat_proc_ok single_nil single_dot : okdb.

Ltac ok_leaf := first [ exact I | assumption | reflexivity | solve [eauto 3 with okdb] ].

Ltac ok_step :=
  match goal with
  | |- okp _ _ (Ret _) => constructor; try ok_leaf
  | |- okp _ _ (Panic _) => constructor
  | |- okp _ _ OutOfFuel => constructor
  | |- okp _ _ (os _) => unfold os
  | |- okp _ _ (bindR _ _) => eapply okp_bindR; [ | intros ? ? | intro; exact I ]
  | |- okp _ _ (bind _ _) => eapply okp_bind; [ | intros ? ? ]
  | |- okp _ (okR _) (map_err _ _) => apply okp_map_err
  | |- okp _ _ (match ?x with _ => _ end) => destruct x eqn:?
  end.

Ltac ok_auto := repeat (first [ solve [eauto 4 with okdb] | ok_step ]).

Lemma okR_T {A E} (r : result A E) : okR QT r.
Proof. destruct r; exact I. Qed.
#[export] Hint Resolve okR_T : okdb.

Lemma okd_weakT {A E} (Qa : A -> Prop) (p : prog (result A E)) : okd (okR Qa) p -> okd (okR QT) p.
Proof. intro H. eapply okp_weaken; [exact H|]. intros; apply okR_T. Qed.

(* ---- procfs.rs / resolvers/procfs.rs -------------------------------------- *)

Section ProcfsDisc.
Variable fz : nat.
Variable cfg : bool.

Lemma fetch_mnt_id_ok fd n :
  real_fd fd = true -> stat_name n = true -> okd (okR QT) (fetch_mnt_id fz fd n).
Proof.
  intros Hfd Hn. unfold fetch_mnt_id.
  eapply okp_bind; [apply w_statx_ok; assumption|]. intros r _.
  destruct r as [[mask id]|e]; [constructor; exact I|].
  destruct (existsb _ _); constructor; exact I.
Qed.
Hint Resolve fetch_mnt_id_ok : okdb.

Lemma verify_same_mnt_ok m fd n :
  real_fd fd = true -> stat_name n = true -> okd (okR QT) (verify_same_mnt fz m fd n).
Proof.
  intros Hfd Hn. unfold verify_same_mnt.
  eapply okp_bindR; [apply fetch_mnt_id_ok; assumption| |intro; exact I].
  intros mnt _. destruct (opt_n_eqb m mnt); constructor; exact I.
Qed.
Hint Resolve verify_same_mnt_ok : okdb.

Lemma verify_is_procfs_ok fd : real_fd fd = true -> okd (okR QT) (verify_is_procfs fz fd).
Proof.
  intro Hfd. unfold verify_is_procfs, os.
  eapply okp_bindR; [apply okp_map_err, w_fstatfs_ok; assumption| |intro; exact I].
  intros t _. destruct (N.eqb t PROC_SUPER_MAGIC); constructor; exact I.
Qed.
Hint Resolve verify_is_procfs_ok : okdb.

Lemma verify_same_procfs_mnt_ok h fd : real_fd fd = true -> okd (okR QT) (verify_same_procfs_mnt fz h fd).
Proof.
  intro Hfd. unfold verify_same_procfs_mnt.
  eapply okp_bindR; [apply verify_same_mnt_ok; [assumption|reflexivity]| |intro; exact I].
  intros _ _. apply verify_is_procfs_ok; assumption.
Qed.
Hint Resolve verify_same_procfs_mnt_ok : okdb.

Lemma procfs_mask_magic rf : has (N.lor PROCFS_OPENAT2_RESOLVE rf) RESOLVE_NO_MAGICLINKS = true.
Proof. apply has_lor_l. reflexivity. Qed.
Lemma procfs_mask_beneath rf :
  has (N.lor PROCFS_OPENAT2_RESOLVE rf) RESOLVE_IN_ROOT
  || (has (N.lor PROCFS_OPENAT2_RESOLVE rf) RESOLVE_BENEATH && has (N.lor PROCFS_OPENAT2_RESOLVE rf) RESOLVE_NO_XDEV) = true.
Proof.
  apply orb_true_iff. right. apply andb_true_iff. split; apply has_lor_l; reflexivity.
Qed.

Lemma openat2_retry_ok n root p fl rs :
  real_fd root = true -> has rs RESOLVE_NO_MAGICLINKS = true ->
  (has rs RESOLVE_IN_ROOT || (has rs RESOLVE_BENEATH && has rs RESOLVE_NO_XDEV)) = true ->
  okd Qfd (openat2_retry fz n root p fl rs).
Proof.
  intros Hr Hm Hb. induction n as [|m IH]; cbn [openat2_retry]; [constructor; exact I|].
  eapply okp_bind; [apply w_openat2_ok; assumption|]. intros r Hfd.
  destruct r as [fd|e]; [constructor; exact Hfd|].
  destruct (N.eqb e EAGAIN); [exact IH|constructor; exact I].
Qed.

Lemma openat2_resolve_ok root p fl rf :
  real_fd root = true -> okd Qfd (openat2_resolve fz cfg root p fl rf).
Proof.
  intro Hr. unfold openat2_resolve, os. destruct cfg; cbn [negb]; [|constructor; exact I].
  destruct (N.eqb PROCFS_OPENAT2_RETRIES 0).
  - apply okp_map_err. apply w_openat2_ok; [assumption|apply procfs_mask_magic|apply procfs_mask_beneath].
  - apply openat2_retry_ok; [assumption|apply procfs_mask_magic|apply procfs_mask_beneath].
Qed.

Definition singles (cs : list bytes) : Prop := Forall (fun c => single c = true) cs.

Lemma singles_raw p : singles (raw_components p).
Proof.
  unfold singles, single. eapply Forall_impl; [|apply raw_components_no_slash].
  intros c H. cbn beta in H. rewrite H. reflexivity.
Qed.

Lemma singles_app a c : singles a -> singles c -> singles (a ++ c).
Proof. unfold singles. intros. apply Forall_app; split; assumption. Qed.

Lemma pwalk_body_ok m fl rf follow :
  (forall go, follow = Some go -> forall cur cs, real_fd cur = true -> singles cs -> okd Qfd (go cur cs)) ->
  forall cs cur, real_fd cur = true -> singles cs -> okd Qfd (pwalk_body fz m fl rf follow cur cs).
Proof.
  intros Hgo cs. induction cs as [|part0 rest IH]; intros cur Hcur Hcs; cbn [pwalk_body].
  - constructor. exact Hcur.
  - inversion Hcs as [|? ? Hp0 Hrest]; subst.
    set (part := if is_nil part0 then [DOT] else part0).
    assert (Hpart : single part = true) by (unfold part; destruct (is_nil part0); [reflexivity|exact Hp0]).
    destruct (is_dotdot part).
    { eapply okp_bind; [apply close_ok; assumption|]. intros _ _. constructor. exact I. }
    unfold os.
    eapply okp_bind; [apply okp_map_err, w_openat_ok; assumption|]. intros r Hr.
    destruct r as [next|e]; [|eapply okp_bind; [apply close_ok; assumption|]; intros _ _; constructor; exact I].
    cbn in Hr.
    assert (Hfail : forall e, okd (@Qfd ekind) (close next ;;; close cur ;;; Ret (Err e))).
    { intro e. eapply okp_bind; [apply close_ok; assumption|]. intros _ _.
      eapply okp_bind; [apply close_ok; assumption|]. intros _ _. constructor. exact I. }
    eapply okp_bind; [apply verify_same_mnt_ok; [assumption|reflexivity]|]. intros r1 _.
    destruct r1 as [_u|e]; [|apply Hfail].
    eapply okp_bind; [apply okp_map_err, w_fstatat_ok; [assumption|reflexivity]|]. intros r2 _.
    destruct r2 as [meta|e]; [|apply Hfail].
    assert (Hcont : okd (@Qfd ekind)
      (if negb (is_symlink_mode (st_mode meta)) then close cur;;; pwalk_body fz m fl rf follow next rest
       else if has rf RESOLVE_NO_SYMLINKS then close next;;; close cur;;; Ret (Err (OsError ELOOP))
       else match follow with
            | None => close next;;; close cur;;; Ret (Err (OsError ELOOP))
            | Some go =>
                r <- map_err OsError (w_readlinkat fz next []) ;;
                match r with
                | Err e => close next;;; close cur;;; Ret (Err e)
                | Ok target =>
                    if is_abs target then close next;;; close cur;;; Ret (Err (OsError ELOOP))
                    else close next;;; go cur (raw_components target ++ rest)
                end
            end)).
    { destruct (negb (is_symlink_mode (st_mode meta))).
      - eapply okp_bind; [apply close_ok; assumption|]. intros _ _. apply IH; assumption.
      - destruct (has rf RESOLVE_NO_SYMLINKS); [apply Hfail|].
        destruct follow as [go|]; [|apply Hfail].
        eapply okp_bind; [apply okp_map_err, w_readlinkat_ok; assumption|]. intros r3 _.
        destruct r3 as [target|e]; [|apply Hfail].
        destruct (is_abs target); [apply Hfail|].
        eapply okp_bind; [apply close_ok; assumption|]. intros _ _.
        eapply Hgo; [reflexivity|assumption|]. apply singles_app; [apply singles_raw|assumption]. }
    destruct (is_nil rest && negb (N.eqb (N.land fl PROCFS_CASE1_MASK) PROCFS_CASE1_VALUE)); [|exact Hcont].
    eapply okp_bind; [apply w_openat_ok; assumption|]. intros r4 Hr4.
    destruct r4 as [final|e].
    + cbn in Hr4.
      eapply okp_bind; [apply verify_same_mnt_ok; [assumption|reflexivity]|]. intros r5 _.
      destruct r5 as [_u2|e].
      * eapply okp_bind; [apply close_ok; assumption|]. intros _ _.
        eapply okp_bind; [apply close_ok; assumption|]. intros _ _. constructor. exact Hr4.
      * eapply okp_bind; [apply close_ok; assumption|]. intros _ _. apply Hfail.
    + destruct (_ || _); [apply Hfail|exact Hcont].
Qed.

Lemma pwalk_ok budget m fl rf cs cur :
  real_fd cur = true -> singles cs -> okd Qfd (pwalk fz budget m fl rf cur cs).
Proof.
  revert cs cur. induction budget as [|bd IH]; intros cs cur Hcur Hcs; cbn [pwalk].
  - apply pwalk_body_ok; [discriminate|assumption|assumption].
  - apply pwalk_body_ok; [|assumption|assumption].
    intros go Hgo. destruct bd; [discriminate|]. inversion Hgo; subst.
    intros; apply IH; assumption.
Qed.

Lemma opath_resolve_ok root p fl rf : real_fd root = true -> okd Qfd (opath_resolve fz root p fl rf).
Proof.
  intro Hr. unfold opath_resolve, os.
  eapply okp_bindR; [apply fetch_mnt_id_ok; [assumption|reflexivity]| |intro; exact I]. intros m _.
  eapply okp_bindR; [apply okp_map_err, dup_cloexec_ok; assumption| |intro; exact I]. intros cur Hcur.
  apply pwalk_ok; [exact Hcur|apply singles_raw].
Qed.

Lemma presolve_ok use root p fl rf : real_fd root = true -> okd Qfd (presolve fz cfg use root p fl rf).
Proof.
  intro Hr. unfold presolve. destruct (procfs_flags_invalid fl); [constructor; exact I|].
  destruct use; [apply openat2_resolve_ok|apply opath_resolve_ok]; assumption.
Qed.

Lemma task_cand_ok c tid : In c (thread_self_cands tid) -> stat_name c || is_task_path c = true.
Proof.
  unfold thread_self_cands. intros [H|[H|[H|[]]]]; subst; try reflexivity.
  rewrite task_path_ok. apply orb_true_r.
Qed.

Lemma into_path_ok root base : real_fd root = true -> okd QT (into_path fz root base).
Proof.
  intro Hr. destruct base; cbn [into_path]; try (constructor; exact I).
  constructor; [split; reflexivity|]. intro rt.
  pose proof (task_cand_ok) as Hc. specialize (fun c => Hc c (as_num rt)).
  revert Hc. generalize (thread_self_cands (as_num rt)). intros cands Hc.
  induction cands as [|c rest IH]; [constructor; left; reflexivity|].
  eapply okp_bind; [apply w_fstatat_ok; [assumption|apply Hc; left; reflexivity]|]. intros r _.
  destruct r; [constructor; exact I|]. apply IH. intros c' Hin. apply Hc. right. exact Hin.
Qed.

Definition Qph {E} : result phandle E -> Prop := okR (fun h => real_fd (ph_fd h) = true).

Lemma try_from_fd_ok inner : real_fd inner = true -> okd Qph (try_from_fd fz cfg inner).
Proof.
  intro Hi. unfold try_from_fd.
  eapply okp_bind; [apply verify_is_procfs_ok; assumption|]. intros r _.
  destruct r as [_u|e]; [|eapply okp_bind; [apply close_ok; assumption|]; intros _ _; constructor; exact I].
  eapply okp_bind; [apply w_fstatat_ok; [assumption|reflexivity]|]. intros r _.
  destruct r as [meta|e].
  2: { destruct TRY_FROM_FD_FSTAT_PANICS eqn:Efl; [constructor; right; right; left; split; [exact Efl|reflexivity]|].
       eapply okp_bind; [apply close_ok; assumption|]; intros _ _; constructor; exact I. }
  destruct (negb _); [eapply okp_bind; [apply close_ok; assumption|]; intros _ _; constructor; exact I|].
  eapply okp_bind; [apply fetch_mnt_id_ok; [assumption|reflexivity]|]. intros r _.
  destruct r as [mnt|e]; [|eapply okp_bind; [apply close_ok; assumption|]; intros _ _; constructor; exact I].
  assert (Hp : Forall (fun p => single p = true) SUBSET_PROBES) by (repeat constructor).
  revert Hp. generalize SUBSET_PROBES. intros ps Hp.
  induction ps as [|p rest IH]; [constructor; exact Hi|].
  inversion Hp; subst.
  constructor; [pdn_solve|]. intro r. destruct (as_unit r); [apply IH; assumption|constructor; exact Hi].
Qed.

Lemma new_fsopen_ok subset : okd Qph (new_fsopen fz cfg subset).
Proof.
  unfold new_fsopen, os.
  eapply okp_bindR; [apply okp_map_err, w_fsopen_ok| |intro; exact I]. intros sfd Hs.
  eapply okp_bind.
  { instantiate (1 := QT). destruct subset; [|constructor; exact I].
    eapply okp_bind; [apply w_fsconfig_set_string_ok; assumption|]. intros _ _.
    eapply okp_bind; [apply w_fsconfig_set_string_ok; assumption|]. intros _ _. constructor; exact I. }
  intros _ _.
  eapply okp_bind; [apply okp_map_err, w_fsconfig_create_ok; assumption|]. intros r _.
  destruct r as [_u|e]; [|eapply okp_bind; [apply close_ok; assumption|]; intros _ _; constructor; exact I].
  eapply okp_bind; [apply okp_map_err, w_fsmount_ok; assumption|]. intros r Hm.
  destruct r as [mfd|e]; [|eapply okp_bind; [apply close_ok; assumption|]; intros _ _; constructor; exact I].
  eapply okp_bind; [apply try_from_fd_ok; exact Hm|]. intros r Hr.
  eapply okp_bind; [apply close_ok; assumption|]. intros _ _. constructor. exact Hr.
Qed.

Lemma new_open_tree_ok fl : okd Qph (new_open_tree fz cfg fl).
Proof.
  unfold new_open_tree, os.
  eapply okp_bindR; [apply okp_map_err, w_open_tree_ok| |intro; exact I]. intros fd Hfd.
  apply try_from_fd_ok; exact Hfd.
Qed.

Lemma new_unsafe_open_ok : okd Qph (new_unsafe_open fz cfg).
Proof.
  unfold new_unsafe_open, os.
  eapply okp_bindR; [apply okp_map_err, w_openat_proc_ok| |intro; exact I]. intros fd Hfd.
  apply try_from_fd_ok; exact Hfd.
Qed.

Lemma or_else_ok {A} (Qa : A -> Prop) (p q : prog (result A ekind)) :
  okd (okR Qa) p -> okd (okR Qa) q -> okd (okR Qa) (or_else p q).
Proof.
  intros Hp Hq. unfold or_else. eapply okp_bind; [exact Hp|]. intros r Hr.
  destruct r; [constructor; exact Hr|exact Hq].
Qed.

Lemma procfs_new_ok : okd Qph (procfs_new fz cfg).
Proof.
  unfold procfs_new. repeat apply or_else_ok;
    [apply new_fsopen_ok|apply new_open_tree_ok|apply new_unsafe_open_ok].
Qed.
Lemma procfs_new_unmasked_ok : okd Qph (procfs_new_unmasked fz cfg).
Proof.
  unfold procfs_new_unmasked. repeat apply or_else_ok;
    [apply new_fsopen_ok|apply new_open_tree_ok|apply new_unsafe_open_ok].
Qed.

Lemma open_base_ok h base : real_fd (ph_fd h) = true -> okd Qfd (open_base fz cfg h base).
Proof.
  intro Hh. unfold open_base.
  eapply okp_bind; [apply into_path_ok; assumption|]. intros p _.
  eapply okp_bindR; [apply presolve_ok; assumption| |intro; exact I]. intros fd Hfd.
  eapply okp_bind; [apply verify_same_procfs_mnt_ok; assumption|]. intros r _.
  destruct r; [constructor; exact Hfd|].
  eapply okp_bind; [apply close_ok; assumption|]. intros _ _. constructor; exact I.
Qed.

Lemma popen_ok fuel : forall h base sub fl,
  real_fd (ph_fd h) = true -> okd Qfd (popen fz cfg fuel h base sub fl).
Proof.
  induction fuel as [|f IH]; intros h base sub fl Hh; cbn [popen]; [constructor|].
  eapply okp_bindR; [apply open_base_ok; assumption| |intro; exact I]. intros basedir Hb.
  eapply okp_bind; [apply presolve_ok; assumption|]. intros r Hr.
  eapply okp_bind.
  { instantiate (1 := Qfd). destruct r as [fd|e]; [|constructor; exact I]. cbn in Hr.
    eapply okp_bind; [apply verify_same_procfs_mnt_ok; assumption|]. intros v _.
    destruct v; [constructor; exact Hr|].
    eapply okp_bind; [apply close_ok; assumption|]. intros _ _. constructor; exact I. }
  intros r2 Hr2.
  eapply okp_bind.
  { instantiate (1 := Qfd). destruct r2 as [fd|e]; [constructor; exact Hr2|].
    destruct (ph_subset h && ekind_is_enoent e); [|constructor; exact I].
    eapply okp_bind; [apply procfs_new_unmasked_ok|]. intros nh Hnh.
    destruct nh as [h'|e']; [|constructor; exact I]. cbn in Hnh.
    destruct (RETRY_ONLY_UNMASKED && ph_subset h').
    { eapply okp_bind; [apply close_ok; assumption|]. intros _ _. constructor; exact I. }
    eapply okp_bind; [apply IH; exact Hnh|]. intros r' Hr'.
    eapply okp_bind; [apply close_ok; assumption|]. intros _ _. constructor; exact Hr'. }
  intros r3 Hr3.
  eapply okp_bind; [apply close_ok; assumption|]. intros _ _. constructor; exact Hr3.
Qed.

Lemma preadlink_ok fuel h base sub :
  real_fd (ph_fd h) = true -> okd (okR QT) (preadlink fz cfg fuel h base sub).
Proof.
  intro Hh. unfold preadlink, os.
  eapply okp_bindR; [apply popen_ok; assumption| |intro; exact I]. intros link Hl.
  eapply okp_bind; [apply okp_map_err, w_readlinkat_ok; assumption|]. intros r _.
  eapply okp_bind; [apply close_ok; assumption|]. intros _ _. constructor. apply okR_T.
Qed.

Lemma Pdn_Pd c : Pdn c -> Pd c.
Proof. intros [H _]; exact H. Qed.

(* open_follow: everything is disciplined; exactly one call may lack O_NOFOLLOW *)
Lemma popen_follow_ok fuel h base sub fl :
  real_fd (ph_fd h) = true -> okf Qfd (popen_follow fz cfg fuel h base sub fl).
Proof.
  intro Hh. unfold popen_follow.
  destruct (negb _ && _); [constructor; exact I|].
  destruct (path_strip_trailing_slash sub) as [sub' ts].
  destruct (OPEN_FOLLOW_REFUSAL_AFTER_SLASH && _); [constructor; exact I|].
  eapply okp_bind; [eapply okp_weaken_P; [apply Pdn_Pd|]; apply preadlink_ok; assumption|]. intros rl _.
  destruct rl as [_b|e];
    [|destruct (_ && negb _); [constructor; exact I|eapply okp_weaken_P; [apply Pdn_Pd|]; apply popen_ok; assumption]].
  destruct (path_split sub') as [[[parent [trailing|]]|e]|] eqn:Hsp; try (constructor; exact I);
    [|exfalso; exact (path_split_total _ Hsp)].
  eapply okp_bindR; [eapply okp_weaken_P; [apply Pdn_Pd|]; apply popen_ok; assumption| |intro; exact I].
  intros pfd Hp.
  assert (Hcl : forall e, okf (@Qfd ekind) (close pfd ;;; Ret (Err e))).
  { intro e'. eapply okp_weaken_P; [apply Pdn_Pd|].
    eapply okp_bind; [apply close_ok; assumption|]. intros _ _. constructor; exact I. }
  assert (Htr : single trailing = true).
  { unfold single. destruct (path_split_name_single _ _ _ Hsp) as [_ Hs]. rewrite Hs. reflexivity. }
  eapply okp_bind; [eapply okp_weaken_P; [apply Pdn_Pd|]; apply fetch_mnt_id_ok; [assumption|reflexivity]|].
  intros r _. destruct r as [pm|e]; [|apply Hcl].
  eapply okp_bind; [eapply okp_weaken_P; [apply Pdn_Pd|]; apply verify_same_mnt_ok; [assumption|]|].
  { unfold stat_name. rewrite Htr. apply orb_true_r. }
  intros r _. destruct r as [_u|e]; [|apply Hcl].
  unfold os. eapply okp_bind; [apply okp_map_err, w_openat_follow_ok; assumption|]. intros r Hr.
  eapply okp_bind; [eapply okp_weaken_P; [apply Pdn_Pd|]; apply close_ok; assumption|]. intros _ _.
  constructor. exact Hr.
Qed.

Lemma reopen_ok fuel gh fd fl :
  real_fd (ph_fd gh) = true -> real_fd fd = true -> okf Qfd (reopen fz cfg fuel gh fd fl).
Proof.
  intros Hg Hfd. unfold reopen, os.
  eapply okp_bindR; [eapply okp_weaken_P; [apply Pdn_Pd|]; apply okp_map_err, w_fstatat_ok; [assumption|reflexivity]
                    | |intro; exact I]. intros meta _.
  destruct (is_symlink_mode _); [constructor; exact I|].
  destruct (proc_subpath fd); [|constructor; exact I].
  apply popen_follow_ok; assumption.
Qed.

Lemma as_unsafe_path_ok fuel gh fd :
  real_fd (ph_fd gh) = true -> okd (okR QT) (as_unsafe_path fz cfg fuel gh fd).
Proof.
  intro Hg. unfold as_unsafe_path. destruct (proc_subpath fd); [|constructor; exact I].
  apply preadlink_ok; assumption.
Qed.

Lemma is_magiclink_filesystem_ok fd : real_fd fd = true -> okd (okR QT) (is_magiclink_filesystem fz fd).
Proof.
  intro Hfd. unfold is_magiclink_filesystem, os.
  eapply okp_bindR; [apply okp_map_err, w_fstatfs_ok; assumption| |intro; exact I].
  intros t _. constructor; exact I.
Qed.

End ProcfsDisc.
