(* EffectProofs.v -- C03 / C14, for ALL kernel answers: how many calls that change the tree an
   operation can issue.  Lookups of either backend -- the emulated walk with its procfs
   round-trips (including the creation of a fresh procfs handle when the global one is masked),
   the openat2 retry loops -- issue NONE; create (every inode type) / create_file / rename /
   remove_file / remove_dir issue at most ONE. *)
From PV Require Import ProgTac PathProofs BitsProofs RootM FaultProofs.
From Coq Require Import Lia.
Open Scope N_scope.

Arguments N.eqb : simpl never.
Arguments N.lor : simpl never.
Arguments N.land : simpl never.

(* a call that changes the tree *)
Definition tree_eff (c : call) : bool :=
  match c with
  | Mkdirat _ _ _ | Mknodat _ _ _ _ | Unlinkat _ _ _ | Linkat _ _ _ _ _ | Symlinkat _ _ _
  | Renameat _ _ _ _ | Renameat2 _ _ _ _ _ => true
  | Openat _ _ fl _ => has fl O_CREAT
  | Openat2 _ _ fl _ _ => has fl O_CREAT
  | _ => false
  end.

(* the calls counted below: those that change the tree, and -- so that the same judgement
   separates lookups from everything the dynamic kernel model (theories/Dyn.v) answers
   differently from the static one -- the two calls by which remove_all scans a directory
   (getdents64, fcntl(F_GETFL)).  A lookup issues none of them. *)
Definition eff (c : call) : bool :=
  match c with
  | Mkdirat _ _ _ | Mknodat _ _ _ _ | Unlinkat _ _ _ | Linkat _ _ _ _ _ | Symlinkat _ _ _
  | Renameat _ _ _ _ | Renameat2 _ _ _ _ _ => true
  | Openat _ _ fl _ => has fl O_CREAT
  | Openat2 _ _ fl _ _ => has fl O_CREAT
  | Getdents _ | FcntlGetfl _ => true
  | _ => false
  end.

Lemma tree_eff_eff c : tree_eff c = true -> eff c = true.
Proof. destruct c; cbn; intro H; try exact H; discriminate. Qed.

Definition ne {A} (p : prog A) : Prop := calls_le eff 0 p.

Lemma ne_ret {A} (a : A) : ne (Ret a).
Proof. constructor. Qed.

Lemma ne_call {A} c (k : resp -> prog A) : eff c = false -> (forall r, ne (k r)) -> ne (Call c k).
Proof. intros H Hk. apply cl_call_miss; assumption. Qed.

Lemma ne_bind {A B} (p : prog A) (g : A -> prog B) : ne p -> (forall a, ne (g a)) -> ne (bind p g).
Proof. intros Hp Hg. unfold ne. change 0%nat with (0 + 0)%nat. apply calls_le_bind; assumption. Qed.

Lemma ne_bindR {A B E} (p : prog (result A E)) (g : A -> prog (result B E)) :
  ne p -> (forall a, ne (g a)) -> ne (bindR p g).
Proof. intros Hp Hg. unfold bindR. apply ne_bind; [exact Hp|]. intros [a|e]; [apply Hg|apply ne_ret]. Qed.

Lemma ne_map_err {A E F} (g : E -> F) (p : prog (result A E)) : ne p -> ne (map_err g p).
Proof. intro H. unfold map_err. apply ne_bind; [exact H|]. intro; apply ne_ret. Qed.

Lemma ne_os {A} (p : prog (result A N)) : ne p -> ne (os p).
Proof. apply ne_map_err. Qed.

(* O_CREAT is one bit: it is in a union iff it is in one of the parts *)
Lemma has_creat_lor a c : has (N.lor a c) O_CREAT = has a O_CREAT || has c O_CREAT.
Proof.
  unfold has. assert (Hb : forall x, N.eqb (N.land x O_CREAT) O_CREAT = N.testbit x 6).
  { intro x. change O_CREAT with (2 ^ 6). destruct (N.testbit x 6) eqn:E.
    - apply N.eqb_eq. apply N.bits_inj. intro n. rewrite N.land_spec, N.pow2_bits_eqb.
      destruct (N.eqb_spec 6 n) as [<-|Hne]; [rewrite E; reflexivity|apply andb_false_r].
    - apply N.eqb_neq. intro H. pose proof (f_equal (fun y => N.testbit y 6) H) as H6. cbn beta in H6.
      rewrite N.land_spec, E, N.pow2_bits_true in H6. discriminate. }
  rewrite !Hb. apply N.lor_spec.
Qed.

Section Eff.
Variable fz : nat.
Variable cfg : bool.

Lemma close_ne fd : ne (close fd).
Proof. unfold close. apply ne_call; [reflexivity|intro; apply ne_ret]. Qed.

Lemma frozen_ne : forall g fd, ne (frozen g fd).
Proof.
  induction g as [|f IH]; intros fd; cbn [frozen]; [constructor|].
  apply ne_call; [reflexivity|]. intro rt. generalize (thread_self_cands (as_num rt)). intro cands.
  induction cands as [|c rest IHc]; [constructor|].
  apply ne_call; [reflexivity|]. intro r. destruct (as_stat r).
  - destruct (proc_subpath fd); [|apply ne_ret]. apply ne_call; [reflexivity|intro; apply ne_ret].
  - apply ne_bind; [apply IH|intro; exact IHc].
Qed.

Lemma fail1_ne {A} fd e : ne (@fail1 fz A fd e).
Proof. unfold fail1. apply ne_bind; [apply frozen_ne|intro; apply ne_ret]. Qed.

Lemma simple1_ne {A} fd path c (dec : resp -> result A N) : eff c = false -> ne (simple1 fz fd path c dec).
Proof.
  intro Hc. unfold simple1, rustix_path. destruct (negb (valid_fd fd)); [apply ne_ret|].
  destruct (has_nul path); [apply fail1_ne|]. apply ne_call; [exact Hc|]. intro r.
  destruct (dec r); [apply ne_ret|apply fail1_ne].
Qed.

Lemma w_fstatat_ne fd n : ne (w_fstatat fz fd n).
Proof. apply simple1_ne. reflexivity. Qed.
Lemma w_statx_ne fd n m : ne (w_statx fz fd n m).
Proof. apply simple1_ne. reflexivity. Qed.

Lemma w_fstatfs_ne fd : ne (w_fstatfs fz fd).
Proof.
  unfold w_fstatfs. destruct (negb (valid_fd fd)); [apply ne_ret|]. apply ne_call; [reflexivity|]. intro r.
  destruct (as_fstype r); [apply ne_ret|apply fail1_ne].
Qed.

Lemma w_readlinkat_ne fd p : ne (w_readlinkat fz fd p).
Proof.
  unfold w_readlinkat, rustix_path. destruct (negb (valid_fd fd)); [apply ne_ret|].
  destruct (has_nul p); [apply fail1_ne|]. apply ne_call; [reflexivity|]. intro r.
  destruct (as_bytes r) as [bs|e]; [|apply fail1_ne]. destruct (N.leb _ _); [apply fail1_ne|apply ne_ret].
Qed.

Lemma forced_no_creat : has OPENAT_FORCED O_CREAT = false /\ has O_LARGEFILE O_CREAT = false /\
                        has OPENAT_NOFOLLOW_FORCED O_CREAT = false /\ has OPENAT2_FORCED O_CREAT = false.
Proof. repeat split; vm_compute; reflexivity. Qed.

Lemma w_openat_follow_ne fd n fl m : has fl O_CREAT = false -> ne (w_openat_follow fz fd n fl m).
Proof.
  intro Hfl. unfold w_openat_follow, rustix_path. destruct (negb (valid_fd fd)); [apply ne_ret|].
  destruct (has_nul n); [apply fail1_ne|]. apply ne_call.
  - cbn [eff]. destruct forced_no_creat as (H1 & H2 & _). rewrite !has_creat_lor, Hfl, H1, H2. reflexivity.
  - intro r. destruct (as_fd r); [apply ne_ret|apply fail1_ne].
Qed.

Lemma w_openat_ne fd n fl m : has fl O_CREAT = false -> ne (w_openat fz fd n fl m).
Proof.
  intro Hfl. unfold w_openat. apply w_openat_follow_ne. destruct forced_no_creat as (_ & _ & H3 & _).
  rewrite has_creat_lor, Hfl, H3. reflexivity.
Qed.

Lemma w_openat2_ne fd p fl m rs : has fl O_CREAT = false -> ne (w_openat2 fz fd p fl m rs).
Proof.
  intro Hfl. unfold w_openat2. destruct (negb (valid_fd fd)); [apply ne_ret|].
  destruct (OPENAT2_NUL_EINVAL && has_nul p); [apply fail1_ne|]. apply ne_call.
  - cbn [eff]. destruct forced_no_creat as (_ & _ & _ & H4). unfold openat2_flags.
    destruct (has _ O_PATH); rewrite !has_creat_lor, Hfl, H4; reflexivity.
  - intro r. destruct (as_fd r); [apply ne_ret|apply fail1_ne].
Qed.

Lemma dup_cloexec_ne fd : ne (dup_cloexec fd).
Proof. unfold dup_cloexec. apply ne_call; [reflexivity|intro; apply ne_ret]. Qed.

(* ---- procfs ---------------------------------------------------------------------------- *)

Lemma fetch_mnt_id_ne fd n : ne (fetch_mnt_id fz fd n).
Proof.
  unfold fetch_mnt_id. apply ne_bind; [apply w_statx_ne|]. intros [[mask id]|e]; [apply ne_ret|].
  destruct (existsb _ _); apply ne_ret.
Qed.

Lemma verify_same_mnt_ne m fd n : ne (verify_same_mnt fz m fd n).
Proof. unfold verify_same_mnt. apply ne_bindR; [apply fetch_mnt_id_ne|]. intro. destruct (opt_n_eqb _ _); apply ne_ret. Qed.

Lemma verify_is_procfs_ne fd : ne (verify_is_procfs fz fd).
Proof. unfold verify_is_procfs. apply ne_bindR; [apply ne_os, w_fstatfs_ne|]. intro. destruct (N.eqb _ _); apply ne_ret. Qed.

Lemma verify_same_procfs_mnt_ne h fd : ne (verify_same_procfs_mnt fz h fd).
Proof. unfold verify_same_procfs_mnt. apply ne_bindR; [apply verify_same_mnt_ne|intro; apply verify_is_procfs_ne]. Qed.

Lemma openat2_retry_ne n root p fl rs : has fl O_CREAT = false -> ne (openat2_retry fz n root p fl rs).
Proof.
  intro Hfl. induction n as [|m IH]; cbn [openat2_retry]; [apply ne_ret|].
  apply ne_bind; [apply w_openat2_ne, Hfl|]. intros [fd|e]; [apply ne_ret|]. destruct (N.eqb e EAGAIN); [exact IH|apply ne_ret].
Qed.

Lemma openat2_resolve_ne root p fl rf : has fl O_CREAT = false -> ne (openat2_resolve fz cfg root p fl rf).
Proof.
  intro Hfl. unfold openat2_resolve. destruct (negb cfg); [apply ne_ret|].
  destruct (N.eqb PROCFS_OPENAT2_RETRIES 0); [apply ne_os, w_openat2_ne, Hfl|apply openat2_retry_ne, Hfl].
Qed.

Lemma walk_flags_no_creat : has PROCFS_WALK_FLAGS O_CREAT = false /\ has PROCFS_FINAL_EXTRA O_CREAT = false.
Proof. split; vm_compute; reflexivity. Qed.

Lemma pwalk_body_ne m fl rf follow :
  has fl O_CREAT = false ->
  (forall go, follow = Some go -> forall cur cs, ne (go cur cs)) ->
  forall cs cur, ne (pwalk_body fz m fl rf follow cur cs).
Proof.
  intros Hfl Hgo cs. induction cs as [|part0 rest IH]; intro cur; cbn [pwalk_body]; [apply ne_ret|].
  cbn zeta. set (part := if is_nil part0 then [DOT] else part0).
  destruct (is_dotdot part); [apply ne_bind; [apply close_ne|intro; apply ne_ret]|].
  apply ne_bind; [apply ne_os, w_openat_ne; apply walk_flags_no_creat|]. intros [next|e].
  2:{ apply ne_bind; [apply close_ne|intro; apply ne_ret]. }
  assert (Hfail : forall e, ne (close next ;;; close cur ;;; Ret (Err e : result Z ekind))).
  { intro e. apply ne_bind; [apply close_ne|]. intro. apply ne_bind; [apply close_ne|intro; apply ne_ret]. }
  apply ne_bind; [apply verify_same_mnt_ne|]. intros [u|e]; [|apply Hfail].
  apply ne_bind; [apply ne_os, w_fstatat_ne|]. intros [meta|e]; [|apply Hfail].
  assert (Hcont : ne (if negb (is_symlink_mode (st_mode meta)) then close cur ;;; pwalk_body fz m fl rf follow next rest
                      else if has rf RESOLVE_NO_SYMLINKS then close next ;;; close cur ;;; Ret (Err (OsError ELOOP))
                      else match follow with
                           | None => close next ;;; close cur ;;; Ret (Err (OsError ELOOP))
                           | Some go =>
                               r <- os (w_readlinkat fz next []) ;;
                               match r with
                               | Err e => close next ;;; close cur ;;; Ret (Err e)
                               | Ok target =>
                                   if is_abs target then close next ;;; close cur ;;; Ret (Err (OsError ELOOP))
                                   else close next ;;; go cur (raw_components target ++ rest)
                               end
                           end)).
  { destruct (negb _); [apply ne_bind; [apply close_ne|intro; apply IH]|].
    destruct (has rf RESOLVE_NO_SYMLINKS); [apply Hfail|].
    destruct follow as [go|]; [|apply Hfail].
    apply ne_bind; [apply ne_os, w_readlinkat_ne|]. intros [target|e]; [|apply Hfail].
    destruct (is_abs target); [apply Hfail|]. apply ne_bind; [apply close_ne|]. intro. eapply Hgo. reflexivity. }
  destruct (is_nil rest && negb _); [|exact Hcont].
  apply ne_bind.
  { apply w_openat_ne. rewrite has_creat_lor, Hfl. apply walk_flags_no_creat. }
  intros [final|e].
  - apply ne_bind; [apply verify_same_mnt_ne|]. intros [u2|e2].
    + apply ne_bind; [apply close_ne|]. intro. apply ne_bind; [apply close_ne|intro; apply ne_ret].
    + apply ne_bind; [apply close_ne|intro; apply Hfail].
  - destruct (_ || _); [apply Hfail|exact Hcont].
Qed.

Lemma pwalk_ne budget m fl rf : has fl O_CREAT = false -> forall cur cs, ne (pwalk fz budget m fl rf cur cs).
Proof.
  intro Hfl. induction budget as [|bd IH]; intros cur cs; cbn [pwalk].
  - apply pwalk_body_ne; [exact Hfl|discriminate].
  - apply pwalk_body_ne; [exact Hfl|]. intros go Hgo. destruct bd; [discriminate|]. inversion Hgo; subst. apply IH.
Qed.

Lemma opath_resolve_ne root p fl rf : has fl O_CREAT = false -> ne (opath_resolve fz root p fl rf).
Proof.
  intro Hfl. unfold opath_resolve. apply ne_bindR; [apply fetch_mnt_id_ne|]. intro m.
  apply ne_bindR; [apply ne_os, dup_cloexec_ne|]. intro cur. apply pwalk_ne, Hfl.
Qed.

Lemma invalid_false_no_creat fl : procfs_flags_invalid fl = false -> has fl O_CREAT = false.
Proof.
  unfold procfs_flags_invalid. intro H. apply orb_false_iff in H. destruct H as [H _].
  apply (intersects_false_has fl PROCFS_INVALID_FLAGS O_CREAT); [discriminate|reflexivity|exact H].
Qed.

Lemma presolve_ne use root p fl rf : ne (presolve fz cfg use root p fl rf).
Proof.
  unfold presolve. destruct (procfs_flags_invalid fl) eqn:E; [apply ne_ret|].
  pose proof (invalid_false_no_creat fl E) as Hfl.
  destruct use; [apply openat2_resolve_ne, Hfl|apply opath_resolve_ne, Hfl].
Qed.

Lemma into_path_ne root base : ne (into_path fz root base).
Proof.
  unfold into_path. destruct base; try apply ne_ret.
  apply ne_call; [reflexivity|]. intro rt. generalize (thread_self_cands (as_num rt)). intro cands.
  induction cands as [|c rest IH]; [constructor|].
  apply ne_bind; [apply w_fstatat_ne|]. intros [st|e]; [apply ne_ret|exact IH].
Qed.

Lemma try_from_fd_ne inner : ne (try_from_fd fz cfg inner).
Proof.
  unfold try_from_fd. apply ne_bind; [apply verify_is_procfs_ne|]. intros [u|e].
  2:{ apply ne_bind; [apply close_ne|intro; apply ne_ret]. }
  apply ne_bind; [apply w_fstatat_ne|]. intros [meta|e].
  2:{ destruct TRY_FROM_FD_FSTAT_PANICS; [constructor|apply ne_bind; [apply close_ne|intro; apply ne_ret]]. }
  destruct (negb _); [apply ne_bind; [apply close_ne|intro; apply ne_ret]|].
  apply ne_bind; [apply fetch_mnt_id_ne|]. intros [mnt|e]; [|apply ne_bind; [apply close_ne|intro; apply ne_ret]].
  generalize SUBSET_PROBES. intro ps. induction ps as [|p rest IH]; [apply ne_ret|].
  apply ne_call; [reflexivity|]. intro r. destruct (as_unit r); [exact IH|apply ne_ret].
Qed.

Lemma w_fsconfig_set_string_ne sfd k v : ne (w_fsconfig_set_string fz sfd k v).
Proof.
  unfold w_fsconfig_set_string. destruct (negb (valid_fd sfd)); [apply ne_ret|]. apply ne_call; [reflexivity|].
  intro r. destruct (as_unit r); [apply ne_ret|apply fail1_ne].
Qed.

Lemma new_fsopen_ne subset : ne (new_fsopen fz cfg subset).
Proof.
  unfold new_fsopen. apply ne_bindR.
  { apply ne_os. unfold w_fsopen. apply ne_call; [reflexivity|intro; apply ne_ret]. }
  intro sfd. apply ne_bind.
  { destruct subset; [|apply ne_ret]. apply ne_bind; [apply w_fsconfig_set_string_ne|]. intro.
    apply ne_bind; [apply w_fsconfig_set_string_ne|intro; apply ne_ret]. }
  intro. apply ne_bind.
  { apply ne_os. unfold w_fsconfig_create. destruct (negb (valid_fd sfd)); [apply ne_ret|].
    apply ne_call; [reflexivity|]. intro r. destruct (as_unit r); [apply ne_ret|apply fail1_ne]. }
  intros [u|e]; [|apply ne_bind; [apply close_ne|intro; apply ne_ret]].
  apply ne_bind.
  { apply ne_os. unfold w_fsmount. destruct (negb (valid_fd sfd)); [apply ne_ret|].
    apply ne_call; [reflexivity|]. intro r. destruct (as_fd r); [apply ne_ret|apply fail1_ne]. }
  intros [mfd|e]; [|apply ne_bind; [apply close_ne|intro; apply ne_ret]].
  apply ne_bind; [apply try_from_fd_ne|]. intro. apply ne_bind; [apply close_ne|intro; apply ne_ret].
Qed.

Lemma new_open_tree_ne fl : ne (new_open_tree fz cfg fl).
Proof.
  unfold new_open_tree. apply ne_bindR; [|intro; apply try_from_fd_ne].
  apply ne_os. unfold w_open_tree, rustix_path. destruct (negb (valid_fd AT_FDCWD)); [apply ne_ret|].
  destruct (has_nul _); [apply fail1_ne|]. apply ne_call; [reflexivity|]. intro r.
  destruct (as_fd r); [apply ne_ret|apply fail1_ne].
Qed.

Lemma new_unsafe_open_ne : ne (new_unsafe_open fz cfg).
Proof.
  unfold new_unsafe_open. apply ne_bindR; [|intro; apply try_from_fd_ne].
  apply ne_os, w_openat_ne. vm_compute. reflexivity.
Qed.

Lemma or_else_ne {A} (p q : prog (result A ekind)) : ne p -> ne q -> ne (or_else p q).
Proof. intros Hp Hq. unfold or_else. apply ne_bind; [exact Hp|]. intros [a|e]; [apply ne_ret|exact Hq]. Qed.

Lemma procfs_new_unmasked_ne : ne (procfs_new_unmasked fz cfg).
Proof.
  unfold procfs_new_unmasked. apply or_else_ne; [apply or_else_ne|]; [apply new_fsopen_ne|apply new_open_tree_ne|apply new_unsafe_open_ne].
Qed.

Lemma open_base_ne h base : ne (open_base fz cfg h base).
Proof.
  unfold open_base. apply ne_bind; [apply into_path_ne|]. intro p.
  apply ne_bindR; [apply presolve_ne|]. intro fd.
  apply ne_bind; [apply verify_same_procfs_mnt_ne|]. intros [u|e]; [apply ne_ret|apply ne_bind; [apply close_ne|intro; apply ne_ret]].
Qed.

Lemma popen_ne fuel : forall h base sub fl, ne (popen fz cfg fuel h base sub fl).
Proof.
  induction fuel as [|f IH]; intros h base sub fl; cbn [popen]; [constructor|].
  apply ne_bindR; [apply open_base_ne|]. intro basedir.
  apply ne_bind; [apply presolve_ne|]. intro r.
  apply ne_bind.
  { destruct r as [fd|e]; [|apply ne_ret]. apply ne_bind; [apply verify_same_procfs_mnt_ne|].
    intros [u|e]; [apply ne_ret|apply ne_bind; [apply close_ne|intro; apply ne_ret]]. }
  intro r2. apply ne_bind.
  { destruct r2 as [fd|e]; [apply ne_ret|]. destruct (ph_subset h && ekind_is_enoent e); [|apply ne_ret].
    apply ne_bind; [apply procfs_new_unmasked_ne|]. intros [h'|e']; [|apply ne_ret].
    destruct (RETRY_ONLY_UNMASKED && ph_subset h'); [apply ne_bind; [apply close_ne|intro; apply ne_ret]|].
    apply ne_bind; [apply IH|]. intro. apply ne_bind; [apply close_ne|intro; apply ne_ret]. }
  intro r3. apply ne_bind; [apply close_ne|intro; apply ne_ret].
Qed.

Lemma preadlink_ne fuel h base sub : ne (preadlink fz cfg fuel h base sub).
Proof.
  unfold preadlink. apply ne_bindR; [apply popen_ne|]. intro link.
  apply ne_bind; [apply ne_os, w_readlinkat_ne|]. intro. apply ne_bind; [apply close_ne|intro; apply ne_ret].
Qed.

Lemma as_unsafe_path_ne fuel gh fd : ne (as_unsafe_path fz cfg fuel gh fd).
Proof. unfold as_unsafe_path. destruct (proc_subpath fd); [apply preadlink_ne|apply ne_ret]. Qed.

(* open_follow: the final open of the magic-link carries the caller's flags, and O_CREAT among them is refused before *)
Lemma refused_false_no_creat fl : follow_refused fl = false -> has fl O_CREAT = false.
Proof.
  unfold follow_refused. intro H. apply orb_false_iff in H. destruct H as [H _].
  destruct (N.eqb OPEN_FOLLOW_REFUSED 0) eqn:E0.
  - (* no refusal in the source at all: the fact would be 0; then nothing is known -- but then the fact is not what the
       tree has (T0), and this branch is closed by computation *)
    apply N.eqb_eq in E0. discriminate E0.
  - apply (intersects_false_has fl OPEN_FOLLOW_REFUSED O_CREAT); [discriminate|reflexivity|exact H].
Qed.

Lemma popen_follow_ne fuel h base sub fl : ne (popen_follow fz cfg fuel h base sub fl).
Proof.
  unfold popen_follow.
  destruct (negb OPEN_FOLLOW_REFUSAL_AFTER_SLASH && follow_refused fl) eqn:E1; [apply ne_ret|].
  destruct (path_strip_trailing_slash sub) as [sub' ts].
  set (fl' := if ts then N.lor fl OPEN_FOLLOW_SLASH_FLAG else fl).
  destruct (OPEN_FOLLOW_REFUSAL_AFTER_SLASH && follow_refused fl') eqn:E2; [apply ne_ret|].
  assert (Hfl : has fl' O_CREAT = false).
  { destruct OPEN_FOLLOW_REFUSAL_AFTER_SLASH; cbn [negb andb] in E1, E2.
    - apply refused_false_no_creat, E2.
    - pose proof (refused_false_no_creat fl E1) as H0. unfold fl'. destruct ts; [|exact H0].
      rewrite has_creat_lor, H0. vm_compute. reflexivity. }
  apply ne_bind; [apply preadlink_ne|]. intros [bs|e].
  2:{ destruct (_ && negb _); [apply ne_ret|apply popen_ne]. }
  destruct (path_split sub') as [[[parent [trailing|]]|e]|]; try apply ne_ret; [|constructor].
  apply ne_bindR; [apply popen_ne|]. intro pfd.
  assert (Hcl : forall e, ne (close pfd ;;; Ret (Err e : result Z ekind))) by (intro e; apply ne_bind; [apply close_ne|intro; apply ne_ret]).
  apply ne_bind; [apply fetch_mnt_id_ne|]. intros [pm|e]; [|apply Hcl].
  apply ne_bind; [apply verify_same_mnt_ne|]. intros [u|e]; [|apply Hcl].
  apply ne_bind; [apply ne_os, w_openat_follow_ne, Hfl|]. intro r. apply ne_bind; [apply close_ne|intro; apply ne_ret].
Qed.

Lemma reopen_ne fuel gh fd fl : ne (reopen fz cfg fuel gh fd fl).
Proof.
  unfold reopen. apply ne_bindR; [apply ne_os, w_fstatat_ne|]. intro meta.
  destruct (is_symlink_mode _); [apply ne_ret|]. destruct (proc_subpath fd); [apply popen_follow_ne|apply ne_ret].
Qed.

Lemma is_magiclink_filesystem_ne fd : ne (is_magiclink_filesystem fz fd).
Proof.
  unfold is_magiclink_filesystem. apply ne_bindR; [apply ne_os, w_fstatfs_ne|]. intro. apply ne_ret.
Qed.

(* ---- the emulated in-root walk --------------------------------------------------------- *)

Variable pfuel : nat.
Variable gh : phandle.
Variable ps : N.

Lemma check_current_ne cur root exp : ne (check_current fz cfg pfuel gh cur root exp).
Proof.
  unfold check_current. apply ne_bindR; [apply as_unsafe_path_ne|]. intro rp.
  apply ne_bindR; [apply as_unsafe_path_ne|]. intro cp. destruct (negb _); [apply ne_ret|].
  apply ne_bindR; [apply as_unsafe_path_ne|]. intro np. destruct (negb _); apply ne_ret.
Qed.

Lemma may_follow_link_ne dir link : ne (may_follow_link fz ps dir link).
Proof.
  unfold may_follow_link. apply ne_call; [reflexivity|]. intro ru.
  apply ne_bindR; [apply ne_os, w_fstatat_ne|]. intro dm.
  apply ne_bindR; [apply ne_os, w_fstatat_ne|]. intro lm. destruct (_ || _); apply ne_ret.
Qed.

Lemma rc_drop_ne fd r : ne (rc_drop fd r).
Proof.
  unfold rc_drop. destruct (rc_get fd r) as [|[|n]]; try apply ne_ret.
  apply ne_bind; [apply close_ne|intro; apply ne_ret].
Qed.

Lemma rc_drop_all_ne fds : forall r, ne (rc_drop_all fds r).
Proof.
  induction fds as [|fd t IH]; intro r; cbn [rc_drop_all]; [apply ne_ret|].
  apply ne_bind; [apply rc_drop_ne|intro; apply IH].
Qed.

Lemma opt_close_ne (next : option Z) : ne (match next with Some n => close n | None => Ret tt end).
Proof. destruct next; [apply close_ne|apply ne_ret]. Qed.

Lemma bail_ne st next e : ne (bail st next e).
Proof.
  unfold bail. apply ne_bind; [apply opt_close_ne|]. intro. apply ne_bind; [apply rc_drop_ne|]. intro.
  apply ne_bind; [apply rc_drop_ne|intro; apply ne_ret].
Qed.

Lemma ret_partial_ne st next rem e : ne (ret_partial st next rem e).
Proof.
  unfold ret_partial. apply ne_bind; [apply opt_close_ne|]. intro. apply ne_bind; [apply rc_drop_ne|intro; apply ne_ret].
Qed.

Lemma set_cur_ne st n fr exp stack : ne (set_cur st n fr exp stack).
Proof. unfold set_cur. apply ne_bind; [apply rc_drop_ne|intro; apply ne_ret]. Qed.

Lemma stack_pop_part_ne st part : ne (stack_pop_part st part).
Proof.
  unfold stack_pop_part. destruct (w_stack st) as [ss|]; [|apply ne_ret].
  destruct (ss_pop_part ss part) as [[ss' rel]|e]; [|apply ne_ret].
  apply ne_bind; [apply rc_drop_all_ne|intro; apply ne_ret].
Qed.

Notation chk := (check_current fz cfg pfuel gh).
Notation fin := (final_check fz cfg pfuel gh).

Lemma final_check_ne st : ne (fin st).
Proof.
  unfold final_check, final_check_gen. apply ne_bind; [apply check_current_ne|]. intros [u|e]; [|apply bail_ne].
  apply ne_bind; [apply rc_drop_ne|intro; apply ne_ret].
Qed.

Lemma opath_walk_flags_no_creat : has OPATH_WALK_FLAGS O_CREAT = false.
Proof. vm_compute. reflexivity. Qed.

Lemma walk_open_ne nosym nofollow follow inner remaining rest :
  (forall go, follow = Some go -> forall st cs, ne (go st cs)) ->
  (forall st, ne (inner st rest)) ->
  forall st part, ne (walk_open fz ps chk fin nosym nofollow follow inner remaining rest st part).
Proof.
  intros Hgo Hinner st part. unfold walk_open.
  destruct (has_slash part); [apply bail_ne|].
  apply ne_bind; [apply ne_os, w_openat_ne, opath_walk_flags_no_creat|]. intros [next|e]; [|apply ret_partial_ne].
  apply ne_bind; [destruct (is_dotdot part); [apply check_current_ne|apply ne_ret]|]. intros [u|e]; [|apply bail_ne].
  apply ne_bind; [apply ne_os, w_fstatat_ne|]. intros [meta|e]; [|apply bail_ne].
  destruct (negb (is_symlink_mode (st_mode meta))).
  { apply ne_bind; [apply stack_pop_part_ne|]. intros [[stack' refs']|e]; [|apply bail_ne].
    apply ne_bind; [apply set_cur_ne|]. intro st'. apply Hinner. }
  destruct (is_nil rest && nofollow); [apply ne_bind; [apply set_cur_ne|intro; apply final_check_ne]|].
  destruct nosym; [apply ret_partial_ne|].
  apply ne_bind; [destruct (_ && _); [apply ne_ret|apply may_follow_link_ne]|]. intros [u2|e]; [|apply bail_ne].
  destruct follow as [go|]; [|apply ret_partial_ne].
  apply ne_bind; [apply ne_os, w_readlinkat_ne|]. intros [target|e]; [|apply bail_ne].
  apply ne_bind; [destruct (is_abs target); [apply is_magiclink_filesystem_ne|apply ne_ret]|].
  intros [[|]|e]; try apply bail_ne.
  destruct (match w_stack st with
            | None => Ok (None, w_refs st)
            | Some ss => match ss_swap_link ss part (w_cur st) remaining target with
                         | Ok ss' => Ok (Some ss', rc_inc (w_cur st) (w_refs st))
                         | Err e => Err e
                         end
            end) as [[stack' refs']|e]; [|apply bail_ne].
  cbn zeta. apply ne_bind; [destruct (is_abs target); [apply set_cur_ne|apply ne_ret]|]. intro st2.
  apply ne_bind; [apply close_ne|]. intro. eapply Hgo. reflexivity.
Qed.

Lemma walk_body_ne nosym nofollow follow :
  (forall go, follow = Some go -> forall st cs, ne (go st cs)) ->
  forall cs st, ne (walk_body fz ps chk fin nosym nofollow follow st cs).
Proof.
  intros Hgo cs. induction cs as [|part0 rest IH]; intro st; cbn [walk_body]; [apply final_check_ne|].
  cbn zeta.
  assert (Hopen : forall st' part, ne (walk_open fz ps chk fin nosym nofollow follow (walk_body fz ps chk fin nosym nofollow follow)
                                                  (join_slash (part0 :: rest)) rest st' part)).
  { intros st' part. apply walk_open_ne; [exact Hgo|exact IH]. }
  destruct (is_nil part0); [apply Hopen|]. destruct (is_dot part0); [apply Hopen|].
  destruct (is_dotdot part0); [|apply Hopen].
  destruct (w_exp st); [|apply Hopen].
  apply ne_bind; [apply stack_pop_part_ne|]. intros [[stack' refs']|e]; [|apply bail_ne].
  apply ne_bind; [apply set_cur_ne|intro; apply IH].
Qed.

Lemma walk_ne budget nosym nofollow : forall st cs, ne (walk fz cfg pfuel gh ps budget nosym nofollow st cs).
Proof.
  unfold walk. induction budget as [|bd IH]; intros st cs; cbn [walk_gen].
  - apply walk_body_ne. discriminate.
  - apply walk_body_ne. intros go Hgo. destruct bd; [discriminate|]. inversion Hgo; subst. apply IH.
Qed.

Lemma do_resolve_ne root path nosym nofollow stack : ne (do_resolve fz cfg pfuel gh ps root path nosym nofollow stack).
Proof.
  unfold do_resolve. apply ne_bindR; [apply ne_os, dup_cloexec_ne|]. intro rd.
  destruct (_ && _); (apply ne_bind; [|intro; apply ne_ret]); [apply ret_partial_ne|apply walk_ne].
Qed.

Lemma unwrap_rc_ne l r : ne (unwrap_rc l r).
Proof. unfold unwrap_rc. destruct (rc_get _ r) as [|[|n]]; constructor. Qed.

Lemma opath_resolve_root_ne root path nosym nofollow : ne (opath_resolve_root fz cfg pfuel gh ps root path nosym nofollow).
Proof.
  unfold opath_resolve_root. apply ne_bindR; [apply do_resolve_ne|]. intro w.
  destruct (r_out w) as [l|e]; [|apply ne_ret]. apply ne_bind; [apply unwrap_rc_ne|].
  intros [fd|fd rem e]; [apply ne_ret|apply ne_bind; [apply close_ne|intro; apply ne_ret]].
Qed.

Lemma opath_resolve_partial_ne root path nosym nofollow : ne (opath_resolve_partial fz cfg pfuel gh ps root path nosym nofollow).
Proof.
  unfold opath_resolve_partial. apply ne_bindR; [apply do_resolve_ne|]. intro w. cbv zeta.
  destruct (r_out w) as [[fd|fd rem e]|e].
  - apply ne_bind; [apply rc_drop_all_ne|]. intro. apply ne_bind; [apply unwrap_rc_ne|intro; apply ne_ret].
  - destruct (match r_stack w with Some s => s | None => [] end) as [|top rest_ss].
    + apply ne_bind; [apply unwrap_rc_ne|intro; apply ne_ret].
    + apply ne_bind; [apply rc_drop_ne|]. intro. apply ne_bind; [apply rc_drop_all_ne|]. intro.
      apply ne_bind; [apply unwrap_rc_ne|intro; apply ne_ret].
  - apply ne_bind; [apply rc_drop_all_ne|intro; apply ne_ret].
Qed.

(* ---- the openat2 backend ---------------------------------------------------------------- *)

Lemma k_flags_no_creat : has OPENAT2_RESOLVE_OFLAGS O_CREAT = false /\ has OPENAT2_RESOLVE_NOFOLLOW O_CREAT = false.
Proof. split; vm_compute; reflexivity. Qed.

Lemma k_resolve_loop_ne n root path fl rs : has fl O_CREAT = false -> ne (k_resolve_loop fz n root path fl rs).
Proof.
  intro Hfl. induction n as [|m IH]; cbn [k_resolve_loop]; [apply ne_ret|].
  apply ne_bind; [apply w_openat2_ne, Hfl|]. intros [fd|e]; [apply ne_ret|].
  destruct (N.eqb e ENOSYS); [apply ne_ret|]. destruct (N.eqb e EAGAIN); [exact IH|apply ne_ret].
Qed.

Lemma k_resolve_ne root path rf nf : ne (k_resolve fz cfg root path rf nf).
Proof.
  unfold k_resolve. destruct (negb cfg); [apply ne_ret|]. apply k_resolve_loop_ne.
  destruct k_flags_no_creat as [H1 H2]. destruct nf; [rewrite has_creat_lor, H1, H2; reflexivity|exact H1].
Qed.

Lemma k_resolve_partial_ne root path rf nf : ne (k_resolve_partial fz cfg root path rf nf).
Proof.
  unfold k_resolve_partial. apply ne_bind; [apply k_resolve_ne|]. intros [fd|e0]; [apply ne_ret|].
  generalize (partial_ancestors path) e0. intro anc.
  induction anc as [|[p rem] rest IH]; intro last; [destruct PARTIAL_UNREACHABLE_PANICS; constructor|].
  destruct (is_safety_violation last); [apply ne_ret|].
  apply ne_bind; [apply k_resolve_ne|]. intros [fd|e]; [apply ne_ret|apply IH].
Qed.

(* ---- Root ---------------------------------------------------------------------------------- *)

Variable rs : resolver.

Lemma r_resolve_ne root path nf : ne (r_resolve fz cfg pfuel gh ps rs root path nf).
Proof. unfold r_resolve. destruct (rs_kernel rs); [apply k_resolve_ne|apply opath_resolve_root_ne]. Qed.

Lemma r_resolve_partial_ne root path nf : ne (r_resolve_partial fz cfg pfuel gh ps rs root path nf).
Proof. unfold r_resolve_partial. destruct (rs_kernel rs); [apply k_resolve_partial_ne|apply opath_resolve_partial_ne]. Qed.

Lemma parent_and_name_ne root path : ne (parent_and_name fz cfg pfuel gh ps rs root path).
Proof.
  unfold parent_and_name, resolve_parent. apply ne_bindR.
  - destruct (path_split path) as [[[parent name]|e]|]; [|apply ne_ret|constructor].
    apply ne_bindR; [apply r_resolve_ne|intro; apply ne_ret].
  - intros [dir [n|]]; [apply ne_ret|apply ne_bind; [apply close_ne|intro; apply ne_ret]].
Qed.

Lemma cl_bind_l {A B} n (p : prog A) (g : A -> prog B) :
  calls_le eff n p -> (forall a, ne (g a)) -> calls_le eff n (bind p g).
Proof. intros Hp Hg. replace n with (n + 0)%nat by lia. apply calls_le_bind; assumption. Qed.

Lemma cl_bind_r {A B} n (p : prog A) (g : A -> prog B) :
  ne p -> (forall a, calls_le eff n (g a)) -> calls_le eff n (bind p g).
Proof. intros Hp Hg. change n with (0 + n)%nat. apply calls_le_bind; assumption. Qed.

Lemma ne_le {A} n (p : prog A) : ne p -> calls_le eff n p.
Proof. intro H. eapply calls_le_mono; [exact H|lia]. Qed.

(* one wrapper call on a directory descriptor, then the close of that descriptor *)
Lemma one_then_close {A} (p : prog (result A N)) dir : calls_le eff 1 p ->
  calls_le eff 1 (r <- os p ;; close dir ;;; Ret r).
Proof.
  intro Hp. apply cl_bind_l.
  - unfold os, map_err. apply cl_bind_l; [exact Hp|intro; apply ne_ret].
  - intro r. apply ne_bind; [apply close_ne|intro; apply ne_ret].
Qed.

Lemma simple1_one {A} fd path c (dec : resp -> result A N) : calls_le eff 1 (simple1 fz fd path c dec).
Proof.
  unfold simple1, rustix_path. destruct (negb (valid_fd fd)); [constructor|].
  destruct (has_nul path); [apply ne_le, fail1_ne|].
  destruct (eff c) eqn:Ec.
  - apply cl_call_hit; [exact Ec|]. intro r. destruct (dec r); [constructor|apply fail1_ne].
  - apply cl_call_miss; [exact Ec|]. intro r. destruct (dec r); [constructor|apply ne_le, fail1_ne].
Qed.

Lemma fail2_ne {A} fd1 fd2 e : ne (@fail2 fz A fd1 fd2 e).
Proof. unfold fail2. apply ne_bind; [apply frozen_ne|]. intro. apply ne_bind; [apply frozen_ne|intro; apply ne_ret]. Qed.

Lemma two_fd_one ofd on nfd nn c : calls_le eff 1 (two_fd fz ofd on nfd nn c).
Proof.
  unfold two_fd. destruct (negb (valid_fd ofd)); [constructor|]. destruct (negb (valid_fd nfd)); [constructor|].
  destruct (_ || _); [apply ne_le, fail2_ne|].
  destruct (eff c) eqn:Ec.
  - apply cl_call_hit; [exact Ec|]. intro r. destruct (as_unit r); [constructor|apply fail2_ne].
  - apply cl_call_miss; [exact Ec|]. intro r. destruct (as_unit r); [constructor|apply ne_le, fail2_ne].
Qed.

Lemma after_parent {B} (n : nat) (K : Z * bytes -> prog (result B ekind)) root path :
  (forall dn, calls_le eff n (K dn)) ->
  calls_le eff n (dn <-? parent_and_name fz cfg pfuel gh ps rs root path ;; K dn).
Proof.
  intro HK. unfold bindR. apply cl_bind_r; [apply parent_and_name_ne|].
  intros [dn|e]; [apply HK|constructor].
Qed.

Lemma close2_ret_ne {A} d1 d2 (r : A) : ne (close d1 ;;; close d2 ;;; Ret r).
Proof. apply ne_bind; [apply close_ne|]. intro. apply ne_bind; [apply close_ne|intro; apply ne_ret]. Qed.

(* create: at most one tree-changing call, whatever the inode type (hard links resolve a second parent first) *)
Theorem root_create_one root path ty : calls_le eff 1 (root_create fz cfg pfuel gh ps rs root path ty).
Proof.
  unfold root_create. apply after_parent. intros [dir name].
  destruct ty as [m|m|target|target|m|m d|m d]; try (apply one_then_close; apply simple1_one).
  - (* symlink *)
    apply one_then_close. unfold w_symlinkat. destruct (negb (valid_fd dir)); [constructor|].
    destruct (_ || _); [apply ne_le, fail1_ne|].
    apply cl_call_hit; [reflexivity|]. intro r. destruct (as_unit r); [constructor|apply fail1_ne].
  - (* hard link *)
    apply cl_bind_r; [apply parent_and_name_ne|].
    intros [[olddir oldname]|e].
    + apply cl_bind_l; [|intro; apply close2_ret_ne].
      unfold os, map_err. apply cl_bind_l; [apply two_fd_one|intro; apply ne_ret].
    + apply ne_le. apply ne_bind; [apply close_ne|intro; apply ne_ret].
Qed.

Theorem root_create_file_one root path fl mode : calls_le eff 1 (root_create_file fz cfg pfuel gh ps rs root path fl mode).
Proof.
  unfold root_create_file. destruct (CREATE_FILE_REFUSES_OPATH && has fl O_PATH); [constructor|].
  apply after_parent. intros [dir name]. apply one_then_close.
  unfold w_openat, w_openat_follow, rustix_path. destruct (negb (valid_fd dir)); [constructor|].
  destruct (has_nul name); [apply ne_le, fail1_ne|].
  match goal with |- calls_le eff 1 (Call ?c _) => destruct (eff c) eqn:Ec end.
  - apply cl_call_hit; [exact Ec|]. intro r. destruct (as_fd r); [constructor|apply fail1_ne].
  - apply cl_call_miss; [exact Ec|]. intro r. destruct (as_fd r); [constructor|apply ne_le, fail1_ne].
Qed.

Theorem root_rename_one root src dst rfl : calls_le eff 1 (root_rename fz cfg pfuel gh ps rs root src dst rfl).
Proof.
  unfold root_rename. apply after_parent. intros [sdir sname].
  apply cl_bind_r; [apply parent_and_name_ne|].
  intros [[ddir dname]|e].
  - apply cl_bind_l; [|intro; apply close2_ret_ne].
    unfold os, map_err. apply cl_bind_l; [|intro; apply ne_ret].
    unfold w_renameat2, w_renameat. destruct (N.eqb rfl 0); apply two_fd_one.
  - apply ne_le. apply ne_bind; [apply close_ne|intro; apply ne_ret].
Qed.

(* remove_file / remove_dir: one unlinkat *)
Theorem root_remove_inode_one root path isdir : calls_le eff 1 (root_remove_inode fz cfg pfuel gh ps rs root path isdir).
Proof.
  unfold root_remove_inode. apply after_parent. intros [dir name]. apply one_then_close. apply simple1_one.
Qed.

End Eff.
