(* ProcfsProps.v -- C07 / C09: refusals, "..", the single follow site, descriptor
   independence of reopen.  All statements are for all kernel answers. *)
From PV Require Import Discipline ProgTac BitsProofs PathProofs DisciplineProofs FaultProofs Hoare.
Open Scope N_scope.

Arguments N.eqb : simpl never.
Arguments N.lor : simpl never.
Arguments N.land : simpl never.
Arguments N.ldiff : simpl never.

Definition is_Err {A E} (r : result A E) : Prop := match r with Err _ => True | Ok _ => False end.
Definition creation_flags (fl : N) : Prop :=
  has fl O_CREAT = true \/ has fl O_EXCL = true \/ has fl O_TMPFILE = true.

Lemma intersects_of_has a m c : c <> 0 -> has m c = true -> has a c = true -> intersects a m = true.
Proof.
  intros Hc Hm Ha. destruct (intersects a m) eqn:E; [reflexivity|].
  rewrite (intersects_false_has a m c Hc Hm E) in Ha. discriminate.
Qed.

Lemma creation_invalid fl : creation_flags fl -> procfs_flags_invalid fl = true.
Proof.
  unfold procfs_flags_invalid. intros [H|[H|H]].
  - rewrite (intersects_of_has fl PROCFS_INVALID_FLAGS O_CREAT); [reflexivity|discriminate|reflexivity|exact H].
  - rewrite (intersects_of_has fl PROCFS_INVALID_FLAGS O_EXCL); [reflexivity|discriminate|reflexivity|exact H].
  - assert (E : PROCFS_INVALID_CONTAINS = O_TMPFILE) by reflexivity.
    rewrite E, H. apply orb_true_r.
Qed.

Lemma creation_lor fl x : creation_flags fl -> creation_flags (N.lor fl x).
Proof. intros [H|[H|H]]; [left|right; left|right; right]; apply has_lor_l, H. Qed.

(* F-C: open_follow itself refuses creation flags before doing anything *)
Lemma creation_follow_refused fl : creation_flags fl ->
  intersects fl OPEN_FOLLOW_REFUSED || has_nz fl OPEN_FOLLOW_REFUSED_CONTAINS = true.
Proof.
  intros [H|[H|H]].
  - rewrite (intersects_of_has fl OPEN_FOLLOW_REFUSED O_CREAT); [reflexivity|discriminate|reflexivity|exact H].
  - rewrite (intersects_of_has fl OPEN_FOLLOW_REFUSED O_EXCL); [reflexivity|discriminate|reflexivity|exact H].
  - assert (E : OPEN_FOLLOW_REFUSED_CONTAINS = O_TMPFILE) by reflexivity.
    rewrite E. unfold has_nz. rewrite H. apply orb_true_r.
Qed.

(* the refusal is monotone in the flags: the O_DIRECTORY a trailing slash adds cannot hide a creation flag *)
Lemma follow_refused_lor fl x : follow_refused fl = true -> follow_refused (N.lor fl x) = true.
Proof.
  unfold follow_refused, intersects, has_nz, has. intro H. apply orb_true_iff in H. apply orb_true_iff.
  destruct H as [H|H]; [left|right].
  - apply negb_true_iff, N.eqb_neq in H. apply negb_true_iff, N.eqb_neq. intro E. apply H.
    rewrite N.land_lor_distr_l in E. apply N.lor_eq_0_l in E. exact E.
  - apply andb_true_iff in H. destruct H as [Hn H]. apply andb_true_iff. split; [exact Hn|].
    apply N.eqb_eq in H. apply N.eqb_eq. rewrite N.land_lor_distr_l, H.
    apply N.bits_inj. intro n. rewrite N.lor_spec, N.land_spec. destruct (N.testbit OPEN_FOLLOW_REFUSED_CONTAINS n), (N.testbit x n); reflexivity.
Qed.

Lemma presolve_refuses fz cfg use root p fl rf :
  creation_flags fl -> presolve fz cfg use root p fl rf = Ret (Err InvalidArgument).
Proof. intro H. unfold presolve. rewrite (creation_invalid fl H). reflexivity. Qed.

Lemma popen_follow_refuses fz cfg fuel h base sub fl :
  creation_flags fl -> popen_follow fz cfg fuel h base sub fl = Ret (Err InvalidArgument).
Proof.
  intro H. pose proof (creation_follow_refused fl H) as R. fold (follow_refused fl) in R. unfold popen_follow.
  destruct OPEN_FOLLOW_REFUSAL_AFTER_SLASH; cbn [negb andb].
  - destruct (path_strip_trailing_slash sub) as [sub' ts].
    destruct ts; [rewrite (follow_refused_lor _ _ R)|rewrite R]; reflexivity.
  - rewrite R. reflexivity.
Qed.

(* ProcfsHandle::open with creation flags never succeeds (the base directory is
   opened first; the lookup itself is refused without a system call) *)
Lemma popen_refuses fz cfg fuel : forall h base sub fl,
  creation_flags fl -> rets is_Err (popen fz cfg fuel h base sub fl).
Proof.
  induction fuel as [|f IH]; intros h base sub fl Hc; cbn [popen]; [constructor|].
  unfold bindR at 1. eapply okp_bind; [apply rets_any|]. intros [basedir|e] _; [|constructor; exact I].
  rewrite (presolve_refuses _ _ _ _ _ _ _ (creation_lor fl PROCFS_OPEN_FORCED Hc)).
  cbn [bind]. replace (ph_subset h && ekind_is_enoent InvalidArgument) with false by (destruct (ph_subset h); reflexivity).
  cbn [bind]. eapply okp_bind; [apply rets_any|]. intros _ _. constructor. exact I.
Qed.

(* reopen: O_NOFOLLOW is the only bit removed, so creation flags survive to open_follow *)
Lemma creation_without_nofollow fl : creation_flags fl -> creation_flags (without fl REOPEN_REMOVED).
Proof.
  unfold without. change REOPEN_REMOVED with (N.lor O_NOFOLLOW 0).
  intros [H|[H|H]]; [left|right; left|right; right]; apply has_ldiff_other; try exact H; reflexivity.
Qed.

Lemma reopen_refuses fz cfg fuel gh fd fl :
  creation_flags fl -> rets is_Err (reopen fz cfg fuel gh fd fl).
Proof.
  intro Hc. unfold reopen. unfold bindR. eapply okp_bind; [apply rets_any|].
  intros [meta|e] _; [|constructor; exact I].
  destruct (is_symlink_mode _); [constructor; exact I|].
  destruct (proc_subpath fd); [|constructor; exact I].
  rewrite (popen_follow_refuses _ _ _ _ _ _ _ (creation_without_nofollow fl Hc)). constructor. exact I.
Qed.

(* ---- ".." never leaves procfs: the emulated resolver answers EXDEV ------------- *)

Lemma pwalk_body_dotdot fz m fl rf follow :
  (forall go, follow = Some go -> forall cur cs, In [DOT; DOT] cs -> rets is_Err (go cur cs)) ->
  forall cs cur, In [DOT; DOT] cs -> rets is_Err (pwalk_body fz m fl rf follow cur cs).
Proof.
  intros Hgo cs. induction cs as [|part0 rest IH]; intros cur Hin; [destruct Hin|].
  cbn [pwalk_body]. cbv zeta.
  destruct (is_nil part0) eqn:En; cbv iota.
  - (* "" is walked as ".": the ".." is further on *)
    assert (Hrest : In [DOT; DOT] rest).
    { destruct Hin as [H|H]; [subst; discriminate|exact H]. }
    change (is_dotdot [DOT]) with false. cbn iota.
    unfold os. eapply okp_bind; [apply rets_any|]. intros [next|e] _; [|eapply okp_bind; [apply rets_any|]; intros; constructor; exact I].
    eapply okp_bind; [apply rets_any|]. intros [u|e] _; [|repeat (eapply okp_bind; [apply rets_any|]; intros); constructor; exact I].
    eapply okp_bind; [apply rets_any|]. intros [meta|e] _; [|repeat (eapply okp_bind; [apply rets_any|]; intros); constructor; exact I].
    destruct rest as [|r0 rest']; [destruct Hrest|]. cbn [is_nil andb].
    destruct (negb (is_symlink_mode (st_mode meta))).
    + eapply okp_bind; [apply rets_any|]. intros. apply IH. exact Hrest.
    + destruct (has rf RESOLVE_NO_SYMLINKS); [repeat (eapply okp_bind; [apply rets_any|]; intros); constructor; exact I|].
      destruct follow as [go|]; [|repeat (eapply okp_bind; [apply rets_any|]; intros); constructor; exact I].
      eapply okp_bind; [apply rets_any|]. intros [target|e] _; [|repeat (eapply okp_bind; [apply rets_any|]; intros); constructor; exact I].
      destruct (is_abs target); [repeat (eapply okp_bind; [apply rets_any|]; intros); constructor; exact I|].
      eapply okp_bind; [apply rets_any|]. intros. eapply Hgo; [reflexivity|]. apply in_or_app. right. exact Hrest.
  - destruct (is_dotdot part0) eqn:Ed.
    + eapply okp_bind; [apply rets_any|]. intros. constructor. exact I.
    + assert (Hrest : In [DOT; DOT] rest).
      { destruct Hin as [H|H]; [subst; discriminate|exact H]. }
      unfold os. eapply okp_bind; [apply rets_any|]. intros [next|e] _; [|eapply okp_bind; [apply rets_any|]; intros; constructor; exact I].
      eapply okp_bind; [apply rets_any|]. intros [u|e] _; [|repeat (eapply okp_bind; [apply rets_any|]; intros); constructor; exact I].
      eapply okp_bind; [apply rets_any|]. intros [meta|e] _; [|repeat (eapply okp_bind; [apply rets_any|]; intros); constructor; exact I].
      destruct rest as [|r0 rest']; [destruct Hrest|]. cbn [is_nil andb].
      destruct (negb (is_symlink_mode (st_mode meta))).
      * eapply okp_bind; [apply rets_any|]. intros. apply IH. exact Hrest.
      * destruct (has rf RESOLVE_NO_SYMLINKS); [repeat (eapply okp_bind; [apply rets_any|]; intros); constructor; exact I|].
        destruct follow as [go|]; [|repeat (eapply okp_bind; [apply rets_any|]; intros); constructor; exact I].
        eapply okp_bind; [apply rets_any|]. intros [target|e] _; [|repeat (eapply okp_bind; [apply rets_any|]; intros); constructor; exact I].
        destruct (is_abs target); [repeat (eapply okp_bind; [apply rets_any|]; intros); constructor; exact I|].
        eapply okp_bind; [apply rets_any|]. intros. eapply Hgo; [reflexivity|]. apply in_or_app. right. exact Hrest.
Qed.

Lemma pwalk_dotdot fz budget m fl rf : forall cs cur,
  In [DOT; DOT] cs -> rets is_Err (pwalk fz budget m fl rf cur cs).
Proof.
  induction budget as [|bd IH]; intros cs cur Hin; cbn [pwalk].
  - apply pwalk_body_dotdot; [discriminate|exact Hin].
  - apply pwalk_body_dotdot; [|exact Hin].
    intros go Hgo. destruct bd; [discriminate|]. inversion Hgo; subst. intros; apply IH; assumption.
Qed.

Lemma opath_resolve_dotdot fz root path fl rf :
  In [DOT; DOT] (raw_components path) -> rets is_Err (opath_resolve fz root path fl rf).
Proof.
  intro Hin. unfold opath_resolve. unfold bindR.
  eapply okp_bind; [apply rets_any|]. intros [m|e] _; [|constructor; exact I].
  eapply okp_bind; [apply rets_any|]. intros [cur|e] _; [|constructor; exact I].
  apply pwalk_dotdot. exact Hin.
Qed.

(* ---- reopen does not depend on the descriptor number (0 included) --------------- *)

Lemma proc_subpath_nonneg fd : (0 <= fd)%Z -> proc_subpath fd = Some (b "fd/" ++ dec (Z.to_N fd)).
Proof.
  intro H. unfold proc_subpath, AT_FDCWD.
  destruct (Z.eqb_spec fd (-100)%Z) as [E|_]; [lia|].
  change PROC_SUBPATH_MIN_FD with 0%Z. destruct (Z.leb_spec 0 fd); [reflexivity|lia].
Qed.

Example proc_subpath_zero : proc_subpath 0 = Some (b "fd/0").
Proof. reflexivity. Qed.

(* ---- the single follow site of open_follow --------------------------------------- *)

Lemma okp_spec {A} P S (Q : A -> Prop) (p : prog A) :
  okp P S Q p -> forall h, spec (fun _ c => P c) (fun a _ => Q a) h p.
Proof. intro H. induction H; intro h; constructor; auto. Qed.

(* error-text-only calls (FrozenFd construction after a failing wrapper call) *)
Definition errtext (c : call) : bool :=
  match c with
  | Gettid | Readlink _ => true
  | Fstatat fd _ _ => Z.eqb fd AT_FDCWD
  | _ => false
  end.

(* the most recent call, error-text calls aside, is a statx of exactly (fd, n) *)
Fixpoint statx_recent (fd : Z) (n : bytes) (h : hist) : Prop :=
  match h with
  | [] => False
  | (c, _) :: rest =>
      match c with
      | Statx fd' n' _ _ => fd = fd' /\ n = n'
      | _ => errtext c = true /\ statx_recent fd n rest
      end
  end.

(* an open that may follow its name must come right after the statx
   (verify_same_mnt) of exactly that (directory, name) pair *)
Definition follow_ok (h : hist) (c : call) : Prop :=
  nofollow_b c = true \/
  match c with
  | Openat fd n _ _ => statx_recent fd n h
  | _ => False
  end.

Definition after_statx (fd : Z) (n : bytes) {A E} (r : result A E) (h : hist) : Prop :=
  match r with
  | Ok _ => statx_recent fd n h
  | Err _ => True
  end.

Lemma nf_spec {A} (Q : A -> Prop) (p : prog A) h :
  okp Pdn allowed_panic Q p -> spec follow_ok (fun a _ => Q a) h p.
Proof.
  intro H. eapply spec_weaken_pre; [apply (okp_spec _ _ _ _ H)|].
  intros h' c [_ Hn]. left. exact Hn.
Qed.

(* FrozenFd construction only issues error-text calls, so it keeps [statx_recent] *)
Lemma frozen_keeps fz : forall fd0 fd n h,
  statx_recent fd n h -> spec follow_ok (fun _ h' => statx_recent fd n h') h (frozen fz fd0).
Proof.
  induction fz as [|f IH]; intros fd0 fd n h Hh; cbn [frozen]; [constructor|].
  constructor; [left; reflexivity|]. intro rt.
  assert (H1 : statx_recent fd n ((Gettid, rt) :: h)) by (split; [reflexivity|exact Hh]).
  revert H1. generalize ((Gettid, rt) :: h). intros h1 H1.
  generalize (thread_self_cands (as_num rt)). intro cands. revert h1 H1.
  induction cands as [|c rest IHc]; intros h1 H1; [constructor|].
  constructor; [left; reflexivity|]. intro r.
  assert (H2 : statx_recent fd n ((Fstatat AT_FDCWD (b "/proc/" ++ c) FSTATAT_FLAGS, r) :: h1)).
  { split; [reflexivity|exact H1]. }
  destruct (as_stat r).
  - destruct (proc_subpath fd0); [|constructor; exact H2].
    constructor; [left; reflexivity|]. intro r2. constructor. split; [reflexivity|exact H2].
  - eapply spec_bind; [apply IH; exact H2|]. intros u3 h3 H3. apply IHc. exact H3.
Qed.

Lemma w_statx_after fz fd n mask h :
  real_fd fd = true ->
  spec follow_ok (fun (_ : result (N * N) N) h' => has_nul n = false -> statx_recent fd n h') h (w_statx fz fd n mask).
Proof.
  intros Hfd. unfold w_statx, simple1. rewrite (real_fd_valid _ Hfd). cbn [negb].
  unfold rustix_path. destruct (has_nul n) eqn:Enul.
  - unfold fail1. eapply spec_bind; [apply nf_spec, frozen_ok|]. intros _ h' _.
    constructor. discriminate.
  - constructor; [left; reflexivity|]. intro r.
    assert (H1 : statx_recent fd n ((Statx fd n STATX_FLAGS mask, r) :: h)) by (split; reflexivity).
    destruct (as_statx r) as [[mk id]|e].
    + constructor. intros _. exact H1.
    + unfold fail1. eapply spec_bind; [apply frozen_keeps; exact H1|]. intros u' h' H'.
      constructor. intros _. exact H'.
Qed.

Lemma verify_same_mnt_after fz m fd n h :
  real_fd fd = true ->
  spec follow_ok (fun (_ : result unit ekind) h' => has_nul n = false -> statx_recent fd n h') h
       (verify_same_mnt fz m fd n).
Proof.
  intros Hfd. unfold verify_same_mnt, fetch_mnt_id, bindR.
  eapply spec_bind.
  - eapply spec_bind; [apply w_statx_after; assumption|].
    intros r h' Hr. instantiate (1 := fun _ h' => has_nul n = false -> statx_recent fd n h').
    destruct r as [[mk id]|e]; [constructor; exact Hr|].
    destruct (existsb _ _); constructor; exact Hr.
  - intros r h' Hr. destruct r as [mnt|e]; [|constructor; exact Hr].
    destruct (opt_n_eqb m mnt); constructor; exact Hr.
Qed.

Lemma w_openat_follow_spec fz fd n fl m h :
  real_fd fd = true -> (has_nul n = false -> statx_recent fd n h) ->
  spec follow_ok TrueQ h (w_openat_follow fz fd n fl m).
Proof.
  intros Hfd Hst. unfold w_openat_follow. rewrite (real_fd_valid _ Hfd). cbn [negb].
  unfold rustix_path. destruct (has_nul n) eqn:Enul.
  - eapply spec_weaken; [apply (nf_spec (fun _ => True))|intros; exact I].
    eapply okp_weaken; [apply (fail1_ok (fun _ : Z => True))|]. intros; exact I.
  - constructor; [right; apply Hst; reflexivity|]. intro r.
    destruct (as_fd r) as [k|e]; [constructor; exact I|].
    eapply spec_weaken; [apply (nf_spec (fun _ => True))|intros; exact I].
    eapply okp_weaken; [apply (fail1_ok (fun _ : Z => True))|]. intros; exact I.
Qed.

Theorem popen_follow_dominated fz cfg fuel h0 base sub fl h :
  real_fd (ph_fd h0) = true ->
  spec follow_ok TrueQ h (popen_follow fz cfg fuel h0 base sub fl).
Proof.
  intro Hh. unfold popen_follow.
  destruct (negb _ && _); [constructor; exact I|].
  destruct (path_strip_trailing_slash sub) as [sub' ts].
  destruct (OPEN_FOLLOW_REFUSAL_AFTER_SLASH && _); [constructor; exact I|].
  eapply spec_bind; [apply nf_spec, preadlink_ok; exact Hh|]. intros rl h1 _.
  destruct rl as [bs|e].
  2: { destruct (_ && negb _); [constructor; exact I|].
       eapply spec_weaken; [apply nf_spec, popen_ok; exact Hh|]. intros; exact I. }
  destruct (path_split sub') as [[[parent [trailing|]]|e]|] eqn:Hsp; try (constructor; exact I).
  unfold bindR. eapply spec_bind; [apply nf_spec, popen_ok; exact Hh|]. intros r h2 Hp.
  destruct r as [pfd|e]; [|constructor; exact I]. cbn in Hp.
  assert (Hcl : forall e h', spec follow_ok (@TrueQ (result Z ekind)) h' (close pfd ;;; Ret (Err e))).
  { intros e h'. eapply spec_weaken; [apply (nf_spec (fun _ => True))|intros; exact I].
    eapply okp_bind; [apply close_ok; exact Hp|]. intros; constructor. exact I. }
  eapply spec_bind; [apply nf_spec, fetch_mnt_id_ok; [exact Hp|reflexivity]|]. intros r h3 _.
  destruct r as [pm|e]; [|apply Hcl].
  eapply spec_bind; [apply verify_same_mnt_after; exact Hp|].
  intros r h4 Hafter. destruct r as [u|e]; [|apply Hcl].
  (* the follow-mode open, issued right after the statx of (pfd, trailing) *)
  unfold os. eapply spec_bind.
  - apply spec_map_err. instantiate (1 := TrueQ).
    eapply spec_weaken; [apply w_openat_follow_spec; [exact Hp|exact Hafter]|]. intros; exact I.
  - intros r h5 _. eapply spec_weaken; [apply (nf_spec (fun _ => True))|intros; exact I].
    eapply okp_bind; [apply close_ok; exact Hp|]. intros; constructor. exact I.
Qed.

