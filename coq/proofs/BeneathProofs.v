(* BeneathProofs.v -- C13 / C12, for ALL kernel answers:
   * dir.rs remove_all(dirfd, name): every unlinkat it issues is either on (dirfd, name)
     itself or on a descriptor that descends from it -- obtained by opening (dirfd, name),
     or a '/'-free, non-dot name below a descriptor that descends from it, with O_NOFOLLOW
     (or by re-opening "." of such a descriptor) -- and names a '/'-free entry other than
     "." and "..".  No other call that changes the tree is ever issued.  So whatever the
     directory listings say and whoever rearranges the tree meanwhile, nothing is removed
     through a descriptor that was not reached by walking down from the named entry
     without following links.
   * the creation loop of mkdir_all: the mkdirat calls form ONE chain -- each is made on
     the directory opened (O_NOFOLLOW|O_DIRECTORY) under the name given to the previous
     mkdirat -- and nothing else changes the tree. *)
From PV Require Import ProgTac PathProofs BitsProofs RootM.
From Coq Require Import Lia.
Open Scope N_scope.

Arguments N.eqb : simpl never.
Arguments N.lor : simpl never.
Arguments N.land : simpl never.

(* ---- "beneath (top, nm)" ------------------------------------------------------------ *)

Section Beneath.
Variable top : Z.
Variable nm : bytes.

Definition plain (n : bytes) : Prop := has_slash n = false /\ dot_or_dotdot n = false.

(* D: descriptors known to descend from (top, nm) *)
Definition call_ok (D : list Z) (c : call) : Prop :=
  match c with
  | Unlinkat d n _ => (d = top /\ n = nm) \/ (In d D /\ plain n)
  | Openat d n fl _ =>
      (d = top /\ n = nm /\ has fl O_NOFOLLOW = true) \/
      (In d D /\ ((plain n /\ has fl O_NOFOLLOW = true) \/ n = [DOT]))
  | Openat2 _ _ _ _ _ | Mkdirat _ _ _ | Mknodat _ _ _ _ | Linkat _ _ _ _ _ | Symlinkat _ _ _
  | Renameat _ _ _ _ | Renameat2 _ _ _ _ _ => False
  | _ => True
  end.

Definition grow (D : list Z) (c : call) (r : resp) : list Z :=
  match c with
  | Openat _ _ _ _ => match as_fd r with Ok fd => fd :: D | Err _ => D end
  | _ => D
  end.

Inductive sub {A} (Q : A -> list Z -> Prop) : list Z -> prog A -> Prop :=
| sub_ret a D : Q a D -> sub Q D (Ret a)
| sub_call c k D : call_ok D c -> (forall r, sub Q (grow D c r) (k r)) -> sub Q D (Call c k)
| sub_panic s D : sub Q D (Panic s)
| sub_fuel D : sub Q D OutOfFuel.

Lemma sub_bind {A B} (Q1 : A -> list Z -> Prop) (Q2 : B -> list Z -> Prop) D (p : prog A) (f : A -> prog B) :
  sub Q1 D p -> (forall a D', Q1 a D' -> sub Q2 D' (f a)) -> sub Q2 D (bind p f).
Proof.
  intros Hp Hf. induction Hp as [a D Ha|c k D Hc Hk IH|s D|D]; cbn [bind].
  - apply Hf, Ha.
  - constructor; [exact Hc|]. intro r. apply IH.
  - constructor.
  - constructor.
Qed.

Lemma sub_weaken {A} (Q1 Q2 : A -> list Z -> Prop) D (p : prog A) :
  sub Q1 D p -> (forall a D', Q1 a D' -> Q2 a D') -> sub Q2 D p.
Proof. intros Hp H. induction Hp; constructor; auto. Qed.

Lemma call_ok_mono D D' c : incl D D' -> call_ok D c -> call_ok D' c.
Proof.
  intros Hi. destruct c; cbn [call_ok]; try tauto.
  - intros [H|[Hin H]]; [left; exact H|right; split; [apply Hi, Hin|exact H]].
  - intros [H|[Hin H]]; [left; exact H|right; split; [apply Hi, Hin|exact H]].
Qed.

Lemma grow_mono D D' c r : incl D D' -> incl (grow D c r) (grow D' c r).
Proof.
  intro Hi. destruct c; cbn [grow]; try exact Hi.
  destruct (as_fd r); [|exact Hi]. intros x [->|Hx]; [left; reflexivity|right; apply Hi, Hx].
Qed.

Lemma grow_incl D c r : incl D (grow D c r).
Proof.
  destruct c; cbn [grow]; try apply incl_refl. destruct (as_fd r); [apply incl_tl|]; apply incl_refl.
Qed.

(* the uniform postcondition: the set only grows *)
Definition grows {A} (D0 : list Z) : A -> list Z -> Prop := fun _ D => incl D0 D.

Lemma sub_mono {A} D0 D (p : prog A) : sub (grows D0) D p -> forall D', incl D D' -> sub (grows D') D' p.
Proof.
  induction 1 as [a D Ha|c k D Hc Hk IH|s D|D]; intros D' Hi.
  - constructor. apply incl_refl.
  - constructor; [exact (call_ok_mono _ _ _ Hi Hc)|]. intro r.
    eapply sub_weaken; [apply (IH r), grow_mono, Hi|]. intros a E HE. unfold grows in *.
    eapply incl_tran; [apply grow_incl|exact HE].
  - constructor.
  - constructor.
Qed.

(* calls that neither open nor change anything *)
Definition quiet (c : call) : Prop :=
  match c with
  | Openat _ _ _ _ | Openat2 _ _ _ _ _ | Unlinkat _ _ _ | Mkdirat _ _ _ | Mknodat _ _ _ _ | Linkat _ _ _ _ _
  | Symlinkat _ _ _ | Renameat _ _ _ _ | Renameat2 _ _ _ _ _ => False
  | _ => True
  end.

Lemma sub_quiet {A} (Q : A -> list Z -> Prop) D c k :
  quiet c -> (forall r, sub Q D (k r)) -> sub Q D (Call c k).
Proof.
  intros Hq Hk. constructor.
  - destruct c; cbn [quiet] in Hq; try contradiction; exact I.
  - intro r. replace (grow D c r) with D; [apply Hk|]. destruct c; cbn [quiet] in Hq; try contradiction; reflexivity.
Qed.

Variable fz : nat.

Lemma frozen_sub : forall g fd D, sub (@grows unit D) D (frozen g fd).
Proof.
  induction g as [|f IH]; intros fd D; cbn [frozen]; [constructor|].
  apply sub_quiet; [exact I|]. intro rt.
  generalize (thread_self_cands (as_num rt)). intro cands.
  induction cands as [|c rest IHc]; [constructor|].
  apply sub_quiet; [exact I|]. intro r. destruct (as_stat r).
  - destruct (proc_subpath fd); [|constructor; apply incl_refl].
    apply sub_quiet; [exact I|]. intro; constructor; apply incl_refl.
  - eapply sub_bind; [apply IH|]. intros u D' HD'.
    eapply sub_weaken; [apply (sub_mono _ _ _ IHc D' HD')|]. intros a E HE. unfold grows in *.
    eapply incl_tran; eassumption.
Qed.

Lemma fail1_sub {A} (Q : result A N -> list Z -> Prop) fd e D :
  (forall D', incl D D' -> Q (Err e) D') -> sub Q D (@fail1 fz A fd e).
Proof.
  intro HQ. unfold fail1. eapply sub_bind; [apply frozen_sub|]. intros u D' HD'. constructor. apply HQ, HD'.
Qed.

Lemma w_unlinkat_sub d n fl D :
  (d = top /\ n = nm) \/ (In d D /\ plain n) -> sub (grows D) D (w_unlinkat fz d n fl).
Proof.
  intro Hok. unfold w_unlinkat, simple1, rustix_path.
  destruct (negb (valid_fd d)); [constructor; apply incl_refl|].
  destruct (has_nul n); [apply fail1_sub; intros D' H; exact H|].
  constructor; [exact Hok|]. intro r. cbn [grow].
  destruct (as_unit r); [constructor; apply incl_refl|apply fail1_sub; intros D' H; exact H].
Qed.

Lemma remove_inode_sub d n D :
  (d = top /\ n = nm) \/ (In d D /\ plain n) -> sub (grows D) D (remove_inode fz d n).
Proof.
  intro Hok. unfold remove_inode.
  eapply sub_bind; [apply w_unlinkat_sub, Hok|]. intros r D1 HD1.
  destruct r as [u|ue]; [constructor; exact HD1|].
  assert (Hok1 : (d = top /\ n = nm) \/ (In d D1 /\ plain n)).
  { destruct Hok as [H|[Hin Hp]]; [left; exact H|right; split; [apply HD1, Hin|exact Hp]]. }
  eapply sub_bind; [apply w_unlinkat_sub, Hok1|]. intros r2 D2 HD2. unfold grows in *.
  destruct r2; constructor; eapply incl_tran; eassumption.
Qed.

Lemma close_sub fd D : sub (@grows unit D) D (close fd).
Proof. unfold close. apply sub_quiet; [exact I|]. intro. constructor. apply incl_refl. Qed.

Lemma close_ret_sub {A} fd D0 D (a : A) : incl D0 D -> sub (grows D0) D (close fd ;;; Ret a).
Proof.
  intro Hi. eapply sub_bind; [apply close_sub|]. intros u D' HD'. constructor. unfold grows in *. eapply incl_tran; eassumption.
Qed.

(* the open of a directory that is to be emptied: no-follow, and its result descends *)
Lemma open_flags_nofollow fl : has (N.lor (N.lor (N.lor fl OPENAT_NOFOLLOW_FORCED) OPENAT_FORCED) O_LARGEFILE) O_NOFOLLOW = true.
Proof.
  apply has_lor_l, has_lor_l, has_lor_r. reflexivity.
Qed.

Definition opened {E} (D : list Z) : result Z E -> list Z -> Prop :=
  fun r D' => incl D D' /\ match r with Ok fd => In fd D' | Err _ => True end.

Lemma w_openat_sub d n fl D :
  (d = top /\ n = nm) \/ (In d D /\ plain n) -> sub (@opened N D) D (w_openat fz d n fl 0).
Proof.
  intro Hok. unfold w_openat, w_openat_follow, rustix_path.
  destruct (negb (valid_fd d)); [constructor; split; [apply incl_refl|exact I]|].
  destruct (has_nul n); [apply fail1_sub; intros D' H; split; [exact H|exact I]|].
  constructor.
  - cbn [call_ok]. destruct Hok as [[-> ->]|[Hin Hp]].
    + left. repeat split. apply open_flags_nofollow.
    + right. split; [exact Hin|]. left. split; [exact Hp|apply open_flags_nofollow].
  - intro r. cbn [grow]. destruct (as_fd r) as [fd|e].
    + constructor. split; [apply incl_tl, incl_refl|left; reflexivity].
    + apply fail1_sub. intros D' H. split; [exact H|exact I].
Qed.

(* one pass over a directory iterator dfd (a re-open of "." of a descending descriptor);
   [rec n] removes the child n of a descending descriptor and is called for every listed
   name other than "." and ".." -- whatever the listing says *)
Lemma ra_entries_sub rec g : forall dfd buf seen D,
  (forall n D', incl D D' -> dot_or_dotdot n = false -> sub (grows D') D' (rec n)) ->
  sub (grows D) D (ra_entries rec g dfd buf seen).
Proof.
  induction g as [|g' IH]; intros dfd buf seen D Hrec; cbn [ra_entries]; [constructor|].
  destruct buf as [|n rest]; cbn iota.
  - apply sub_quiet; [exact I|]. intro r. destruct (as_dents r) as [[|n l]|e].
    + apply close_ret_sub, incl_refl.
    + apply IH. exact Hrec.
    + destruct (N.eqb e EINTR); [apply IH; exact Hrec|].
      destruct (N.eqb e ENOENT); apply close_ret_sub, incl_refl.
  - destruct (dot_or_dotdot n) eqn:Ed; [apply IH; exact Hrec|].
    eapply sub_bind; [apply (Hrec n D (incl_refl _) Ed)|]. intros r D1 HD1.
    destruct (ignore_enoent r).
    + eapply sub_weaken; [apply IH; intros m D' Hi Hp; apply Hrec; [eapply incl_tran; eassumption|exact Hp]|].
      intros a0 E HE. unfold grows in *. eapply incl_tran; eassumption.
    + apply close_ret_sub, HD1.
Qed.

Lemma ra_rounds_sub scan fin subdir g D :
  In subdir D ->
  (forall dfd D', incl D D' -> In dfd D' -> sub (grows D') D' (scan dfd)) ->
  (forall D', incl D D' -> sub (grows D') D' fin) ->
  sub (grows D) D (ra_rounds scan fin subdir g).
Proof.
  intros Hin Hscan Hfin. revert D Hin Hscan Hfin. induction g as [|g' IH]; intros D Hin Hscan Hfin; cbn [ra_rounds]; [constructor|].
  apply sub_quiet; [exact I|]. intro rf.
  assert (Hcl : forall e D', incl D D' -> sub (@grows (result unit ekind) D) D' (close subdir ;;; Ret (Err e))).
  { intros e D' Hi. apply close_ret_sub, Hi. }
  assert (Hopen : forall fl, sub (@grows (result unit ekind) D) D
     (Call (Openat subdir [DOT] (N.lor (N.lor fl O_CLOEXEC) O_LARGEFILE) 0)
        (fun ro => match as_fd ro with
                   | Err e => if N.eqb e ENOENT then fin else close subdir ;;; Ret (Err (OsError e))
                   | Ok dfd => r <- scan dfd ;;
                               match r with
                               | Err e => close subdir ;;; Ret (Err e)
                               | Ok false => fin
                               | Ok true => ra_rounds scan fin subdir g'
                               end
                   end))).
  { intro fl. constructor.
    - cbn [call_ok]. right. split; [exact Hin|right; reflexivity].
    - intro ro. cbn [grow]. destruct (as_fd ro) as [dfd|e].
      + assert (Hi1 : incl D (dfd :: D)) by apply incl_tl, incl_refl.
        eapply sub_bind; [apply (Hscan dfd (dfd :: D) Hi1); left; reflexivity|]. intros r D2 HD2. unfold grows in HD2.
        assert (Hi2 : incl D D2) by (eapply incl_tran; eassumption).
        destruct r as [[|]|e].
        * eapply sub_weaken; [apply (IH D2)|].
          -- apply Hi2, Hin.
          -- intros d' D' Hi Hd. apply Hscan; [eapply incl_tran; eassumption|exact Hd].
          -- intros D' Hi. apply Hfin. eapply incl_tran; eassumption.
          -- intros a0 E HE. unfold grows in *. eapply incl_tran; eassumption.
        * eapply sub_weaken; [apply (Hfin D2 Hi2)|]. intros a0 E HE. unfold grows in *. eapply incl_tran; eassumption.
        * apply Hcl, Hi2.
      + destruct (N.eqb e ENOENT); [apply Hfin, incl_refl|apply Hcl, incl_refl]. }
  destruct rf; try apply Hopen.
  destruct (N.eqb e ENOENT); [apply Hfin, incl_refl|apply Hcl, incl_refl].
Qed.

Lemma os_sub {A} (Q : result A N -> list Z -> Prop) (Q' : result A ekind -> list Z -> Prop) D (p : prog (result A N)) :
  sub Q D p -> (forall r D', Q r D' -> Q' (match r with Ok a => Ok a | Err e => Err (OsError e) end) D') -> sub Q' D (os p).
Proof.
  intros H HQ. unfold os, map_err. eapply sub_bind; [exact H|]. intros r D' Hr. constructor. apply HQ, Hr.
Qed.

(* dir.rs remove_all *)
Theorem remove_all_sub fuel : forall d n D,
  (d = top /\ n = nm) \/ (In d D /\ dot_or_dotdot n = false) ->
  sub (grows D) D (remove_all fz fuel d n).
Proof.
  induction fuel as [|f IH]; intros d n D Hok; cbn [remove_all]; [constructor|].
  destruct (has_slash n) eqn:Es; [constructor; apply incl_refl|].
  destruct (REMOVE_ALL_REFUSES_DOTS && dot_or_dotdot n); [constructor; apply incl_refl|].
  assert (Hok' : forall D', incl D D' -> (d = top /\ n = nm) \/ (In d D' /\ plain n)).
  { intros D' Hi. destruct Hok as [H|[Hin Hd]]; [left; exact H|right; split; [apply Hi, Hin|split; assumption]]. }
  eapply sub_bind; [apply remove_inode_sub, (Hok' D (incl_refl _))|]. intros r D1 HD1. unfold grows in HD1.
  destruct (ignore_enoent r); [constructor; exact HD1|].
  eapply sub_bind; [apply (os_sub (@opened N D1) (@opened ekind D1)); [apply w_openat_sub, (Hok' D1 HD1)|intros r0 D' Hr; destruct r0; exact Hr]|].
  intros r0 D2 [HD2 Hfd].
  assert (Hi2 : incl D D2) by (eapply incl_tran; eassumption).
  destruct r0 as [subdir|e2]; cbn iota in Hfd.
  2:{ destruct (errno_is e2 ENOENT); constructor; exact Hi2. }
  cbn zeta. eapply sub_weaken; [apply ra_rounds_sub; [exact Hfd| |]|].
  - intros dfd D' Hi Hd. apply ra_entries_sub. intros m D'' Hi' Hm. apply IH. right. split; [apply Hi', Hi, Hfd|exact Hm].
  - intros D' Hi. eapply sub_bind; [apply remove_inode_sub, (Hok' D'); eapply incl_tran; eassumption|].
    intros r3 D3 HD3. apply close_ret_sub, HD3.
  - intros a0 E HE. unfold grows in *. eapply incl_tran; eassumption.
Qed.

End Beneath.

(* ---- the creation loop of mkdir_all: one chain --------------------------------------- *)

Section Chain.
Variable fz : nat.

(* state: the directory the chain has reached, and the name just given to mkdirat (if the
   directory of that name has not been opened yet) *)
Definition cstate := (Z * option bytes)%type.

Definition chain_ok (st : cstate) (c : call) : Prop :=
  match c with
  | Mkdirat d n _ => d = fst st /\ snd st = None /\ has_slash n = false /\ dot_or_dotdot n = false /\ n <> []
  | Openat d n fl _ => d = fst st /\ snd st = Some n /\ has fl O_NOFOLLOW = true /\ has fl O_DIRECTORY = true
  | Openat2 _ _ _ _ _ | Mknodat _ _ _ _ | Unlinkat _ _ _ | Linkat _ _ _ _ _ | Symlinkat _ _ _
  | Renameat _ _ _ _ | Renameat2 _ _ _ _ _ => False
  | _ => True
  end.

Definition chain_step (st : cstate) (c : call) (r : resp) : cstate :=
  match c with
  | Mkdirat _ n _ => (fst st, Some n)
  | Openat _ _ _ _ => match as_fd r with Ok fd => (fd, None) | Err _ => st end
  | _ => st
  end.

Inductive chain {A} (Q : A -> cstate -> Prop) : cstate -> prog A -> Prop :=
| chain_ret st a : Q a st -> chain Q st (Ret a)
| chain_call c k st : chain_ok st c -> (forall r, chain Q (chain_step st c r) (k r)) -> chain Q st (Call c k)
| chain_panic s st : chain Q st (Panic s)
| chain_fuel st : chain Q st OutOfFuel.

Definition anyQ {A} : A -> cstate -> Prop := fun _ _ => True.

Lemma chain_bind {A B} (Q1 : A -> cstate -> Prop) (Q2 : B -> cstate -> Prop) st (p : prog A) (f : A -> prog B) :
  chain Q1 st p -> (forall a st', Q1 a st' -> chain Q2 st' (f a)) -> chain Q2 st (bind p f).
Proof.
  intros Hp Hf. induction Hp as [st a Ha|c k st Hc Hk IH|s st|st]; cbn [bind].
  - apply Hf, Ha.
  - constructor; [exact Hc|]. intro r. apply IH.
  - constructor.
  - constructor.
Qed.

Lemma chain_quiet {A} (Q : A -> cstate -> Prop) st c k :
  quiet c -> (forall r, chain Q st (k r)) -> chain Q st (Call c k).
Proof.
  intros Hq Hk. constructor.
  - destruct c; cbn [quiet] in Hq; try contradiction; exact I.
  - intro r. replace (chain_step st c r) with st; [apply Hk|]. destruct c; cbn [quiet] in Hq; try contradiction; reflexivity.
Qed.

Lemma frozen_chain : forall g fd st, chain (fun (_ : unit) st' => st' = st) st (frozen g fd).
Proof.
  induction g as [|f IH]; intros fd st; cbn [frozen]; [constructor|].
  apply chain_quiet; [exact I|]. intro rt. generalize (thread_self_cands (as_num rt)). intro cands.
  induction cands as [|c rest IHc]; [constructor|].
  apply chain_quiet; [exact I|]. intro r. destruct (as_stat r).
  - destruct (proc_subpath fd); [|constructor; reflexivity]. apply chain_quiet; [exact I|]. intro; constructor; reflexivity.
  - eapply chain_bind; [apply IH|]. intros u st' ->. exact IHc.
Qed.

Lemma fail1_chain {A} (Q : result A N -> cstate -> Prop) fd e st : Q (Err e) st -> chain Q st (@fail1 fz A fd e).
Proof.
  intro HQ. unfold fail1. eapply chain_bind; [apply frozen_chain|]. intros u st' ->. constructor. exact HQ.
Qed.

Lemma close_ret_chain {A} (Q : A -> cstate -> Prop) fd st (a : A) : Q a st -> chain Q st (close fd ;;; Ret a).
Proof. intro HQ. unfold close. cbn [bind]. apply chain_quiet; [exact I|]. intro. constructor. exact HQ. Qed.

Lemma mkdir_open_flags :
  has (N.lor (N.lor (N.lor MKDIR_ALL_OPEN_FLAGS OPENAT_NOFOLLOW_FORCED) OPENAT_FORCED) O_LARGEFILE) O_NOFOLLOW = true /\
  has (N.lor (N.lor (N.lor MKDIR_ALL_OPEN_FLAGS OPENAT_NOFOLLOW_FORCED) OPENAT_FORCED) O_LARGEFILE) O_DIRECTORY = true.
Proof. split; vm_compute; reflexivity. Qed.

Definition part_ok (p : bytes) : Prop := dot_or_dotdot p = false /\ p <> [].

(* mkdirat(current, part): afterwards the chain waits for the open of that name -- unless the
   wrapper refused without a call, with an error that is not EEXIST *)
Lemma w_mkdirat_chain cur part mode :
  has_slash part = false -> part_ok part ->
  chain (fun r st' => fst st' = cur /\ (snd st' = Some part \/
                        match r with Err e => N.eqb e EEXIST = false /\ snd st' = None | Ok _ => False end))
        (cur, None) (w_mkdirat fz cur part mode).
Proof.
  intros Hs [Hd Hne]. unfold w_mkdirat, simple1, rustix_path.
  destruct (negb (valid_fd cur)); [constructor; split; [reflexivity|right; split; reflexivity]|].
  destruct (has_nul part); [apply fail1_chain; split; [reflexivity|right; split; reflexivity]|].
  constructor.
  - cbn [chain_ok fst snd]. repeat split; assumption.
  - intro r. cbn [chain_step fst]. destruct (as_unit r) as [u|e].
    + constructor. split; [reflexivity|left; reflexivity].
    + apply fail1_chain. split; [reflexivity|left; reflexivity].
Qed.

(* openat(current, part, O_NOFOLLOW|O_DIRECTORY): on success the chain moves into the new directory *)
Lemma w_openat_chain cur part :
  chain (fun (r : result Z N) st' => match r with Ok next => st' = (next, None) | Err _ => True end)
        (cur, Some part) (w_openat fz cur part MKDIR_ALL_OPEN_FLAGS 0).
Proof.
  unfold w_openat, w_openat_follow, rustix_path.
  destruct (negb (valid_fd cur)); [constructor; exact I|].
  destruct (has_nul part); [apply fail1_chain; exact I|].
  constructor.
  - cbn [chain_ok fst snd]. destruct mkdir_open_flags as [H1 H2]. repeat split; assumption.
  - intro r. cbn [chain_step]. destruct (as_fd r) as [next|e].
    + constructor. reflexivity.
    + apply fail1_chain. exact I.
Qed.

(* the loop of RootRef::mkdir_all over the components that do not exist yet *)
Definition mk_parts (mode : N) : list bytes -> Z -> prog (result Z ekind) :=
  fix mk (ps : list bytes) (current : Z) : prog (result Z ekind) :=
    match ps with
    | [] => Ret (Ok current)
    | part :: rest =>
        if has_slash part then close current ;;; Ret (Err SafetyViolation) else
        r <- w_mkdirat fz current part mode ;;
        match (match r with
               | Ok _ => None
               | Err e => if N.eqb e EEXIST then None else Some e
               end) with
        | Some e => close current ;;; Ret (Err (OsError e))
        | None =>
            r <- os (w_openat fz current part MKDIR_ALL_OPEN_FLAGS 0) ;;
            match r with
            | Err e => close current ;;; Ret (Err e)
            | Ok next => close current ;;; mk rest next
            end
        end
    end.

Theorem mk_parts_chain mode ps : forall cur, Forall part_ok ps ->
  chain (@anyQ (result Z ekind)) (cur, None) (mk_parts mode ps cur).
Proof.
  unfold mk_parts. induction ps as [|part rest IH]; intros cur Hps; [constructor; exact I|].
  inversion Hps as [|? ? Hpart Hrest]; subst.
  assert (Hcl : forall (st : cstate) (e : ekind), chain (@anyQ (result Z ekind)) st (close cur ;;; Ret (Err e))).
  { intros st e. apply close_ret_chain. exact I. }
  destruct (has_slash part) eqn:Es; [apply Hcl|].
  eapply chain_bind; [apply (w_mkdirat_chain cur part mode Es Hpart)|]. intros r st1 [Hcur Hpend].
  destruct st1 as [c1 p1]. cbn [fst snd] in Hcur, Hpend. subst c1.
  assert (Hopen : p1 = Some part ->
     chain (@anyQ (result Z ekind)) (cur, p1)
       (r0 <- os (w_openat fz cur part MKDIR_ALL_OPEN_FLAGS 0) ;;
        match r0 with
        | Err e => close cur ;;; Ret (Err e)
        | Ok next => close cur ;;; (fix mk (ps : list bytes) (current : Z) : prog (result Z ekind) :=
               match ps with
               | [] => Ret (Ok current)
               | part :: rest =>
                   if has_slash part then close current ;;; Ret (Err SafetyViolation) else
                   r <- w_mkdirat fz current part mode ;;
                   match (match r with
                          | Ok _ => None
                          | Err e => if N.eqb e EEXIST then None else Some e
                          end) with
                   | Some e => close current ;;; Ret (Err (OsError e))
                   | None =>
                       r <- os (w_openat fz current part MKDIR_ALL_OPEN_FLAGS 0) ;;
                       match r with
                       | Err e => close current ;;; Ret (Err e)
                       | Ok next => close current ;;; mk rest next
                       end
                   end
               end) rest next
        end)).
  { intros ->. unfold os, map_err. eapply chain_bind; [eapply chain_bind; [apply w_openat_chain|]|].
    - intros r0 st' Hr0. constructor. instantiate (1 := fun (r : result Z ekind) st' => match r with Ok next => st' = (next, None) | Err _ => True end).
      destruct r0; exact Hr0.
    - intros r0 st' Hr0. destruct r0 as [next|e]; [|apply Hcl]. subst st'.
      unfold close. cbn [bind]. apply chain_quiet; [exact I|]. intros _. apply IH. exact Hrest. }
  destruct r as [u|e].
  - destruct Hpend as [Hp|[]]. apply Hopen, Hp.
  - destruct (N.eqb e EEXIST) eqn:Ee.
    + destruct Hpend as [Hp|[He _]]; [apply Hopen, Hp|congruence].
    + apply Hcl.
Qed.

(* the components handed to the loop by mkdir_all: no "", ".", ".." among them *)
Lemma mkdir_all_parts_ok (l : list bytes) :
  existsb is_dotdot (filter (fun p => negb (noop_part p)) l) = false ->
  Forall part_ok (filter (fun p => negb (noop_part p)) l).
Proof.
  induction l as [|p t IH]; cbn [filter]; [constructor|].
  destruct (noop_part p) eqn:En; cbn [negb]; [exact IH|].
  cbn [existsb]. intro H. apply orb_false_iff in H. destruct H as [Hdd Ht].
  constructor; [|apply IH, Ht].
  unfold noop_part in En. apply orb_false_iff in En. destruct En as [Hnil Hdot].
  split; [unfold dot_or_dotdot; rewrite Hdot, Hdd; reflexivity|].
  intro E. subst p. discriminate.
Qed.

End Chain.

(* RootRef::mkdir_all is: argument checks, the partial lookup, the re-open of the deepest
   existing directory, and then that loop over the remaining components *)
Lemma root_mkdir_all_loop fz cfg pfuel gh ps rs root path mode :
  root_mkdir_all fz cfg pfuel gh ps rs root path mode =
  if negb (N.eqb (N.ldiff mode MKDIR_ALL_MASK1) 0) then Ret (Err InvalidArgument) else
  if negb (N.eqb (N.ldiff mode MKDIR_ALL_MASK2) 0) then Ret (Err InvalidArgument) else
  l <-? r_resolve_partial fz cfg pfuel gh ps rs root path false ;;
  (* TryInto<(Handle, Option<PathBuf>)> (resolvers.rs:159-175) *)
  r <- match l with
       | Complete fd => Ret (Ok (fd, None))
       | Partial fd remaining e =>
           if (match e with OsError n => N.eqb n ENOENT | _ => false end)
           then Ret (Ok (fd, Some remaining))
           else close fd ;;; Ret (Err e)
       end ;;
  match r with
  | Err e => Ret (Err e)
  | Ok (handle, remaining) =>
      r <- h_reopen fz cfg pfuel gh handle MKDIR_ALL_REOPEN_FLAGS ;;
      match r with
      | Err e =>
          (* with_wrap(|| format!(.., FrozenFd::from(handle))) *)
          frozen fz handle ;;; close handle ;;; Ret (Err e)
      | Ok current0 =>
          (* `handle` was moved into the with_wrap closure: dropped here *)
          close handle ;;;
          let parts :=
            filter (fun p => negb (noop_part p))
                   (match remaining with Some rm => raw_components rm | None => [] end) in
          if existsb is_dotdot parts then
            close current0 ;;; Ret (Err (OsError ENOENT))
          else
            mk_parts fz mode parts current0
      end
  end.
Proof. reflexivity. Qed.
