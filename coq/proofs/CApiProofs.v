(* CApiProofs.v -- C17: argument validation and the readlink buffer contract. *)
From PV Require Import CApi PathProofs.
Open Scope Z_scope.

Lemma nth_firstn_lt {A} (d : A) : forall (l : list A) n i, (i < n)%nat -> nth i (firstn n l) d = nth i l d.
Proof.
  induction l as [|x t IH]; intros n i Hlt; [destruct n; destruct i; reflexivity|].
  destruct n as [|n]; [lia|]. destruct i as [|i]; [reflexivity|]. cbn. apply IH. lia.
Qed.

Lemma mwrite_spec bs : forall m addr a,
  mwrite m addr bs a =
  if (Z.leb addr a && Z.ltb a (addr + Z.of_nat (length bs)))
  then nth (Z.to_nat (a - addr)) bs 0%N else m a.
Proof.
  induction bs as [|x t IH]; intros m addr a; cbn [mwrite length].
  - replace (addr + Z.of_nat 0) with addr by lia.
    destruct (Z.leb_spec addr a), (Z.ltb_spec a addr); cbn; try reflexivity; lia.
  - rewrite IH. unfold mupd.
    destruct (Z.leb_spec (addr + 1) a), (Z.ltb_spec a (addr + 1 + Z.of_nat (length t))); cbn [andb].
    + destruct (Z.leb_spec addr a), (Z.ltb_spec a (addr + Z.of_nat (S (length t)))); cbn [andb]; try lia.
      replace (Z.to_nat (a - addr)) with (S (Z.to_nat (a - (addr + 1)))) by lia. reflexivity.
    + destruct (Z.leb_spec addr a), (Z.ltb_spec a (addr + Z.of_nat (S (length t)))); cbn [andb]; try lia;
        destruct (Z.eqb_spec a addr); try lia; reflexivity.
    + destruct (Z.eqb_spec a addr) as [->|Hne].
      * destruct (Z.leb_spec addr addr), (Z.ltb_spec addr (addr + Z.of_nat (S (length t)))); cbn [andb]; try lia.
        replace (Z.to_nat (addr - addr)) with 0%nat by lia. reflexivity.
      * destruct (Z.leb_spec addr a), (Z.ltb_spec a (addr + Z.of_nat (S (length t)))); cbn [andb]; try lia; reflexivity.
    + destruct (Z.eqb_spec a addr) as [->|Hne]; [lia|].
      destruct (Z.leb_spec addr a), (Z.ltb_spec a (addr + Z.of_nat (S (length t)))); cbn [andb]; try lia; reflexivity.
Qed.

(* the whole contract: return value = full length; memory differs from the
   original exactly on [buf, buf + min(len, size)), where it holds the prefix of
   the body; NULL or zero-sized buffers leave memory untouched *)
Theorem copy_exact body buf size m :
  let '(ret, m') := copy_path_into_buffer body buf size m in
  ret = Z.of_nat (length body) /\
  forall a,
    m' a = if negb (Z.eqb buf 0) && negb (Nat.eqb size 0)
              && Z.leb buf a && Z.ltb a (buf + Z.of_nat (Nat.min (length body) size))
           then nth (Z.to_nat (a - buf)) body 0%N
           else m a.
Proof.
  unfold copy_path_into_buffer. split; [reflexivity|]. intro a.
  destruct (Z.eqb buf 0) eqn:Eb; cbn [orb negb andb]; [reflexivity|].
  destruct (Nat.eqb size 0) eqn:Es; cbn [negb andb]; [reflexivity|].
  rewrite mwrite_spec. rewrite firstn_length.
  replace (Nat.min (Nat.min (length body) size) (length body)) with (Nat.min (length body) size) by lia.
  destruct (Z.leb buf a && Z.ltb a (buf + Z.of_nat (Nat.min (length body) size))) eqn:Ein; [|reflexivity].
  apply andb_true_iff in Ein as [H1 H2]. apply Z.leb_le in H1. apply Z.ltb_lt in H2.
  apply nth_firstn_lt. lia.
Qed.

(* argument validation: a negative descriptor, a NULL path or an unknown base is
   refused with InvalidArgument before the Rust-level body runs -- no system call *)
Theorem c_entry_validates {A} root path (body : Z -> bytes -> prog (result A ekind)) :
  (root < 0 \/ path = None) -> c_entry root path body = Ret (Err InvalidArgument).
Proof.
  unfold c_entry, c_fd. intros [H|H].
  - destruct (Z.ltb_spec root 0); [reflexivity|lia].
  - subst. destruct (Z.ltb root 0); reflexivity.
Qed.

Theorem c_proc_entry_validates {A} base path (body : pbase -> bytes -> prog (result A ekind)) :
  ((base <> PATHRS_PROC_ROOT /\ base <> PATHRS_PROC_SELF /\ base <> PATHRS_PROC_THREAD_SELF) \/ path = None) ->
  c_proc_entry base path body = Ret (Err InvalidArgument).
Proof.
  unfold c_proc_entry, c_base. intros [(H1 & H2 & H3)|H].
  - destruct (N.eqb_spec base PATHRS_PROC_ROOT); [contradiction|].
    destruct (N.eqb_spec base PATHRS_PROC_SELF); [contradiction|].
    destruct (N.eqb_spec base PATHRS_PROC_THREAD_SELF); [contradiction|reflexivity].
  - subst. destruct (N.eqb base PATHRS_PROC_ROOT); [reflexivity|].
    destruct (N.eqb base PATHRS_PROC_SELF); [reflexivity|].
    destruct (N.eqb base PATHRS_PROC_THREAD_SELF); reflexivity.
Qed.

(* valid arguments reach the body unchanged (the glue adds nothing else) *)
Theorem c_entry_passes {A} root path (body : Z -> bytes -> prog (result A ekind)) :
  0 <= root -> c_entry root (Some path) body = body root (to_c_string path).
Proof. intro H. unfold c_entry, c_fd. destruct (Z.ltb_spec root 0); [lia|reflexivity]. Qed.

(* mknod: the S_IFMT field selects the inode type, the rest is the permission
   mode; an unknown format is an invalid argument, S_IFSOCK is not implemented *)
Theorem c_mknod_decode mode dev :
  match c_mknod_type mode dev with
  | Ok (IFile p) => N.land mode S_IFMT = S_IFREG /\ p = N.ldiff mode S_IFMT
  | Ok (IDirectory p) => N.land mode S_IFMT = S_IFDIR /\ p = N.ldiff mode S_IFMT
  | Ok (IBlockDev p d) => N.land mode S_IFMT = S_IFBLK /\ p = N.ldiff mode S_IFMT /\ d = dev
  | Ok (ICharDev p d) => N.land mode S_IFMT = S_IFCHR /\ p = N.ldiff mode S_IFMT /\ d = dev
  | Ok (IFifo p) => N.land mode S_IFMT = S_IFIFO /\ p = N.ldiff mode S_IFMT
  | Ok _ => False
  | Err NotImplemented => N.land mode S_IFMT = S_IFSOCK
  | Err InvalidArgument =>
      ~ In (N.land mode S_IFMT) [S_IFREG; S_IFDIR; S_IFBLK; S_IFCHR; S_IFIFO; S_IFSOCK]
  | Err _ => False
  end.
Proof.
  unfold c_mknod_type, mknod_decode.
  destruct (N.eqb_spec (N.land mode S_IFMT) S_IFREG) as [E|N1]; [auto|].
  destruct (N.eqb_spec (N.land mode S_IFMT) S_IFDIR) as [E|N2]; [auto|].
  destruct (N.eqb_spec (N.land mode S_IFMT) S_IFBLK) as [E|N3]; [auto|].
  destruct (N.eqb_spec (N.land mode S_IFMT) S_IFCHR) as [E|N4]; [auto|].
  destruct (N.eqb_spec (N.land mode S_IFMT) S_IFIFO) as [E|N5]; [auto|].
  destruct (N.eqb_spec (N.land mode S_IFMT) S_IFSOCK) as [E|N6]; [auto|].
  cbn [In]. intuition congruence.
Qed.
