(* FSProofs.v -- C01: the walks over an arbitrary well-formed static file system. *)
From PV Require Import FSModel PathProofs.
Open Scope N_scope.

(* Well-formedness of a static tree: [df] is the depth of every directory; every
   directory reached as somebody's child has that somebody as its parent and
   sits one level deeper; the root is nobody's child. *)
Record wf (s : fs) (df : nat -> nat) : Prop := {
  wf_root_dir : is_dir s ROOT = true;
  wf_root_depth : df ROOT = 0%nat;
  wf_child_dir : forall d n c, lookup s d n = Some c -> is_dir s c = true ->
                               parent_of s c = d /\ df c = S (df d);
  wf_ents_dir : forall d n c, lookup s d n = Some c -> is_dir s d = true;   (* only directories hold entries *)
}.

(* reachable from the root by walking down through directory entries *)
Inductive reach (s : fs) : nat -> Prop :=
| reach_root : reach s ROOT
| reach_child d n c : reach s d -> lookup s d n = Some c -> reach s c.

Section Walks.
Variable s : fs.
Variable df : nat -> nat.
Hypothesis Hwf : wf s df.

Lemma reach_dir_cases c : reach s c -> is_dir s c = true ->
  c = ROOT \/ (reach s (parent_of s c) /\ df c = S (df (parent_of s c))).
Proof.
  intros Hr Hd. inversion Hr as [|d n c' Hrd Hl]; subst; [left; reflexivity|].
  right. destruct (wf_child_dir s df Hwf d n c Hl Hd) as [Hp Hdf]. rewrite Hp. split; assumption.
Qed.

Lemma depth0_is_root c : reach s c -> is_dir s c = true -> df c = 0%nat -> c = ROOT.
Proof.
  intros Hr Hd H0. destruct (reach_dir_cases c Hr Hd) as [->|[_ Hs]]; [reflexivity|]. rewrite H0 in Hs. discriminate.
Qed.

Lemma parent_reach c : reach s c -> is_dir s c = true -> c <> ROOT -> reach s (parent_of s c).
Proof. intros Hr Hd Hne. destruct (reach_dir_cases c Hr Hd) as [->|[H _]]; [contradiction|exact H]. Qed.

(* ---- containment: a successful walk ends on an object of the root's tree ------------ *)

Definition ok_reach (r : wres) : Prop := match r with WOk o => reach s o | _ => True end.

Lemma kbody_reach nf nosym follow :
  (forall go, follow = Some go -> forall cur cs, reach s cur -> ok_reach (go cur cs)) ->
  forall cs cur, reach s cur -> ok_reach (kbody s nf nosym follow cur cs).
Proof.
  intros Hgo cs. induction cs as [|c rest IH]; intros cur Hr; cbn [kbody]; [exact Hr|].
  destruct (negb (is_dir s cur)) eqn:Ed; [exact I|]. apply negb_false_iff in Ed.
  destruct (is_nil c || is_dot c); [apply IH, Hr|].
  destruct (is_dotdot c).
  { apply IH. destruct (Nat.eqb_spec cur ROOT) as [->|Hne]; [constructor|apply parent_reach; assumption]. }
  destruct (lookup s cur c) as [d|] eqn:El; [|exact I].
  assert (Hd : reach s d) by (eapply reach_child; eassumption).
  destruct (link_body s d) as [body|]; [|apply IH, Hd].
  destruct (is_nil rest && nf); [exact Hd|].
  destruct nosym; [exact I|].
  destruct follow as [go|]; [|exact I].
  eapply Hgo; [reflexivity|]. destruct (is_abs body); [constructor|exact Hr].
Qed.

Lemma kwalk_q_reach nf nosym budget : forall cur cs, reach s cur -> ok_reach (kwalk_q s nf nosym budget cur cs).
Proof.
  induction budget as [|b IH]; intros cur cs Hr; cbn [kwalk_q].
  - apply kbody_reach; [discriminate|exact Hr].
  - apply kbody_reach; [|exact Hr]. intros go Hgo. inversion Hgo; subst. exact IH.
Qed.

(* ---- the emulated walk computes what the kernel's walk computes ---------------------
   invariant between the two machines: the emulated walk's expected-path depth
   is the directory depth of its current object (any positive number when the
   current object is not a directory -- the next step fails with ENOTDIR in
   both machines) *)
Definition inv (cur depth : nat) : Prop :=
  reach s cur /\ (is_dir s cur = true -> depth = df cur) /\ (is_dir s cur = false -> depth <> 0%nat).

Lemma inv_root : inv ROOT 0.
Proof.
  split; [constructor|split]; [intros _; symmetry; apply (wf_root_depth s df Hwf)|].
  rewrite (wf_root_dir s df Hwf). discriminate.
Qed.

Lemma ebody_kbody nf nosym fe fk :
  (match fe, fk with
   | None, None => True
   | Some ge, Some gk => forall cur depth cs, inv cur depth -> ge cur depth cs = gk cur cs
   | _, _ => False end) ->
  forall cs cur depth, inv cur depth -> ebody s nf nosym fe cur depth cs = kbody s nf nosym fk cur cs.
Proof.
  intros Hf cs. induction cs as [|c rest IH]; intros cur depth (Hr & Hdd & Hnd); cbn [ebody kbody]; [reflexivity|].
  destruct (is_dir s cur) eqn:Ed; cbn [negb].
  - (* cur is a directory *)
    specialize (Hdd eq_refl).
    destruct (is_nil c || is_dot c); [apply IH; repeat split; auto; congruence|].
    destruct (is_dotdot c).
    + destruct depth as [|d'].
      * (* expected path is "/" : we are at the root *)
        assert (cur = ROOT) by (apply depth0_is_root; auto). subst cur.
        rewrite Nat.eqb_refl. apply IH, inv_root.
      * destruct (Nat.eqb_spec cur ROOT) as [->|Hne].
        { rewrite (wf_root_depth s df Hwf) in Hdd. discriminate. }
        apply IH. destruct (reach_dir_cases cur Hr Ed) as [->|[Hpr Hdf]]; [contradiction|].
        split; [exact Hpr|split].
        -- intros _. rewrite Hdf in Hdd. congruence.
        -- (* the parent of a reachable directory is a directory: it holds an entry *)
           intro Hnd'. exfalso.
           inversion Hr as [E|d n c' Hrd Hl E]; subst; [contradiction|].
           destruct (wf_child_dir s df Hwf d n cur Hl Ed) as [Hp _]. rewrite Hp in Hnd'.
           rewrite (wf_ents_dir s df Hwf d n cur Hl) in Hnd'. discriminate.
    + destruct (lookup s cur c) as [d|] eqn:El; [|reflexivity].
      destruct (link_body s d) as [body|] eqn:Eb.
      * destruct (is_nil rest && nf); [reflexivity|]. destruct nosym; [reflexivity|].
        destruct fe as [ge|], fk as [gk|]; try contradiction; [|reflexivity].
        destruct (is_abs body); apply Hf; [apply inv_root|repeat split; auto; congruence].
      * apply IH. split; [eapply reach_child; eassumption|split].
        -- intro Hdir. destruct (wf_child_dir s df Hwf cur c d El Hdir) as [_ Hdf]. congruence.
        -- intros _. discriminate.
  - (* cur is not a directory: ENOTDIR whatever comes *)
    specialize (Hnd eq_refl).
    destruct (is_nil c || is_dot c); [reflexivity|].
    destruct (is_dotdot c); [|reflexivity].
    destruct depth; [contradiction|reflexivity].
Qed.

Lemma ewalk_q_kwalk_q nf nosym budget : forall cur depth cs,
  inv cur depth -> ewalk_q s nf nosym budget cur depth cs = kwalk_q s nf nosym budget cur cs.
Proof.
  induction budget as [|b IH]; intros cur depth cs Hi; cbn [ewalk_q kwalk_q].
  - apply ebody_kbody; [exact I|exact Hi].
  - apply ebody_kbody; [|exact Hi]. exact IH.
Qed.

(* ---- more budget never changes an answer that did not run out of budget ------------- *)

Lemma kbody_mono nf nosym f1 f2 :
  (match f1, f2 with
   | None, _ => True
   | Some g1, Some g2 => forall cur cs, g1 cur cs <> WBudget -> g2 cur cs = g1 cur cs
   | Some _, None => False end) ->
  forall cs cur, kbody s nf nosym f1 cur cs <> WBudget -> kbody s nf nosym f2 cur cs = kbody s nf nosym f1 cur cs.
Proof.
  intros Hf cs. induction cs as [|c rest IH]; intros cur Hne; cbn [kbody] in *; [reflexivity|].
  destruct (negb (is_dir s cur)); [reflexivity|].
  destruct (is_nil c || is_dot c); [apply IH, Hne|].
  destruct (is_dotdot c); [apply IH, Hne|].
  destruct (lookup s cur c) as [d|]; [|reflexivity].
  destruct (link_body s d) as [body|]; [|apply IH, Hne].
  destruct (is_nil rest && nf); [reflexivity|]. destruct nosym; [reflexivity|].
  destruct f1 as [g1|]; [|contradiction]. destruct f2 as [g2|]; [|contradiction].
  apply Hf, Hne.
Qed.

Lemma kwalk_q_mono nf nosym b1 : forall b2 cur cs, (b1 <= b2)%nat ->
  kwalk_q s nf nosym b1 cur cs <> WBudget -> kwalk_q s nf nosym b2 cur cs = kwalk_q s nf nosym b1 cur cs.
Proof.
  induction b1 as [|b IH]; intros b2 cur cs Hle Hne; cbn [kwalk_q] in *.
  - destruct b2; cbn [kwalk_q]; apply kbody_mono; try exact I; exact Hne.
  - destruct b2 as [|b2']; [lia|]. cbn [kwalk_q]. apply kbody_mono; [|exact Hne].
    intros cur' cs' Hne'. apply IH; [lia|exact Hne'].
Qed.

(* ---- C01 ----------------------------------------------------------------------------- *)

Theorem emu_eq_kernel p nf nosym :
  (EMPTY_PATH_IS_ENOENT = true \/ p <> []) ->
  kwalk s p nf nosym <> WBudget ->                  (* at most 40 link traversals *)
  ewalk s p nf nosym = kwalk s p nf nosym.
Proof.
  intros Hp Hb. unfold ewalk, kwalk in *.
  destruct p as [|x p'].
  - destruct Hp as [->|Hp]; [reflexivity|contradiction].
  - cbn [is_nil]. rewrite andb_false_r.
    rewrite ewalk_q_kwalk_q by apply inv_root.
    apply kwalk_q_mono; [unfold EMU_LINKS, KERNEL_LINKS; vm_compute; repeat constructor|exact Hb].
Qed.

Theorem kernel_in_root p nf nosym o : kwalk s p nf nosym = WOk o -> reach s o.
Proof.
  unfold kwalk. destruct (is_nil p); [discriminate|]. intro H.
  pose proof (kwalk_q_reach nf nosym KERNEL_LINKS ROOT (raw_components p) (reach_root s)) as Hr.
  rewrite H in Hr. exact Hr.
Qed.

Theorem emu_in_root p nf nosym o : ewalk s p nf nosym = WOk o -> reach s o.
Proof.
  unfold ewalk. destruct (EMPTY_PATH_IS_ENOENT && is_nil p); [discriminate|].
  rewrite ewalk_q_kwalk_q by apply inv_root. intro H.
  pose proof (kwalk_q_reach nf nosym EMU_LINKS ROOT (raw_components p) (reach_root s)) as Hr.
  rewrite H in Hr. exact Hr.
Qed.

End Walks.

(* ---- a decidable well-formedness check, so that concrete (built) trees meet the
   hypotheses of the theorems above ---------------------------------------------------- *)

Fixpoint depth_fuel (s : fs) (fuel : nat) (o : nat) : nat :=
  match fuel with
  | O => 0%nat
  | S f => if Nat.eqb o ROOT then 0%nat else S (depth_fuel s f (parent_of s o))
  end.
Definition depthf (s : fs) (o : nat) : nat := depth_fuel s (length (kinds s)) o.

Definition ent_ok (s : fs) (e : nat * bytes * nat) : bool :=
  let '(d, _, c) := e in
  is_dir s d &&
  (if is_dir s c then Nat.eqb (parent_of s c) d && Nat.eqb (depthf s c) (S (depthf s d)) else true).

Definition wf_b (s : fs) : bool :=
  is_dir s ROOT && Nat.eqb (depthf s ROOT) 0 && forallb (ent_ok s) (ents s).

Lemma find_ent_in es d n c : find_ent es d n = Some c -> exists n', In (d, n', c) es.
Proof.
  induction es as [|[[d' n'] c'] t IH]; cbn; [discriminate|].
  destruct (Nat.eqb d d' && beq n n') eqn:E.
  - intro H; inversion H; subst. apply andb_true_iff in E as [E1 _]. apply Nat.eqb_eq in E1. subst.
    exists n'. left; reflexivity.
  - intro H. destruct (IH H) as [n'' Hin]. exists n''. right; exact Hin.
Qed.

Theorem wf_b_sound s : wf_b s = true -> wf s (depthf s).
Proof.
  unfold wf_b. intro H. apply andb_true_iff in H as [H H3]. apply andb_true_iff in H as [H1 H2].
  apply Nat.eqb_eq in H2. rewrite forallb_forall in H3.
  constructor; [exact H1|exact H2| |].
  - intros d n c Hl Hd. destruct (find_ent_in _ _ _ _ Hl) as [n' Hin].
    specialize (H3 _ Hin). cbn in H3. apply andb_true_iff in H3 as [_ H3]. rewrite Hd in H3.
    apply andb_true_iff in H3 as [Ha Hb]. apply Nat.eqb_eq in Ha, Hb. split; assumption.
  - intros d n c Hl. destruct (find_ent_in _ _ _ _ Hl) as [n' Hin].
    specialize (H3 _ Hin). cbn in H3. apply andb_true_iff in H3 as [H3 _]. exact H3.
Qed.
