(* RootDisc.v -- C05 for resolvers/openat2.rs, resolvers.rs, root.rs, utils/dir.rs. *)
From PV Require Import Discipline ProgTac BitsProofs PathProofs DisciplineProofs OpathDisc.
Open Scope N_scope.

Arguments N.eqb : simpl never.
Arguments N.lor : simpl never.
Arguments N.land : simpl never.

Section RootDisc.
Variable fz : nat.
Variable cfg : bool.
Variable pfuel : nat.
Variable gh : phandle.
Variable sysctl_ps : N.
Hypothesis Hgh : rfd (ph_fd gh).

Notation r_resolve := (r_resolve fz cfg pfuel gh sysctl_ps).
Notation r_resolve_partial := (r_resolve_partial fz cfg pfuel gh sysctl_ps).
Notation r_open := (r_open fz cfg pfuel gh sysctl_ps).
Notation resolve_parent := (resolve_parent fz cfg pfuel gh sysctl_ps).
Notation parent_and_name := (parent_and_name fz cfg pfuel gh sysctl_ps).

Lemma root_mask_magic m rf : has m RESOLVE_NO_MAGICLINKS = true -> has (N.lor m rf) RESOLVE_NO_MAGICLINKS = true.
Proof. apply has_lor_l. Qed.

Lemma root_mask_inroot m rf : has m RESOLVE_IN_ROOT = true ->
  has (N.lor m rf) RESOLVE_IN_ROOT || (has (N.lor m rf) RESOLVE_BENEATH && has (N.lor m rf) RESOLVE_NO_XDEV) = true.
Proof. intro H. rewrite (has_lor_l _ rf _ H). reflexivity. Qed.

Lemma k_open_ok root path rf fl : rfd root -> okd Qfd (k_open fz cfg root path rf fl).
Proof.
  intro Hr. unfold k_open, os. destruct cfg; cbn [negb]; [|constructor; exact I].
  destruct (N.eqb OPENAT2_OPEN_RETRIES 0).
  - apply okp_map_err, w_openat2_ok; [exact Hr|apply root_mask_magic; reflexivity|apply root_mask_inroot; reflexivity].
  - unfold k_open_loop. apply openat2_retry_ok; [exact Hr|apply root_mask_magic; reflexivity|apply root_mask_inroot; reflexivity].
Qed.

Lemma k_resolve_loop_ok n root path fl rf :
  rfd root -> okd Qfd (k_resolve_loop fz n root path fl (N.lor OPENAT2_RESOLVE_RESOLVE rf)).
Proof.
  intro Hr. induction n as [|m IH]; cbn [k_resolve_loop]; [constructor; exact I|].
  eapply okp_bind; [apply w_openat2_ok; [exact Hr|apply root_mask_magic; reflexivity|apply root_mask_inroot; reflexivity]|].
  intros r Hfd. destruct r as [fd|e]; [constructor; exact Hfd|].
  destruct (N.eqb e ENOSYS); [constructor; exact I|].
  destruct (N.eqb e EAGAIN); [exact IH|constructor; exact I].
Qed.

Lemma k_resolve_ok root path rf nf : rfd root -> okd Qfd (k_resolve fz cfg root path rf nf).
Proof.
  intro Hr. unfold k_resolve. destruct cfg; cbn [negb]; [|constructor; exact I].
  apply k_resolve_loop_ok; exact Hr.
Qed.

Definition Qlk {E} : result lookup E -> Prop := okR (fun l => rfd (lookup_fd l)).

Lemma k_resolve_partial_ok root path rf nf : rfd root -> okd Qlk (k_resolve_partial fz cfg root path rf nf).
Proof.
  intro Hr. unfold k_resolve_partial.
  eapply okp_bind; [apply k_resolve_ok; exact Hr|]. intros r Hfd.
  destruct r as [fd|e0]; [constructor; exact Hfd|].
  generalize (partial_ancestors path) e0. intro anc.
  induction anc as [|[p rem] rest IH]; intro last; [destruct PARTIAL_UNREACHABLE_PANICS eqn:Efl; constructor; try exact I; right; right; right; split; [exact Efl|reflexivity]|].
  destruct (is_safety_violation last); [constructor; exact I|].
  eapply okp_bind; [apply k_resolve_ok; exact Hr|]. intros r2 Hfd2.
  destruct r2 as [fd|e]; [constructor; exact Hfd2|apply IH].
Qed.

Lemma r_resolve_ok rs root path nf : rfd root -> okd Qfd (r_resolve rs root path nf).
Proof.
  intro Hr. unfold RootM.r_resolve. destruct (rs_kernel rs);
    [apply k_resolve_ok|apply opath_resolve_root_ok]; assumption.
Qed.

Lemma r_resolve_partial_ok rs root path nf : rfd root -> okd Qlk (r_resolve_partial rs root path nf).
Proof.
  intro Hr. unfold RootM.r_resolve_partial. destruct (rs_kernel rs);
    [apply k_resolve_partial_ok|apply opath_resolve_partial_ok]; assumption.
Qed.

Lemma h_reopen_ok fd fl : rfd fd -> okf Qfd (h_reopen fz cfg pfuel gh fd fl).
Proof. intro H. unfold h_reopen. apply reopen_ok; assumption. Qed.

Ltac weak := eapply okp_weaken_P; [apply Pdn_Pd|].

Lemma close_ret_ok {A E} (Qa : A -> Prop) fd (r : result A E) :
  rfd fd -> okR Qa r -> okd (okR Qa) (close fd ;;; Ret r).
Proof. intros Hfd Hr. eapply okp_bind; [apply close_ok; exact Hfd|]. intros _ _. constructor; exact Hr. Qed.

(* Resolver::open: disciplined; only the reopen through procfs may follow *)
Theorem r_open_ok rs root path fl : rfd root -> okf Qfd (r_open rs root path fl).
Proof.
  intro Hr. unfold RootM.r_open. destruct (_ || _); [constructor; exact I|].
  destruct (rs_kernel rs) eqn:Ek; [weak; apply k_open_ok; exact Hr|].
  eapply okp_bindR; [weak; apply r_resolve_ok; exact Hr| |intro; exact I]. intros h Hh.
  unfold os. eapply okp_bind; [weak; apply okp_map_err, w_fstatat_ok; [exact Hh|reflexivity]|]. intros r _.
  destruct r as [meta|e]; [|weak; apply close_ret_ok; [exact Hh|exact I]].
  destruct (is_symlink_mode _).
  - destruct (has fl O_DIRECTORY); [weak; apply close_ret_ok; [exact Hh|exact I]|].
    destruct (has fl O_PATH); [constructor; exact Hh|weak; apply close_ret_ok; [exact Hh|exact I]].
  - eapply okp_bind; [apply h_reopen_ok; exact Hh|]. intros r Hrr.
    weak. apply close_ret_ok; [exact Hh|exact Hrr].
Qed.

Definition Qpn {E} : result (Z * bytes) E -> Prop :=
  okR (fun dn => rfd (fst dn) /\ single (snd dn) = true).

Lemma parent_and_name_ok rs root path : rfd root -> okd Qpn (parent_and_name rs root path).
Proof.
  intro Hr. unfold RootM.parent_and_name, RootM.resolve_parent.
  destruct (path_split path) as [[[parent name]|e]|] eqn:Hsp.
  - eapply okp_bindR.
    + instantiate (1 := fun dn => rfd (fst dn) /\ (forall n, snd dn = Some n -> single n = true)).
      eapply okp_bindR; [apply r_resolve_ok; exact Hr| |intro; exact I]. intros dir Hd.
      constructor. split; [exact Hd|]. intros n Hn. cbn in Hn. subst name.
      unfold single. destruct (path_split_name_single _ _ _ Hsp) as [_ Hs]. rewrite Hs. reflexivity.
    + intros [dir [n|]] [Hd Hn]; cbn in *.
      * constructor. split; [exact Hd|apply Hn; reflexivity].
      * apply close_ret_ok; [exact Hd|exact I].
    + intro; exact I.
  - cbn. constructor. exact I.
  - exfalso. exact (path_split_total _ Hsp).
Qed.

Theorem root_readlink_ok rs root path : rfd root -> okd (okR QT) (root_readlink fz cfg pfuel gh sysctl_ps rs root path).
Proof.
  intro Hr. unfold root_readlink, os.
  eapply okp_bindR; [apply r_resolve_ok; exact Hr| |intro; exact I]. intros link Hl.
  eapply okp_bind; [apply okp_map_err, w_readlinkat_ok; exact Hl|]. intros r _.
  apply close_ret_ok; [exact Hl|apply okR_T].
Qed.

Theorem root_create_ok rs root path ty : rfd root -> okd (okR QT) (root_create fz cfg pfuel gh sysctl_ps rs root path ty).
Proof.
  intro Hr. unfold root_create, os.
  eapply okp_bindR; [apply parent_and_name_ok; exact Hr| |intro; exact I]. intros [dir name] [Hd Hn]. cbn in Hd, Hn.
  destruct ty.
  - eapply okp_bind; [apply okp_map_err, w_mknodat_ok; assumption|]. intros r _. apply close_ret_ok; [exact Hd|apply okR_T].
  - eapply okp_bind; [apply okp_map_err, w_mkdirat_ok; assumption|]. intros r _. apply close_ret_ok; [exact Hd|apply okR_T].
  - eapply okp_bind; [apply okp_map_err, w_symlinkat_ok; assumption|]. intros r _. apply close_ret_ok; [exact Hd|apply okR_T].
  - eapply okp_bind; [apply parent_and_name_ok; exact Hr|]. intros r Hpn.
    destruct r as [[olddir oldname]|e]; [|apply close_ret_ok; [exact Hd|exact I]].
    destruct Hpn as [Hod Hon]. cbn in Hod, Hon.
    eapply okp_bind; [apply okp_map_err, w_linkat_ok; assumption|]. intros r _.
    eapply okp_bind; [apply close_ok; exact Hd|]. intros _ _. apply close_ret_ok; [exact Hod|apply okR_T].
  - eapply okp_bind; [apply okp_map_err, w_mknodat_ok; assumption|]. intros r _. apply close_ret_ok; [exact Hd|apply okR_T].
  - eapply okp_bind; [apply okp_map_err, w_mknodat_ok; assumption|]. intros r _. apply close_ret_ok; [exact Hd|apply okR_T].
  - eapply okp_bind; [apply okp_map_err, w_mknodat_ok; assumption|]. intros r _. apply close_ret_ok; [exact Hd|apply okR_T].
Qed.

Theorem root_create_file_ok rs root path fl mode :
  rfd root -> okd Qfd (root_create_file fz cfg pfuel gh sysctl_ps rs root path fl mode).
Proof.
  intro Hr. unfold root_create_file, os. destruct (CREATE_FILE_REFUSES_OPATH && has fl O_PATH); [constructor; exact I|].
  eapply okp_bindR; [apply parent_and_name_ok; exact Hr| |intro; exact I]. intros [dir name] [Hd Hn]. cbn in Hd, Hn.
  eapply okp_bind; [apply okp_map_err, w_openat_ok; assumption|]. intros r Hfd.
  apply close_ret_ok; [exact Hd|exact Hfd].
Qed.

Theorem root_remove_inode_ok rs root path isdir :
  rfd root -> okd (okR QT) (root_remove_inode fz cfg pfuel gh sysctl_ps rs root path isdir).
Proof.
  intro Hr. unfold root_remove_inode, os.
  eapply okp_bindR; [apply parent_and_name_ok; exact Hr| |intro; exact I]. intros [dir name] [Hd Hn]. cbn in Hd, Hn.
  eapply okp_bind; [apply okp_map_err, w_unlinkat_ok; assumption|]. intros r _.
  apply close_ret_ok; [exact Hd|apply okR_T].
Qed.

Theorem root_rename_ok rs root src dst rfl :
  rfd root -> okd (okR QT) (root_rename fz cfg pfuel gh sysctl_ps rs root src dst rfl).
Proof.
  intro Hr. unfold root_rename, os.
  eapply okp_bindR; [apply parent_and_name_ok; exact Hr| |intro; exact I]. intros [sd sn] [Hsd Hsn]. cbn in Hsd, Hsn.
  eapply okp_bind; [apply parent_and_name_ok; exact Hr|]. intros r Hpn.
  destruct r as [[dd dn]|e]; [|apply close_ret_ok; [exact Hsd|exact I]].
  destruct Hpn as [Hdd Hdn]. cbn in Hdd, Hdn.
  eapply okp_bind; [apply okp_map_err, w_renameat2_ok; assumption|]. intros r _.
  eapply okp_bind; [apply close_ok; exact Hdd|]. intros _ _. apply close_ret_ok; [exact Hsd|apply okR_T].
Qed.

(* ---- utils/dir.rs ---------------------------------------------------------- *)

Lemma remove_inode_ok dirfd name : rfd dirfd -> single name = true -> okd (okR QT) (remove_inode fz dirfd name).
Proof.
  intros Hd Hn. unfold remove_inode.
  eapply okp_bind; [apply w_unlinkat_ok; assumption|]. intros r _.
  destruct r; [constructor; exact I|].
  eapply okp_bind; [apply w_unlinkat_ok; assumption|]. intros r2 _.
  destruct r2; constructor; exact I.
Qed.

Lemma ra_entries_ok rec g : forall dfd buf seen,
  (forall n, okd (okR (@QT unit)) (rec n)) -> rfd dfd ->
  okd (okR (@QT bool)) (ra_entries rec g dfd buf seen).
Proof.
  induction g as [|g' IH]; intros dfd buf seen Hrec Hd; cbn [ra_entries]; [constructor|].
  destruct buf as [|n rest]; cbn iota.
  - constructor; [unfold rfd in *; pdn_solve|]. intro r. destruct (as_dents r) as [[|n l]|e].
    + apply close_ret_ok; [exact Hd|exact I].
    + apply IH; assumption.
    + destruct (N.eqb e EINTR); [apply IH; assumption|].
      destruct (N.eqb e ENOENT); apply close_ret_ok; try exact Hd; exact I.
  - destruct (dot_or_dotdot n); [apply IH; assumption|].
    eapply okp_bind; [apply Hrec|]. intros r _.
    destruct (ignore_enoent r); [apply IH; assumption|apply close_ret_ok; [exact Hd|exact I]].
Qed.

Lemma ra_rounds_ok scan fin subdir g :
  (forall dfd, rfd dfd -> okd (okR (@QT bool)) (scan dfd)) ->
  okd (okR (@QT unit)) fin -> rfd subdir ->
  okd (okR (@QT unit)) (ra_rounds scan fin subdir g).
Proof.
  intros Hscan Hfin Hs. induction g as [|g' IH]; cbn [ra_rounds]; [constructor|].
  constructor; [unfold rfd in *; pdn_solve|]. intro rf.
  assert (Hopen : forall fl, okd (okR (@QT unit))
     (Call (Openat subdir [DOT] (N.lor (N.lor fl O_CLOEXEC) O_LARGEFILE) 0)
        (fun ro => match as_fd ro with
                   | Err e => if N.eqb e ENOENT then fin else close subdir ;;; Ret (Err (OsError e))
                   | Ok dfd => r <- scan dfd ;;
                               match r with
                               | Err e => close subdir ;;; Ret (Err e)
                               | Ok false => fin
                               | Ok true => ra_rounds scan fin subdir g'
                               end
                   end))).
  { intro fl. constructor.
    - split.
      + cbn [disc_b]. rewrite (real_fd_not_cwd _ Hs), Hs.
        change (single [DOT]) with true. change (dotname [DOT]) with true. cbn [andb orb].
        rewrite andb_true_r. apply has_lor_l, has_lor_r. reflexivity.
      + cbn [nofollow_b]. apply orb_true_r.
    - intro ro. destruct (as_fd ro) as [dfd|e] eqn:E.
      + eapply okp_bind; [apply Hscan; eapply as_fd_real; exact E|]. intros r _.
        destruct r as [[|]|e]; [exact IH|exact Hfin|apply close_ret_ok; [exact Hs|exact I]].
      + destruct (N.eqb e ENOENT); [exact Hfin|apply close_ret_ok; [exact Hs|exact I]]. }
  destruct rf; try apply Hopen.
  destruct (N.eqb e ENOENT); [exact Hfin|apply close_ret_ok; [exact Hs|exact I]].
Qed.

Theorem remove_all_ok fuel : forall dirfd name, rfd dirfd -> okd (okR QT) (remove_all fz fuel dirfd name).
Proof.
  induction fuel as [|f IH]; intros dirfd name Hd; cbn [remove_all]; [constructor|].
  destruct (has_slash name) eqn:Hsl; [constructor; exact I|].
  assert (Hn : single name = true) by (unfold single; rewrite Hsl; reflexivity).
  destruct (REMOVE_ALL_REFUSES_DOTS && dot_or_dotdot name); [constructor; exact I|].
  eapply okp_bind; [apply remove_inode_ok; assumption|]. intros r _.
  destruct (ignore_enoent r); [constructor; exact I|].
  unfold os. eapply okp_bind; [apply okp_map_err, w_openat_ok; assumption|]. intros r2 Hsub.
  destruct r2 as [subdir|e2]; [|destruct (errno_is e2 ENOENT); constructor; exact I].
  cbn in Hsub. cbn zeta.
  apply ra_rounds_ok; [| |exact Hsub].
  - intros dfd Hdfd. apply ra_entries_ok; [|exact Hdfd]. intro n. apply IH; exact Hsub.
  - eapply okp_bind; [apply remove_inode_ok; assumption|]. intros r3 _.
    apply close_ret_ok; [exact Hsub|apply okR_T].
Qed.

Theorem root_remove_all_ok rfuel rs root path :
  rfd root -> okd (okR QT) (root_remove_all fz cfg pfuel gh sysctl_ps rfuel rs root path).
Proof.
  intro Hr. unfold root_remove_all.
  eapply okp_bindR; [apply parent_and_name_ok; exact Hr| |intro; exact I]. intros [dir name] [Hd Hn]. cbn in Hd, Hn.
  eapply okp_bind; [apply remove_all_ok; exact Hd|]. intros r _.
  apply close_ret_ok; [exact Hd|apply okR_T].
Qed.

Lemma mk_parts_ok ps : forall cur mode, rfd cur ->
  okd Qfd ((fix mk (ps : list bytes) (current : Z) : prog (result Z ekind) :=
               match ps with
               | [] => Ret (Ok current)
               | part :: rest =>
                   if has_slash part then close current ;;; Ret (Err SafetyViolation) else
                   r <- w_mkdirat fz current part mode ;;
                   match (match r with
                          | Ok _ => None
                          | Err e => if N.eqb e EEXIST then None else Some e
                          end) with
                   | Some e => close current ;;; Ret (Err (OsError e))
                   | None =>
                       r <- os (w_openat fz current part MKDIR_ALL_OPEN_FLAGS 0) ;;
                       match r with
                       | Err e => close current ;;; Ret (Err e)
                       | Ok next => close current ;;; mk rest next
                       end
                   end
               end) ps cur).
Proof.
  induction ps as [|part rest IH]; intros cur mode Hc; [constructor; exact Hc|].
  destruct (has_slash part) eqn:Hsl; [apply close_ret_ok; [exact Hc|exact I]|].
  assert (Hp : single part = true) by (unfold single; rewrite Hsl; reflexivity).
  eapply okp_bind; [apply w_mkdirat_ok; assumption|]. intros r _.
  destruct (match r with Ok _ => None | Err e => if N.eqb e EEXIST then None else Some e end);
    [apply close_ret_ok; [exact Hc|exact I]|].
  unfold os. eapply okp_bind; [apply okp_map_err, w_openat_ok; assumption|]. intros r2 Hn.
  destruct r2 as [next|e]; [|apply close_ret_ok; [exact Hc|exact I]].
  eapply okp_bind; [apply close_ok; exact Hc|]. intros _ _. apply IH; exact Hn.
Qed.

Theorem root_mkdir_all_ok rs root path mode :
  rfd root -> okf Qfd (root_mkdir_all fz cfg pfuel gh sysctl_ps rs root path mode).
Proof.
  intro Hr. unfold root_mkdir_all.
  destruct (negb _); [constructor; exact I|].
  destruct (negb _); [constructor; exact I|].
  eapply okp_bindR; [weak; apply r_resolve_partial_ok; exact Hr| |intro; exact I]. intros l Hl.
  eapply okp_bind.
  { instantiate (1 := okR (fun hr : Z * option bytes => rfd (fst hr))).
    destruct l as [fd|fd rem e]; cbn in Hl; [constructor; exact Hl|].
    destruct (match e with OsError n => N.eqb n ENOENT | _ => false end); [constructor; exact Hl|].
    weak. apply close_ret_ok; [exact Hl|exact I]. }
  intros r Hh. destruct r as [[handle remaining]|e]; [|constructor; exact I]. cbn in Hh.
  eapply okp_bind; [apply h_reopen_ok; exact Hh|]. intros r Hc.
  destruct r as [cur0|e].
  - cbn in Hc. weak. eapply okp_bind; [apply close_ok; exact Hh|]. intros _ _.
    destruct (existsb is_dotdot _); [apply close_ret_ok; [exact Hc|exact I]|].
    apply mk_parts_ok; exact Hc.
  - weak. eapply okp_bind; [apply frozen_ok|]. intros _ _. apply close_ret_ok; [exact Hh|exact I].
Qed.

End RootDisc.
