(* StaticProcfsEmu.v -- C01: as_unsafe_path through the EMULATED procfs resolver
   (openat2 absent: the configuration in which the emulated in-root resolver is
   used in practice) on the static kernel's procfs tree.  The resolver walks
   /proc/thread-self/fd/N component by component: thread-self is a symlink whose
   body it splices in, every step's mount id is verified, the final component is
   re-opened with the caller's flags. *)
From PV Require Import Static PathProofs StaticProofs CheckProofs ProcfsProps StaticProcfs.
From PV Require FSModel FSProofs.
Open Scope N_scope.

Arguments N.lor : simpl never.
Arguments N.land : simpl never.
Arguments N.eqb : simpl never.
Arguments N.leb : simpl never.

(* ---- a stack of descriptors allocated on top of a table ------------------------------ *)

Inductive Stk (t : fdt) : list (Z * nat) -> Prop :=
| stk_nil : Stk t []
| stk_one k v : (fresh t <= k)%Z -> Stk t [(k, v)]
| stk_cons k v k' v' l : (k' < k)%Z -> Stk t ((k', v') :: l) -> Stk t ((k, v) :: (k', v') :: l).

Lemma stk_ge t l : Stk t l -> Forall (fun e => (fresh t <= fst e)%Z) l.
Proof.
  induction 1 as [|k v H|k v k' v' l Hlt Hs IH]; [constructor|constructor; [exact H|constructor]|].
  constructor; [|exact IH]. pose proof (Forall_inv IH) as H0. cbn [fst] in H0 |- *. lia.
Qed.

Lemma fresh_app_ge t l : (fresh t <= fresh (l ++ t))%Z.
Proof.
  induction l as [|[k v] l IH]; cbn [app]; [lia|].
  change (fresh ((k, v) :: l ++ t)) with (Z.max (k + 1) (fresh (l ++ t))). lia.
Qed.

Lemma fresh_app_gt t l k v : In (k, v) l -> (k < fresh (l ++ t))%Z.
Proof. intro H. apply (fresh_gt (l ++ t) k v). apply in_or_app. left. exact H. Qed.

Lemma stk_alloc t l v : Stk t l -> Stk t ((fresh (l ++ t), v) :: l).
Proof.
  intro H. destruct l as [|[k' v'] l].
  - constructor. cbn [app]. lia.
  - constructor; [|exact H]. apply (fresh_app_gt t ((k', v') :: l) k' v'). left. reflexivity.
Qed.

Lemma tfind_app_none l t k : (forall e, In e l -> fst e <> k) -> tfind (l ++ t) k = tfind t k.
Proof.
  induction l as [|[k' v'] l IH]; intro H; [reflexivity|]. cbn [app tfind].
  destruct (Z.eqb_spec k' k) as [E|_]; [exfalso; apply (H (k', v')); [left; reflexivity|exact E]|].
  apply IH. intros e He. apply H. right. exact He.
Qed.

Lemma stk_old t l k v : Stk t l -> tget t k = Some v -> tget (l ++ t) k = Some v.
Proof.
  intros Hs Hk. unfold tget in *. destruct (Z.ltb k 0); [discriminate|].
  rewrite tfind_app_none; [exact Hk|].
  intros e He Ee. pose proof (stk_ge t l Hs) as Hge. rewrite Forall_forall in Hge. specialize (Hge e He).
  apply tfind_in, fresh_gt in Hk. lia.
Qed.

Lemma stk_pos t l k v : Stk t l -> In (k, v) l -> (0 <= k)%Z.
Proof.
  intros Hs Hin. pose proof (stk_ge t l Hs) as Hge. rewrite Forall_forall in Hge. specialize (Hge (k, v) Hin).
  pose proof (fresh_ge3 t). cbn [fst] in Hge. lia.
Qed.

Lemma stk_top t k v l : Stk t ((k, v) :: l) -> tget (((k, v) :: l) ++ t) k = Some v.
Proof.
  intro Hs. unfold tget. pose proof (stk_pos t _ k v Hs (or_introl eq_refl)).
  destruct (Z.ltb_spec k 0); [lia|]. cbn [app tfind]. rewrite Z.eqb_refl. reflexivity.
Qed.

Lemma stk_second t e k v l : Stk t (e :: (k, v) :: l) -> tget ((e :: (k, v) :: l) ++ t) k = Some v.
Proof.
  intro Hs. destruct e as [k2 v2]. inversion Hs as [| |a b c d l' Hlt Hs' E]; subst.
  unfold tget. pose proof (stk_pos t _ k v Hs' (or_introl eq_refl)).
  destruct (Z.ltb_spec k 0); [lia|]. cbn [app tfind].
  destruct (Z.eqb_spec k2 k); [lia|]. rewrite Z.eqb_refl. reflexivity.
Qed.

Lemma stk_keys_lt t k v l : Stk t ((k, v) :: l) -> forall e, In e l -> (fst e < k)%Z.
Proof.
  revert k v. induction l as [|[k' v'] l IH]; intros k v Hs e He; [destruct He|].
  inversion Hs as [| |a b c d l' Hlt Hs' E]; subst. destruct He as [<-|He]; [exact Hlt|].
  specialize (IH k' v' Hs' e He). lia.
Qed.

Lemma stk_tail t e l : Stk t (e :: l) -> Stk t l.
Proof. intro H. inversion H; subst; [constructor|assumption]. Qed.

Lemma tfind_stk_none t k v l : Stk t ((k, v) :: l) -> tfind (l ++ t) k = None.
Proof.
  intro Hs. rewrite tfind_app_none.
  - destruct (tfind t k) as [x|] eqn:E; [|reflexivity]. apply tfind_in, fresh_gt in E.
    pose proof (stk_ge t _ Hs) as Hge. inversion Hge; subst. cbn [fst] in *. lia.
  - intros e He Ee. pose proof (stk_keys_lt t k v l Hs e He). lia.
Qed.

Lemma stk_close_top t k v l : Stk t ((k, v) :: l) -> tdel (((k, v) :: l) ++ t) k = l ++ t.
Proof. intro Hs. cbn [app]. apply tdel_cons_same. exact (tfind_stk_none t k v l Hs). Qed.

Lemma stk_drop_second t k2 v2 k v l : Stk t ((k2, v2) :: (k, v) :: l) -> Stk t ((k2, v2) :: l).
Proof.
  intro Hs. inversion Hs as [| |a b c d l' Hlt Hs' E]; subst.
  destruct l as [|[k0 v0] l].
  - constructor. pose proof (stk_ge t _ Hs') as Hge. inversion Hge; subst. cbn [fst] in *. lia.
  - inversion Hs' as [| |a b c d l' Hlt' Hs'' E]; subst. constructor; [lia|exact Hs''].
Qed.

Lemma stk_close_second t k2 v2 k v l : Stk t ((k2, v2) :: (k, v) :: l) ->
  tdel (((k2, v2) :: (k, v) :: l) ++ t) k = ((k2, v2) :: l) ++ t.
Proof.
  intro Hs. inversion Hs as [| |a b c d l' Hlt Hs' E]; subst. cbn [app tdel filter fst].
  destruct (Z.eqb_spec k2 k); [lia|]. cbn [negb]. f_equal.
  change (filter (fun e => negb (Z.eqb (fst e) k)) ((k, v) :: l ++ t)) with (tdel ((k, v) :: l ++ t) k).
  apply tdel_cons_same. exact (tfind_stk_none t k v l Hs').
Qed.

(* ---- single calls on procfs objects ---------------------------------------------------- *)

Section PE.
Variable s : fs.
Variable rp : bytes.
Variable fz : nat.
Hypothesis Hfz : fz <> 0%nat.

Notation run := (run s rp).
Notation MNT := (Some PROC_MNT).

Lemma run_verify_mnt T fd o : tget T fd = Some o -> (PB s <= o)%nat ->
  run T (verify_same_mnt fz MNT fd []) = Done T (Ok tt).
Proof.
  intros Hfd Hle. unfold verify_same_mnt, bindR.
  rewrite (run_bind s rp), (run_fetch_mnt s rp fz T fd o Hfd).
  destruct (Nat.leb_spec (PB s) o) as [_|Hlt]; [|lia].
  cbn [opt_n_eqb]. rewrite (N.eqb_refl PROC_MNT). reflexivity.
Qed.

Lemma run_fstatat_p T fd o : tget T fd = Some o -> (PB s <= o)%nat ->
  run T (os (w_fstatat fz fd [])) =
  Done T (Ok {| st_mode := if obj_is_dir s o then S_IFDIR else S_IFLNK; st_uid := 0; st_ino := N.of_nat o; st_dev := 0 |}).
Proof.
  intros Hfd Hle. unfold os, map_err, w_fstatat, simple1, rustix_path.
  rewrite (tget_valid _ _ _ Hfd). cbn [negb has_nul has_byte existsb bind Static.run].
  unfold answer. cbn [sem]. rewrite (tget_not_cwd _ _ _ Hfd), Hfd.
  destruct (Nat.leb_spec (PB s) o) as [_|Hlt]; [|lia]. reflexivity.
Qed.

Lemma run_dup T fd o : tget T fd = Some o ->
  run T (os (dup_cloexec fd)) = Done ((fresh T, o) :: T) (Ok (fresh T)).
Proof.
  intro Hfd. unfold os, map_err, dup_cloexec. cbn [bind Static.run]. unfold answer. cbn [sem]. rewrite Hfd.
  cbn [as_fd]. pose proof (fresh_ge3 T). destruct (Z.leb_spec 0 (fresh T)); [reflexivity|lia].
Qed.

(* openat(cur -> procfs object PB+k, name, flags): the full flag word [fl] (after the
   wrapper's forced bits) is kept abstract; what matters of it is given as hypotheses *)
Lemma run_popenat T cur k part flags obj :
  tget T cur = Some (PB s + k)%nat -> has_nul part = false -> has_slash part = false ->
  opath_nofollow (N.lor (N.lor (N.lor flags OPENAT_NOFOLLOW_FORCED) OPENAT_FORCED) O_LARGEFILE) = true ->
  psem_open s T k part = inl obj ->
  (has (N.lor (N.lor (N.lor flags OPENAT_NOFOLLOW_FORCED) OPENAT_FORCED) O_LARGEFILE) O_DIRECTORY && negb (obj_is_dir s obj)) = false ->
  run T (w_openat fz cur part flags 0) = Done ((fresh T, obj) :: T) (Ok (fresh T)).
Proof.
  intros Hc Hnul Hsl Hfl Hps Hdir. unfold w_openat, w_openat_follow, rustix_path.
  rewrite (tget_valid _ _ _ Hc), Hnul. cbn [negb Static.run].
  unfold answer. cbn [sem]. rewrite Hc.
  assert (Hnf : has (N.lor (N.lor (N.lor flags OPENAT_NOFOLLOW_FORCED) OPENAT_FORCED) O_LARGEFILE) O_NOFOLLOW = true)
    by (unfold opath_nofollow in Hfl; apply andb_true_iff in Hfl; apply Hfl).
  rewrite Hnf, andb_false_r, Hfl, Hsl, Hnul. cbn [negb orb].
  destruct (Nat.leb_spec (PB s) (PB s + k)) as [_|Hlt]; [|lia].
  replace (PB s + k - PB s)%nat with k by lia. rewrite Hps, Hdir.
  cbn [as_fd]. pose proof (fresh_ge3 T). destruct (Z.leb_spec 0 (fresh T)); [reflexivity|lia].
Qed.

Lemma run_popenat_notdir T cur k part flags obj :
  tget T cur = Some (PB s + k)%nat -> has_nul part = false -> has_slash part = false ->
  opath_nofollow (N.lor (N.lor (N.lor flags OPENAT_NOFOLLOW_FORCED) OPENAT_FORCED) O_LARGEFILE) = true ->
  psem_open s T k part = inl obj ->
  (has (N.lor (N.lor (N.lor flags OPENAT_NOFOLLOW_FORCED) OPENAT_FORCED) O_LARGEFILE) O_DIRECTORY && negb (obj_is_dir s obj)) = true ->
  run T (w_openat fz cur part flags 0) = Done T (Err ENOTDIR).
Proof.
  intros Hc Hnul Hsl Hfl Hps Hdir. unfold w_openat, w_openat_follow, rustix_path.
  rewrite (tget_valid _ _ _ Hc), Hnul. cbn [negb Static.run].
  unfold answer. cbn [sem]. rewrite Hc.
  assert (Hnf : has (N.lor (N.lor (N.lor flags OPENAT_NOFOLLOW_FORCED) OPENAT_FORCED) O_LARGEFILE) O_NOFOLLOW = true)
    by (unfold opath_nofollow in Hfl; apply andb_true_iff in Hfl; apply Hfl).
  rewrite Hnf, andb_false_r, Hfl, Hsl, Hnul. cbn [negb orb].
  destruct (Nat.leb_spec (PB s) (PB s + k)) as [_|Hlt]; [|lia].
  replace (PB s + k - PB s)%nat with k by lia. rewrite Hps, Hdir.
  cbn [as_fd]. apply (run_fail1 s rp fz Hfz).
Qed.

End PE.

(* ---- the shape of decimal names ------------------------------------------------------- *)
From PV Require Import DisciplineProofs.

Lemma dec_fuel_nonnil f : forall m acc, acc <> [] -> dec_fuel f m acc <> [].
Proof.
  induction f as [|f IH]; intros m acc Ha; cbn [dec_fuel]; [exact Ha|].
  destruct (N.eqb (m / 10) 0); [discriminate|]. apply IH. discriminate.
Qed.

Lemma dec_shape n : exists d D, dec n = d :: D /\ 48 <= d < 58.
Proof.
  destruct (dec_digits n) as (D & HD & _ & Hr). rewrite HD.
  destruct D as [|d D].
  - exfalso. unfold dec in HD. cbn [dec_fuel] in HD.
    destruct (N.eqb (n / 10) 0); [discriminate|].
    apply (dec_fuel_nonnil (N.to_nat (N.log2 n)) (n / 10) [48 + n mod 10]); [discriminate|exact HD].
  - exists d, D. split; [reflexivity|]. inversion Hr; assumption.
Qed.

Lemma dec_not_nil n : is_nil (dec n) = false.
Proof. destruct (dec_shape n) as (d & D & -> & _). reflexivity. Qed.

Lemma dec_not_dotdot n : is_dotdot (dec n) = false.
Proof.
  destruct (dec_shape n) as (d & D & -> & Hd). unfold is_dotdot. cbn [beq].
  destruct (N.eqb_spec d DOT) as [E|_]; [unfold DOT in E; lia|reflexivity].
Qed.

Lemma parse_dec_dec n : parse_dec (dec n) = Some (Z.of_N n).
Proof. unfold parse_dec. rewrite num_dec, beq_refl. reflexivity. Qed.

Lemma raw_components_fd d : has_slash d = false -> raw_components (b "fd/" ++ d) = [b "fd"; d].
Proof.
  intro H. change (b "fd/" ++ d) with (b "fd" ++ SLASH :: d).
  rewrite raw_components_slash, (raw_components_noslash_single d H). reflexivity.
Qed.


(* ---- steps of the emulated procfs walk ------------------------------------------------- *)

Section PW.
Variable s : fs.
Variable rp : bytes.
Variable fz : nat.
Hypothesis Hfz : fz <> 0%nat.

Notation run := (run s rp).
Notation MNT := (Some PROC_MNT).

Lemma run_os_ok {A} T T' (p : prog (result A N)) a : run T p = Done T' (Ok a) -> run T (os p) = Done T' (Ok a).
Proof. intro H. unfold os, map_err. rewrite (run_bind s rp), H. reflexivity. Qed.
Lemma run_os_err {A} T T' (p : prog (result A N)) e : run T p = Done T' (Err e) -> run T (@os A p) = Done T' (Err (OsError e)).
Proof. intro H. unfold os, map_err. rewrite (run_bind s rp), H. reflexivity. Qed.

Lemma walk_flags_p : opath_nofollow (N.lor (N.lor (N.lor PROCFS_WALK_FLAGS OPENAT_NOFOLLOW_FORCED) OPENAT_FORCED) O_LARGEFILE) = true.
Proof. vm_compute. reflexivity. Qed.
Lemma walk_flags_p_nodir : has (N.lor (N.lor (N.lor PROCFS_WALK_FLAGS OPENAT_NOFOLLOW_FORCED) OPENAT_FORCED) O_LARGEFILE) O_DIRECTORY = false.
Proof. vm_compute. reflexivity. Qed.

(* a directory that is not the last component: step into it, drop the previous one *)
Lemma body_dir_step oflags rflags follow T cur k part rest c :
  tget T cur = Some (PB s + k)%nat -> has_nul part = false -> has_slash part = false ->
  is_nil part = false -> is_dotdot part = false ->
  psem_open s T k part = inl (PB s + c)%nat -> obj_is_dir s (PB s + c) = true ->
  is_nil rest = false ->
  run T (pwalk_body fz MNT oflags rflags follow cur (part :: rest)) =
  run (tdel ((fresh T, (PB s + c)%nat) :: T) cur) (pwalk_body fz MNT oflags rflags follow (fresh T) rest).
Proof.
  intros Hc Hnul Hsl Hnil Hdd Hps Hdir Hrest.
  cbn [pwalk_body]. rewrite Hnil, Hdd.
  rewrite (run_bind s rp).
  rewrite (run_os_ok T _ _ _ (run_popenat s rp fz Hfz T cur k part PROCFS_WALK_FLAGS (PB s + c) Hc Hnul Hsl walk_flags_p Hps
             ltac:(rewrite walk_flags_p_nodir; reflexivity))).
  set (nx := fresh T). set (T1 := (nx, (PB s + c)%nat) :: T).
  assert (Hn : tget T1 nx = Some (PB s + c)%nat) by apply tget_new.
  rewrite (run_bind s rp), (run_verify_mnt s rp fz Hfz T1 nx _ Hn) by lia.
  rewrite (run_bind s rp), (run_fstatat_p s rp fz Hfz T1 nx _ Hn) by lia.
  cbn [st_mode]. rewrite Hdir. change (is_symlink_mode S_IFDIR) with false.
  rewrite Hrest. cbn [andb negb]. rewrite (run_bind s rp), run_close. reflexivity.
Qed.

(* the last component, re-opened with the caller's flags (every flag set but plain O_PATH) *)
Lemma body_final_step oflags rflags follow T cur k part obj :
  tget T cur = Some (PB s + k)%nat -> has_nul part = false -> has_slash part = false ->
  is_nil part = false -> is_dotdot part = false ->
  (forall v, psem_open s ((fresh T, v) :: T) k part = inl obj) -> psem_open s T k part = inl obj -> (PB s <= obj)%nat ->
  N.eqb (N.land oflags PROCFS_CASE1_MASK) PROCFS_CASE1_VALUE = false ->
  opath_nofollow (N.lor (N.lor (N.lor (N.lor oflags PROCFS_FINAL_EXTRA) OPENAT_NOFOLLOW_FORCED) OPENAT_FORCED) O_LARGEFILE) = true ->
  (has (N.lor (N.lor (N.lor (N.lor oflags PROCFS_FINAL_EXTRA) OPENAT_NOFOLLOW_FORCED) OPENAT_FORCED) O_LARGEFILE) O_DIRECTORY
   && negb (obj_is_dir s obj)) = false ->
  run T (pwalk_body fz MNT oflags rflags follow cur [part]) =
  Done (tdel (tdel ((fresh ((fresh T, obj) :: T), obj) :: (fresh T, obj) :: T) (fresh T)) cur)
       (Ok (fresh ((fresh T, obj) :: T))).
Proof.
  intros Hc Hnul Hsl Hnil Hdd Hps1 Hps Hle Hcase Hfl Hdir.
  cbn [pwalk_body]. rewrite Hnil, Hdd.
  rewrite (run_bind s rp).
  rewrite (run_os_ok T _ _ _ (run_popenat s rp fz Hfz T cur k part PROCFS_WALK_FLAGS obj Hc Hnul Hsl walk_flags_p Hps
             ltac:(rewrite walk_flags_p_nodir; reflexivity))).
  set (nx := fresh T). set (T1 := (nx, obj) :: T).
  assert (Hn : tget T1 nx = Some obj) by apply tget_new.
  assert (Hc1 : tget T1 cur = Some (PB s + k)%nat) by (apply tget_new_old; exact Hc).
  rewrite (run_bind s rp), (run_verify_mnt s rp fz Hfz T1 nx _ Hn Hle).
  rewrite (run_bind s rp), (run_fstatat_p s rp fz Hfz T1 nx _ Hn Hle).
  cbn [st_mode is_nil andb]. rewrite Hcase. cbn [negb].
  rewrite (run_bind s rp).
  rewrite (run_popenat s rp fz Hfz T1 cur k part (N.lor oflags PROCFS_FINAL_EXTRA) obj Hc1 Hnul Hsl Hfl (Hps1 obj) Hdir).
  set (f2 := fresh T1). set (T2 := (f2, obj) :: T1).
  assert (Hf2 : tget T2 f2 = Some obj) by apply tget_new.
  rewrite (run_bind s rp), (run_verify_mnt s rp fz Hfz T2 f2 _ Hf2 Hle).
  rewrite (run_bind s rp), run_close. rewrite (run_bind s rp), run_close. reflexivity.
Qed.

(* /proc/thread-self asked for as a directory: O_DIRECTORY|O_NOFOLLOW on the symlink is
   ENOTDIR, so its body is spliced in and the walk goes on from the same directory *)
Lemma body_thread_self T cur go :
  tget T cur = Some (PB s) ->
  run T (pwalk_body fz MNT OPEN_BASE_FLAGS 0 (Some go) cur [b "thread-self"]) =
  run T (go cur [b "1"; b "task"; b "1"]).
Proof.
  intro Hc. assert (Hc' : tget T cur = Some (PB s + 0)%nat) by (rewrite Nat.add_0_r; exact Hc).
  assert (Hps : forall T', psem_open s T' 0 (b "thread-self") = inl (PB s + 1)%nat) by (intro; reflexivity).
  assert (Hnd : obj_is_dir s (PB s + 1) = false).
  { unfold obj_is_dir. destruct (Nat.leb_spec (PB s) (PB s + 1)); [|lia]. replace (PB s + 1 - PB s)%nat with 1%nat by lia. reflexivity. }
  cbn [pwalk_body]. change (is_nil (b "thread-self")) with false. cbv iota. change (is_dotdot (b "thread-self")) with false. cbv iota.
  rewrite (run_bind s rp).
  rewrite (run_os_ok T _ _ _ (run_popenat s rp fz Hfz T cur 0 (b "thread-self") PROCFS_WALK_FLAGS _ Hc' eq_refl eq_refl walk_flags_p (Hps T)
             ltac:(rewrite walk_flags_p_nodir; reflexivity))).
  set (nx := fresh T). set (T1 := (nx, (PB s + 1)%nat) :: T).
  assert (Hn : tget T1 nx = Some (PB s + 1)%nat) by apply tget_new.
  assert (Hc1 : tget T1 cur = Some (PB s + 0)%nat) by (apply tget_new_old; exact Hc').
  rewrite (run_bind s rp), (run_verify_mnt s rp fz Hfz T1 nx _ Hn) by lia.
  rewrite (run_bind s rp), (run_fstatat_p s rp fz Hfz T1 nx _ Hn) by lia.
  cbn [st_mode is_nil andb]. rewrite Hnd. change (is_symlink_mode S_IFLNK) with true.
  change (N.eqb (N.land OPEN_BASE_FLAGS PROCFS_CASE1_MASK) PROCFS_CASE1_VALUE) with false. cbn [negb].
  rewrite (run_bind s rp).
  rewrite (run_popenat_notdir s rp fz Hfz T1 cur 0 (b "thread-self") (N.lor OPEN_BASE_FLAGS PROCFS_FINAL_EXTRA) _ Hc1 eq_refl eq_refl
             ltac:(vm_compute; reflexivity) (Hps T1) ltac:(rewrite Hnd; vm_compute; reflexivity)).
  change (has OPEN_BASE_FLAGS O_NOFOLLOW) with false. change (has OPEN_BASE_FLAGS O_DIRECTORY) with true.
  rewrite (N.eqb_refl ENOTDIR). cbn [negb orb].
  change (has 0 RESOLVE_NO_SYMLINKS) with false. cbv iota.
  (* readlink of the thread-self symlink *)
  rewrite (run_bind s rp). unfold os at 1, map_err, w_readlinkat, rustix_path.
  rewrite (tget_valid _ _ _ Hn). cbn [negb has_nul has_byte existsb bind Static.run].
  unfold answer. cbn [sem]. rewrite Hn. cbn [is_nil negb].
  assert (Hnb : FSModel.link_body s (PB s + 1) = None).
  { unfold FSModel.link_body, FSModel.kind_of. rewrite nth_overflow by (unfold PB; lia). reflexivity. }
  rewrite Hnb.
  destruct (Nat.leb_spec (PB s + NP) (PB s + 1)) as [Hbad|_]; [unfold NP in Hbad; lia|].
  destruct (Nat.leb_spec (PB s) (PB s + 1)) as [_|Hbad]; [|lia].
  replace (PB s + 1 - PB s)%nat with 1%nat by lia.
  change (FSModel.link_body PFS 1) with (Some (b "1/task/1")).
  cbn [as_bytes]. change (N.leb READLINK_BUF (N.of_nat (length (b "1/task/1")))) with false.
  cbn [bind Static.run]. change (is_abs (b "1/task/1")) with false. cbv iota.
  rewrite (run_bind s rp), run_close. unfold T1, nx. rewrite tdel_new.
  change (raw_components (b "1/task/1") ++ []) with [b "1"; b "task"; b "1"]. reflexivity.
Qed.

Lemma obj_is_dir_p c : (c < NP)%nat -> obj_is_dir s (PB s + c) = FSModel.is_dir PFS c.
Proof.
  intro H. unfold obj_is_dir. destruct (Nat.leb_spec (PB s) (PB s + c)) as [_|Hb]; [|lia].
  replace (PB s + c - PB s)%nat with c by lia. destruct (Nat.ltb_spec c NP); [reflexivity|lia].
Qed.

Lemma pwalk_SS bd rm ofl rfl : pwalk fz (S (S bd)) rm ofl rfl = pwalk_body fz rm ofl rfl (Some (pwalk fz (S bd) rm ofl rfl)).
Proof. reflexivity. Qed.

(* open_base(ProcThreadSelf) through the emulated resolver: /proc/thread-self -> the thread's directory *)
Lemma run_walk_thread_self t P :
  tget t P = Some (PB s) ->
  exists n, run t (opath_resolve fz P (b "thread-self") OPEN_BASE_FLAGS 0) = Done ([(n, (PB s + 4)%nat)] ++ t) (Ok n)
            /\ Stk t [(n, (PB s + 4)%nat)].
Proof.
  intro HP. unfold opath_resolve, bindR.
  rewrite (run_bind s rp), (run_fetch_mnt s rp fz t P _ HP).
  destruct (Nat.leb_spec (PB s) (PB s)) as [_|Hb]; [|lia]. cbv iota.
  rewrite (run_bind s rp), (run_dup s rp fz Hfz t P _ HP). cbv iota.
  set (c0 := fresh t).
  assert (S0 : Stk t [(c0, PB s)]) by (apply (stk_alloc t [] (PB s)); constructor).
  change ((c0, PB s) :: t) with ([(c0, PB s)] ++ t).
  change (N.to_nat MAX_SYMLINK_TRAVERSALS) with (S (S 126)). rewrite pwalk_SS.
  change (raw_components (b "thread-self")) with [b "thread-self"].
  rewrite (body_thread_self _ c0 _ (stk_top t c0 _ [] S0)).
  change (S 126) with (S (S 125)). rewrite pwalk_SS.
  (* "1" *)
  assert (H0 : tget ([(c0, PB s)] ++ t) c0 = Some (PB s + 0)%nat) by (rewrite Nat.add_0_r; apply (stk_top t c0 _ [] S0)).
  rewrite (body_dir_step _ _ _ _ c0 0 (b "1") [b "task"; b "1"] 2 H0 eq_refl eq_refl eq_refl eq_refl eq_refl
             ltac:(rewrite obj_is_dir_p by (unfold NP; lia); reflexivity) eq_refl).
  set (n2 := fresh ([(c0, PB s)] ++ t)).
  assert (S2' : Stk t [(n2, (PB s + 2)%nat); (c0, PB s)]) by (apply (stk_alloc t [(c0, PB s)]); exact S0).
  change ((n2, (PB s + 2)%nat) :: [(c0, PB s)] ++ t) with ([(n2, (PB s + 2)%nat); (c0, PB s)] ++ t).
  rewrite (stk_close_second t n2 _ c0 _ [] S2').
  assert (S2 : Stk t [(n2, (PB s + 2)%nat)]) by exact (stk_drop_second t n2 _ c0 _ [] S2').
  (* "task" *)
  rewrite (body_dir_step _ _ _ _ n2 2 (b "task") [b "1"] 3 (stk_top t n2 _ [] S2) eq_refl eq_refl eq_refl eq_refl eq_refl
             ltac:(rewrite obj_is_dir_p by (unfold NP; lia); reflexivity) eq_refl).
  set (n3 := fresh ([(n2, (PB s + 2)%nat)] ++ t)).
  assert (S3' : Stk t [(n3, (PB s + 3)%nat); (n2, (PB s + 2)%nat)]) by (apply (stk_alloc t [(n2, (PB s + 2)%nat)]); exact S2).
  change ((n3, (PB s + 3)%nat) :: [(n2, (PB s + 2)%nat)] ++ t) with ([(n3, (PB s + 3)%nat); (n2, (PB s + 2)%nat)] ++ t).
  rewrite (stk_close_second t n3 _ n2 _ [] S3').
  assert (S3 : Stk t [(n3, (PB s + 3)%nat)]) by exact (stk_drop_second t n3 _ n2 _ [] S3').
  (* "1": the thread's directory, re-opened with O_PATH|O_DIRECTORY *)
  rewrite (body_final_step OPEN_BASE_FLAGS 0 _ _ n3 3 (b "1") (PB s + 4)%nat (stk_top t n3 _ [] S3) eq_refl eq_refl eq_refl eq_refl
             ltac:(intro; reflexivity) eq_refl ltac:(lia) eq_refl ltac:(vm_compute; reflexivity)
             ltac:(rewrite obj_is_dir_p by (unfold NP; lia); vm_compute; reflexivity)).
  set (n4 := fresh ([(n3, (PB s + 3)%nat)] ++ t)).
  assert (S4 : Stk t [(n4, (PB s + 4)%nat); (n3, (PB s + 3)%nat)]) by (apply (stk_alloc t [(n3, (PB s + 3)%nat)]); exact S3).
  change ((n4, (PB s + 4)%nat) :: [(n3, (PB s + 3)%nat)] ++ t) with ([(n4, (PB s + 4)%nat); (n3, (PB s + 3)%nat)] ++ t).
  set (n5 := fresh ([(n4, (PB s + 4)%nat); (n3, (PB s + 3)%nat)] ++ t)).
  assert (S5 : Stk t [(n5, (PB s + 4)%nat); (n4, (PB s + 4)%nat); (n3, (PB s + 3)%nat)]) by (apply (stk_alloc t _ _ S4)).
  change ((n5, (PB s + 4)%nat) :: [(n4, (PB s + 4)%nat); (n3, (PB s + 3)%nat)] ++ t)
    with ([(n5, (PB s + 4)%nat); (n4, (PB s + 4)%nat); (n3, (PB s + 3)%nat)] ++ t).
  rewrite (stk_close_second t n5 _ n4 _ _ S5).
  pose proof (stk_drop_second t n5 _ n4 _ _ S5) as S5'.
  rewrite (stk_close_second t n5 _ n3 _ [] S5').
  exists n5. split; [reflexivity|exact (stk_drop_second t n5 _ n3 _ [] S5')].
Qed.

Notation RLFL := (N.lor PROCFS_READLINK_FLAGS PROCFS_OPEN_FORCED).

(* fd/<N> below the thread's directory: the magic-link itself (O_PATH|O_NOFOLLOW) *)
Lemma run_walk_fd t n5 fd o :
  Stk t [(n5, (PB s + 4)%nat)] -> tget t fd = Some o ->
  exists m, run ([(n5, (PB s + 4)%nat)] ++ t) (opath_resolve fz n5 (b "fd/" ++ dec (Z.to_N fd)) RLFL 0)
            = Done ([(m, P_LINK s o); (n5, (PB s + 4)%nat)] ++ t) (Ok m)
            /\ Stk t [(m, P_LINK s o); (n5, (PB s + 4)%nat)].
Proof.
  intros S5 Hfd. pose proof (tget_pos _ _ _ Hfd) as Hpos.
  set (nm := dec (Z.to_N fd)).
  unfold opath_resolve, bindR.
  pose proof (stk_top t n5 _ [] S5) as H5.
  rewrite (run_bind s rp), (run_fetch_mnt s rp fz _ n5 _ H5).
  destruct (Nat.leb_spec (PB s) (PB s + 4)) as [_|Hb]; [|lia]. cbv iota.
  rewrite (run_bind s rp), (run_dup s rp fz Hfz _ n5 _ H5). cbv iota.
  set (d0 := fresh ([(n5, (PB s + 4)%nat)] ++ t)).
  assert (Sd : Stk t [(d0, (PB s + 4)%nat); (n5, (PB s + 4)%nat)]) by (apply (stk_alloc t _ _ S5)).
  change ((d0, (PB s + 4)%nat) :: [(n5, (PB s + 4)%nat)] ++ t) with ([(d0, (PB s + 4)%nat); (n5, (PB s + 4)%nat)] ++ t).
  change (N.to_nat MAX_SYMLINK_TRAVERSALS) with (S (S 126)). rewrite pwalk_SS.
  unfold nm. rewrite (raw_components_fd _ (dec_no_slash (Z.to_N fd))). fold nm.
  (* "fd" *)
  rewrite (body_dir_step _ _ _ _ d0 4 (b "fd") [nm] 5 (stk_top t d0 _ _ Sd) eq_refl eq_refl eq_refl eq_refl eq_refl
             ltac:(rewrite obj_is_dir_p by (unfold NP; lia); reflexivity) eq_refl).
  set (m1 := fresh ([(d0, (PB s + 4)%nat); (n5, (PB s + 4)%nat)] ++ t)).
  assert (S1' : Stk t [(m1, (PB s + 5)%nat); (d0, (PB s + 4)%nat); (n5, (PB s + 4)%nat)]) by (apply (stk_alloc t _ _ Sd)).
  change ((m1, (PB s + 5)%nat) :: [(d0, (PB s + 4)%nat); (n5, (PB s + 4)%nat)] ++ t)
    with ([(m1, (PB s + 5)%nat); (d0, (PB s + 4)%nat); (n5, (PB s + 4)%nat)] ++ t).
  rewrite (stk_close_second t m1 _ d0 _ _ S1').
  pose proof (stk_drop_second t m1 _ d0 _ _ S1') as S1.
  (* "<N>": a magic-link, re-opened with O_PATH|O_NOFOLLOW *)
  assert (Hps : forall T, tget T fd = Some o -> psem_open s T 5 nm = inl (P_LINK s o)).
  { intros T HT. unfold psem_open. cbn [Nat.eqb]. unfold nm. rewrite parse_dec_dec, Z2N.id by exact Hpos. rewrite HT. reflexivity. }
  assert (HfdT : tget ([(m1, (PB s + 5)%nat); (n5, (PB s + 4)%nat)] ++ t) fd = Some o) by (apply (stk_old t _ fd o S1 Hfd)).
  rewrite (body_final_step RLFL 0 _ _ m1 5 nm (P_LINK s o) (stk_top t m1 _ _ S1) (dec_no_nul _) (dec_no_slash _) (dec_not_nil _) (dec_not_dotdot _)
             ltac:(intro v; apply Hps, tget_new_old, HfdT) (Hps _ HfdT) ltac:(unfold P_LINK; lia) eq_refl ltac:(vm_compute; reflexivity)
             ltac:(vm_compute; reflexivity)).
  set (m2 := fresh ([(m1, (PB s + 5)%nat); (n5, (PB s + 4)%nat)] ++ t)).
  assert (S2 : Stk t [(m2, P_LINK s o); (m1, (PB s + 5)%nat); (n5, (PB s + 4)%nat)]) by (apply (stk_alloc t _ _ S1)).
  change ((m2, P_LINK s o) :: [(m1, (PB s + 5)%nat); (n5, (PB s + 4)%nat)] ++ t)
    with ([(m2, P_LINK s o); (m1, (PB s + 5)%nat); (n5, (PB s + 4)%nat)] ++ t).
  set (m3 := fresh ([(m2, P_LINK s o); (m1, (PB s + 5)%nat); (n5, (PB s + 4)%nat)] ++ t)).
  assert (S3 : Stk t [(m3, P_LINK s o); (m2, P_LINK s o); (m1, (PB s + 5)%nat); (n5, (PB s + 4)%nat)]) by (apply (stk_alloc t _ _ S2)).
  change ((m3, P_LINK s o) :: [(m2, P_LINK s o); (m1, (PB s + 5)%nat); (n5, (PB s + 4)%nat)] ++ t)
    with ([(m3, P_LINK s o); (m2, P_LINK s o); (m1, (PB s + 5)%nat); (n5, (PB s + 4)%nat)] ++ t).
  rewrite (stk_close_second t m3 _ m2 _ _ S3).
  pose proof (stk_drop_second t m3 _ m2 _ _ S3) as S3'.
  rewrite (stk_close_second t m3 _ m1 _ _ S3').
  exists m3. split; [reflexivity|exact (stk_drop_second t m3 _ m1 _ _ S3')].
Qed.
(* ---- as_unsafe_path, openat2 absent -------------------------------------------------- *)

Variable gh : phandle.
Hypothesis Hmnt : ph_mnt gh = Some PROC_MNT.
Hypothesis Ho2 : ph_openat2 gh = false.

Lemma run_verify_proc T fd o : tget T fd = Some o -> (PB s <= o)%nat ->
  run T (verify_same_procfs_mnt fz gh fd) = Done T (Ok tt).
Proof.
  intros Hfd Hle. unfold verify_same_procfs_mnt, bindR. rewrite Hmnt.
  rewrite (run_bind s rp), (run_verify_mnt s rp fz Hfz T fd o Hfd Hle).
  unfold verify_is_procfs, bindR, os, map_err, w_fstatfs.
  rewrite (tget_valid _ _ _ Hfd). cbn [negb bind Static.run].
  unfold answer. cbn [sem]. rewrite Hfd.
  destruct (Nat.leb_spec (PB s) o) as [_|Hlt]; [|lia].
  cbn [as_fstype bind Static.run]. rewrite (N.eqb_refl PROC_SUPER_MAGIC). reflexivity.
Qed.

Theorem run_as_unsafe_path_emu pf t fd o exp :
  tget t (ph_fd gh) = Some (PB s) ->
  tget t fd = Some o -> find_path s o = Some exp ->
  N.leb READLINK_BUF (N.of_nat (length (render rp exp))) = false ->
  run t (as_unsafe_path fz false (S pf) gh fd) = Done t (Ok (render rp exp)).
Proof.
  intros HP Hfd Hpath Hlen.
  pose proof (tget_pos _ _ _ Hfd) as Hpos.
  unfold as_unsafe_path. rewrite (proc_subpath_nonneg fd Hpos).
  unfold preadlink, bindR. rewrite (run_bind s rp).
  cbn [popen]. unfold bindR. rewrite (run_bind s rp).
  (* open_base *)
  destruct (run_walk_thread_self t (ph_fd gh) HP) as (n5 & Hw1 & S5).
  assert (Hbase : run t (open_base fz false gh ProcThreadSelf) = Done ([(n5, (PB s + 4)%nat)] ++ t) (Ok n5)).
  { unfold open_base, bindR. rewrite (run_bind s rp).
    assert (Hinto : run t (into_path fz (ph_fd gh) ProcThreadSelf) = Done t (b "thread-self")).
    { unfold into_path. cbn [Static.run]. unfold answer at 1. cbn [sem as_num thread_self_cands].
      rewrite (run_bind s rp). unfold w_fstatat, simple1, rustix_path. rewrite (tget_valid _ _ _ HP).
      change (has_nul (b "thread-self")) with false. cbn [negb Static.run]. unfold answer. cbn [sem].
      rewrite (tget_not_cwd _ _ _ HP), HP. change (is_nil (b "thread-self")) with false.
      rewrite Nat.eqb_refl. change (beq (b "thread-self") (b "thread-self")) with true. cbn [andb as_stat Static.run].
      reflexivity. }
    rewrite Hinto. rewrite (run_bind s rp). unfold presolve. rewrite Ho2.
    change (procfs_flags_invalid OPEN_BASE_FLAGS) with false. cbv iota.
    rewrite Hw1. cbv iota.
    rewrite (run_bind s rp), (run_verify_proc _ n5 _ (stk_top t n5 _ [] S5)) by lia. reflexivity. }
  rewrite Hbase. cbv iota.
  (* fd/N *)
  rewrite (run_bind s rp). unfold presolve. rewrite Ho2.
  change (procfs_flags_invalid (N.lor PROCFS_READLINK_FLAGS PROCFS_OPEN_FORCED)) with false. cbv iota.
  destruct (run_walk_fd t n5 fd o S5 Hfd) as (m3 & Hw2 & S3).
  rewrite Hw2. cbv iota.
  rewrite (run_bind s rp), (run_bind s rp), (run_verify_proc _ m3 _ (stk_top t m3 _ _ S3)) by (unfold P_LINK; lia).
  cbv beta iota. cbn [Static.run]. cbv beta iota. cbn [bind].
  rewrite (run_bind s rp), run_close. cbn [Static.run]. cbv beta iota.
  rewrite (stk_close_second t m3 _ n5 _ [] S3).
  pose proof (stk_drop_second t m3 _ n5 _ [] S3) as S3'.
  pose proof (stk_top t m3 _ [] S3') as Hm3.
  (* the readlink of the magic-link *)
  rewrite (run_bind s rp). unfold os, map_err, w_readlinkat, rustix_path.
  rewrite (tget_valid _ _ _ Hm3). cbn [negb has_nul has_byte existsb bind Static.run].
  unfold answer. cbn [sem]. rewrite Hm3. cbn [is_nil negb].
  assert (Hnb : FSModel.link_body s (P_LINK s o) = None).
  { unfold FSModel.link_body, FSModel.kind_of. rewrite nth_overflow by (unfold P_LINK, PB; lia). reflexivity. }
  rewrite Hnb.
  assert (Hle : Nat.leb (PB s + NP) (P_LINK s o) = true) by (apply Nat.leb_le; unfold P_LINK; lia).
  rewrite Hle. replace (P_LINK s o - (PB s + NP))%nat with o by (unfold P_LINK; lia).
  rewrite Hpath. cbn [as_bytes]. rewrite Hlen. cbn [bind Static.run].
  rewrite (run_bind s rp), run_close. cbn [Static.run].
  rewrite (stk_close_top t m3 _ [] S3'). reflexivity.
Qed.

End PW.

Theorem getpath_static_emu s rp fz gh pf :
  fz <> 0%nat -> ph_mnt gh = Some PROC_MNT -> ph_openat2 gh = false ->
  is_abs rp = true -> names_ok s -> paths_found s -> paths_short s rp ->
  getpath_ok s rp [(ph_fd gh, PB s)] (nf rp) (as_unsafe_path fz false (S pf) gh).
Proof.
  intros Hfz Hmnt Ho2 Habs Hnames Hfound Hshort t fd o exp Hfr Hfd Hexp.
  destruct (Hfr (ph_fd gh) (PB s) (or_introl eq_refl)) as [HP _].
  exists (render rp exp). split; [|split].
  - apply (run_as_unsafe_path_emu s rp fz Hfz gh Hmnt Ho2 pf t fd o exp HP Hfd (Hfound o exp Hexp) (Hshort o exp Hexp)).
  - apply render_abs, Habs.
  - apply render_nf. exact (descend_names s Hnames exp ROOT o Hexp).
Qed.
