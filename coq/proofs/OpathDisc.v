(* OpathDisc.v -- C05 for the emulated in-root resolver (imp.rs, symlink_stack.rs):
   every call disciplined for all kernel answers, every descriptor the walk
   hands on is a real descriptor. *)
From PV Require Import Discipline ProgTac BitsProofs PathProofs DisciplineProofs.
Open Scope N_scope.

Arguments N.eqb : simpl never.
Arguments N.lor : simpl never.
Arguments N.land : simpl never.

Definition rfd (fd : Z) : Prop := real_fd fd = true.
Definition dirs_ok (ss : sstack) : Prop := Forall (fun e => rfd (se_dir e)) ss.
Definition stack_ok (s : option sstack) : Prop :=
  match s with None => True | Some ss => dirs_ok ss end.
Definition wst_ok (st : wst) : Prop := rfd (w_root st) /\ rfd (w_cur st) /\ stack_ok (w_stack st).
Definition lookup_fd (l : lookup) : Z := match l with Complete fd => fd | Partial fd _ _ => fd end.
Definition wres_ok (w : wres) : Prop :=
  okR (fun l => rfd (lookup_fd l)) (r_out w) /\ stack_ok (r_stack w).

(* ---- symlink stack -------------------------------------------------------- *)

Lemma unsnoc_forall {A} (P : A -> Prop) (l init : list A) (t : A) :
  unsnoc l = Some (init, t) -> Forall P l -> Forall P init /\ P t.
Proof.
  revert init t. induction l as [|x r IH]; intros init t; cbn [unsnoc]; [discriminate|].
  destruct r as [|y r'].
  - intros H HF; inversion H; subst. inversion HF; subst. split; [constructor|assumption].
  - destruct (unsnoc (y :: r')) as [[i t']|] eqn:E; [|discriminate].
    intros H HF; inversion H; subst. inversion HF; subst.
    destruct (IH _ _ eq_refl H3) as [Hi Ht]. split; [constructor; assumption|assumption].
Qed.

Lemma ss_do_pop_ok st part st' : ss_do_pop st part = Ok st' -> dirs_ok st -> dirs_ok st'.
Proof.
  unfold ss_do_pop. destruct (is_dot part); [intros H; inversion H; subst; auto|].
  destruct (unsnoc st) as [[init tail]|] eqn:E; [|discriminate].
  destruct (se_parts tail) as [|ex ps]; [discriminate|].
  destruct (beq ex part); [|discriminate].
  intros H HF; inversion H; subst. destruct (unsnoc_forall _ _ _ _ E HF) as [Hi Ht].
  apply Forall_app; split; [exact Hi|]. constructor; [exact Ht|constructor].
Qed.

Lemma ss_strip_ok fuel : forall st rel st' rel',
  ss_strip fuel st rel = (st', rel') -> dirs_ok st -> Forall rfd rel ->
  dirs_ok st' /\ Forall rfd rel'.
Proof.
  induction fuel as [|f IH]; intros st rel st' rel'; cbn [ss_strip].
  - intros H; inversion H; subst; auto.
  - destruct (unsnoc st) as [[init tail]|] eqn:E; [|intros H; inversion H; subst; auto].
    destruct (is_nil (se_parts tail)); [|intros H; inversion H; subst; auto].
    intros H Hs Hr. destruct (unsnoc_forall _ _ _ _ E Hs) as [Hi Ht].
    eapply IH; [exact H|exact Hi|]. apply Forall_app; split; [exact Hr|]. constructor; [exact Ht|constructor].
Qed.

Lemma ss_pop_part_ok st part st' rel :
  ss_pop_part st part = Ok (st', rel) -> dirs_ok st -> dirs_ok st' /\ Forall rfd rel.
Proof.
  unfold ss_pop_part. destruct (ss_do_pop st part) as [st1|e] eqn:E.
  - intros H Hs. inversion H as [H1]. eapply ss_strip_ok; [exact H1| |constructor].
    eapply ss_do_pop_ok; eassumption.
  - destruct e; try discriminate. intros H Hs; inversion H; subst. split; [exact Hs|constructor].
Qed.

Lemma ss_do_push_ok st dir rem target : dirs_ok st -> rfd dir -> dirs_ok (ss_do_push st dir rem target).
Proof.
  intros Hs Hd. unfold ss_do_push. apply Forall_app; split; [exact Hs|].
  constructor; [exact Hd|constructor].
Qed.

Lemma ss_swap_link_ok st part dir rem target st' :
  ss_swap_link st part dir rem target = Ok st' -> dirs_ok st -> rfd dir -> dirs_ok st'.
Proof.
  unfold ss_swap_link. destruct (ss_do_pop st part) as [st1|e] eqn:E.
  - intros H Hs Hd; inversion H; subst. apply ss_do_push_ok; [|exact Hd]. eapply ss_do_pop_ok; eassumption.
  - destruct e; try discriminate. intros H Hs Hd; inversion H; subst. apply ss_do_push_ok; assumption.
Qed.

(* ---- reference counts ------------------------------------------------------ *)

Lemma rc_drop_ok fd r : rfd fd -> okd QT (rc_drop fd r).
Proof.
  intro H. unfold rc_drop. destruct (rc_get fd r) as [|[|n]]; try (constructor; exact I).
  eapply okp_bind; [apply close_ok; exact H|]. intros _ _. constructor; exact I.
Qed.

Lemma rc_drop_all_ok fds : forall r, Forall rfd fds -> okd QT (rc_drop_all fds r).
Proof.
  induction fds as [|fd t IH]; intros r HF; cbn [rc_drop_all]; [constructor; exact I|].
  inversion HF; subst. eapply okp_bind; [apply rc_drop_ok; assumption|]. intros r' _. apply IH; assumption.
Qed.

Section OpathDisc.
Variable fz : nat.
Variable cfg : bool.
Variable pfuel : nat.
Variable gh : phandle.
Variable sysctl_ps : N.
Hypothesis Hgh : rfd (ph_fd gh).

Notation chk0 := (check_current fz cfg pfuel gh).
Notation fin0 := (final_check fz cfg pfuel gh).
Notation walk_open := (walk_open fz sysctl_ps chk0 fin0).
Notation walk_body := (walk_body fz sysctl_ps chk0 fin0).
Notation walk := (walk fz cfg pfuel gh sysctl_ps).

Lemma check_current_ok cur root exp :
  okd (okR QT) (check_current fz cfg pfuel gh cur root exp).
Proof.
  unfold check_current.
  eapply okp_bindR; [apply as_unsafe_path_ok; exact Hgh| |intro; exact I]. intros rp _.
  eapply okp_bindR; [apply as_unsafe_path_ok; exact Hgh| |intro; exact I]. intros cp _.
  destruct (negb _); [constructor; exact I|].
  eapply okp_bindR; [apply as_unsafe_path_ok; exact Hgh| |intro; exact I]. intros np _.
  destruct (negb _); constructor; exact I.
Qed.

Lemma may_follow_link_ok dir link : rfd dir -> rfd link -> okd (okR QT) (may_follow_link fz sysctl_ps dir link).
Proof.
  intros Hd Hl. unfold may_follow_link, os. constructor; [split; reflexivity|]. intro ru.
  eapply okp_bindR; [apply okp_map_err, w_fstatat_ok; [exact Hd|reflexivity]| |intro; exact I]. intros dm _.
  eapply okp_bindR; [apply okp_map_err, w_fstatat_ok; [exact Hl|reflexivity]| |intro; exact I]. intros lm _.
  destruct (_ || _); constructor; exact I.
Qed.

Definition Qw : wres -> Prop := wres_ok.

Lemma bail_ok st next e :
  wst_ok st -> (forall n, next = Some n -> rfd n) -> okd Qw (bail st next e).
Proof.
  intros (Hr & Hc & Hs) Hn. unfold bail.
  eapply okp_bind.
  { instantiate (1 := QT). destruct next as [n|]; [apply close_ok, Hn; reflexivity|constructor; exact I]. }
  intros _ _. eapply okp_bind; [apply rc_drop_ok; exact Hc|]. intros r1 _.
  eapply okp_bind; [apply rc_drop_ok; exact Hr|]. intros r2 _.
  constructor. split; [exact I|exact Hs].
Qed.

Lemma ret_partial_ok st next rem e :
  wst_ok st -> (forall n, next = Some n -> rfd n) -> okd Qw (ret_partial st next rem e).
Proof.
  intros (Hr & Hc & Hs) Hn. unfold ret_partial.
  eapply okp_bind.
  { instantiate (1 := QT). destruct next as [n|]; [apply close_ok, Hn; reflexivity|constructor; exact I]. }
  intros _ _. eapply okp_bind; [apply rc_drop_ok; exact Hr|]. intros r1 _.
  constructor. split; [exact Hc|exact Hs].
Qed.

Lemma set_cur_ok st newfd fresh exp stack :
  wst_ok st -> rfd newfd -> stack_ok stack -> okd wst_ok (set_cur st newfd fresh exp stack).
Proof.
  intros (Hr & Hc & Hs) Hn Hst. unfold set_cur.
  eapply okp_bind; [apply rc_drop_ok; exact Hc|]. intros r2 _.
  constructor. repeat split; assumption.
Qed.

Lemma stack_pop_part_ok st part :
  wst_ok st -> okd (okR (fun sr : option sstack * refs => stack_ok (fst sr))) (stack_pop_part st part).
Proof.
  intros (Hr & Hc & Hs). unfold stack_pop_part.
  destruct (w_stack st) as [ss|] eqn:E; [|constructor; exact I].
  destruct (ss_pop_part ss part) as [[ss' rel]|e] eqn:Ep; [|constructor; exact I].
  destruct (ss_pop_part_ok _ _ _ _ Ep Hs) as [Hs' Hrel].
  eapply okp_bind; [apply rc_drop_all_ok; exact Hrel|]. intros r _. constructor. exact Hs'.
Qed.

Lemma final_check_ok st : wst_ok st -> okd Qw (final_check fz cfg pfuel gh st).
Proof.
  intros Hst. unfold final_check, final_check_gen.
  eapply okp_bind; [apply check_current_ok|]. intros r _.
  destruct r as [_u|e]; [|apply bail_ok; [exact Hst|discriminate]].
  destruct Hst as (Hr & Hc & Hs).
  eapply okp_bind; [apply rc_drop_ok; exact Hr|]. intros r1 _.
  constructor. split; [exact Hc|exact Hs].
Qed.

Lemma wst_ok_upd st exp' refs' :
  wst_ok st ->
  wst_ok {| w_root := w_root st; w_cur := w_cur st; w_exp := exp'; w_refs := refs'; w_stack := w_stack st |}.
Proof. intros (Hr & Hc & Hs). repeat split; assumption. Qed.

Lemma walk_open_ok nosym nofollow follow inner remaining rest :
  (forall go, follow = Some go -> forall st cs, wst_ok st -> singles cs -> okd Qw (go st cs)) ->
  (forall st, wst_ok st -> okd Qw (inner st rest)) ->
  singles rest ->
  forall st part, wst_ok st -> okd Qw (walk_open nosym nofollow follow inner remaining rest st part).
Proof.
  intros Hgo Hinner Hrest st part Hst. unfold OpathM.walk_open.
  destruct (has_slash part) eqn:Hsl; [apply bail_ok; [exact Hst|discriminate]|].
  assert (Hpart : single part = true) by (unfold single; rewrite Hsl; reflexivity).
  pose proof Hst as (Hr & Hc & Hs).
  unfold os. eapply okp_bind; [apply okp_map_err, w_openat_ok; [exact Hc|exact Hpart]|]. intros r Hnext.
  destruct r as [next|e]; [|apply ret_partial_ok; [exact Hst|discriminate]].
  cbn in Hnext.
  assert (Hn : forall n, Some next = Some n -> rfd n) by (intros n H; inversion H; subst; exact Hnext).
  eapply okp_bind.
  { instantiate (1 := okR QT). destruct (is_dotdot part); [apply check_current_ok|constructor; exact I]. }
  intros r _. destruct r as [_u|e]; [|apply bail_ok; assumption].
  eapply okp_bind; [apply okp_map_err, w_fstatat_ok; [exact Hnext|reflexivity]|]. intros r _.
  destruct r as [meta|e]; [|apply bail_ok; assumption].
  destruct (negb (is_symlink_mode (st_mode meta))).
  { eapply okp_bind; [apply stack_pop_part_ok; exact Hst|]. intros r Hsp.
    destruct r as [[stack' refs']|e]; [|apply bail_ok; assumption]. cbn in Hsp.
    eapply okp_bind; [apply set_cur_ok; [repeat split; assumption|exact Hnext|exact Hsp]|].
    intros st' Hst'. apply Hinner; exact Hst'. }
  destruct (is_nil rest && nofollow).
  { eapply okp_bind; [apply set_cur_ok; [exact Hst|exact Hnext|exact Hs]|]. intros st' Hst'.
    apply final_check_ok; exact Hst'. }
  destruct nosym; [apply ret_partial_ok; assumption|].
  eapply okp_bind.
  { instantiate (1 := okR QT). destruct (EMU_PS_ONLY_TRAILING && negb (ps_trailing rest)); [constructor; exact I|].
    apply may_follow_link_ok; assumption. }
  intros r _.
  destruct r as [_u2|e]; [|apply bail_ok; assumption].
  destruct follow as [go|]; [|apply ret_partial_ok; assumption].
  eapply okp_bind; [apply okp_map_err, w_readlinkat_ok; exact Hnext|]. intros r _.
  destruct r as [target|e]; [|apply bail_ok; assumption].
  eapply okp_bind.
  { instantiate (1 := okR QT). destruct (is_abs target); [|constructor; exact I].
    eapply okd_weakT. apply is_magiclink_filesystem_ok; exact Hnext. }
  intros r _. destruct r as [[|]|e]; try (apply bail_ok; assumption).
  destruct (w_stack st) as [ss|] eqn:Ess.
  - destruct (ss_swap_link ss part (w_cur st) remaining target) as [ss'|e] eqn:Esw;
      [|apply bail_ok; assumption].
    assert (Hs' : stack_ok (Some ss')).
    { cbn. eapply ss_swap_link_ok; [exact Esw| |exact Hc]. exact Hs. }
    cbn zeta.
    eapply okp_bind.
    { instantiate (1 := wst_ok). destruct (is_abs target).
      - apply set_cur_ok; [repeat split; assumption|exact Hr|exact Hs'].
      - constructor. repeat split; assumption. }
    intros st2 Hst2. eapply okp_bind; [apply close_ok; exact Hnext|]. intros _ _.
    eapply Hgo; [reflexivity|exact Hst2|]. apply singles_app; [apply singles_raw|exact Hrest].
  - cbn zeta.
    eapply okp_bind.
    { instantiate (1 := wst_ok). destruct (is_abs target).
      - apply set_cur_ok; [repeat split; cbn; auto|exact Hr|exact I].
      - constructor. repeat split; cbn; auto. }
    intros st2 Hst2. eapply okp_bind; [apply close_ok; exact Hnext|]. intros _ _.
    eapply Hgo; [reflexivity|exact Hst2|]. apply singles_app; [apply singles_raw|exact Hrest].
Qed.

Lemma walk_body_ok nosym nofollow follow :
  (forall go, follow = Some go -> forall st cs, wst_ok st -> singles cs -> okd Qw (go st cs)) ->
  forall cs st, wst_ok st -> singles cs -> okd Qw (walk_body nosym nofollow follow st cs).
Proof.
  intros Hgo cs. induction cs as [|part0 rest IH]; intros st Hst Hcs; cbn [OpathM.walk_body].
  - apply final_check_ok; exact Hst.
  - inversion Hcs as [|? ? Hp0 Hrest]; subst. cbn zeta.
    assert (Hopen : forall st' part, wst_ok st' ->
              okd Qw (walk_open nosym nofollow follow (walk_body nosym nofollow follow)
                                (join_slash (part0 :: rest)) rest st' part)).
    { intros st' part Hst'. apply walk_open_ok; try assumption.
      intros st'' Hst''. apply IH; assumption. }
    destruct (is_nil part0); [apply Hopen; exact Hst|].
    destruct (is_dot part0); [apply Hopen; exact Hst|].
    destruct (is_dotdot part0).
    + destruct (w_exp st) eqn:Eexp.
      * eapply okp_bind; [apply stack_pop_part_ok; exact Hst|]. intros r Hsp.
        destruct r as [[stack' refs']|e]; [|apply bail_ok; [exact Hst|discriminate]]. cbn in Hsp.
        destruct Hst as (Hr & Hc & Hs).
        eapply okp_bind; [apply set_cur_ok; [repeat split; assumption|exact Hr|exact Hsp]|].
        intros st' Hst'. apply IH; assumption.
      * apply Hopen. apply wst_ok_upd; exact Hst.
    + apply Hopen. apply wst_ok_upd; exact Hst.
Qed.

Lemma walk_ok budget nosym nofollow : forall st cs,
  wst_ok st -> singles cs -> okd Qw (walk budget nosym nofollow st cs).
Proof.
  unfold OpathM.walk. induction budget as [|bd IH]; intros st cs Hst Hcs; cbn [OpathM.walk_gen].
  - apply walk_body_ok; [discriminate|assumption|assumption].
  - apply walk_body_ok; [|assumption|assumption].
    intros go Hgo. destruct bd; [discriminate|]. inversion Hgo; subst.
    intros; apply IH; assumption.
Qed.

Lemma do_resolve_ok root path nosym nofollow stack :
  rfd root -> stack_ok stack ->
  okd (okR Qw) (do_resolve fz cfg pfuel gh sysctl_ps root path nosym nofollow stack).
Proof.
  intros Hroot Hs. unfold do_resolve, os.
  eapply okp_bindR; [apply okp_map_err, dup_cloexec_ok; exact Hroot| |intro; exact I]. intros rd Hrd.
  destruct (EMPTY_PATH_IS_ENOENT && is_nil path).
  { eapply okp_bind; [apply ret_partial_ok; [repeat split; assumption|discriminate]|]. intros r Hr. constructor. exact Hr. }
  eapply okp_bind; [apply walk_ok; [repeat split; assumption|apply singles_raw]|]. intros r Hr.
  constructor. exact Hr.
Qed.

Lemma unwrap_rc_ok l r : rfd (lookup_fd l) -> okd (fun l' => rfd (lookup_fd l')) (unwrap_rc l r).
Proof.
  intro H. unfold unwrap_rc.
  destruct (rc_get _ r) as [|[|n]]; constructor; try exact H; right; left; reflexivity.
Qed.

Theorem opath_resolve_root_ok root path nosym nofollow :
  rfd root -> okd Qfd (opath_resolve_root fz cfg pfuel gh sysctl_ps root path nosym nofollow).
Proof.
  intro Hroot. unfold opath_resolve_root.
  eapply okp_bindR; [apply do_resolve_ok; [exact Hroot|exact I]| |intro; exact I]. intros w [Ho Hs].
  destruct (r_out w) as [l|e]; [|constructor; exact I]. cbn in Ho.
  eapply okp_bind; [apply unwrap_rc_ok; exact Ho|]. intros l' Hl'.
  destruct l' as [fd|fd rem e]; [constructor; exact Hl'|].
  eapply okp_bind; [apply close_ok; exact Hl'|]. intros _ _. constructor; exact I.
Qed.

Lemma dirs_map ss : dirs_ok ss -> Forall rfd (map se_dir ss).
Proof. intro H. induction H; constructor; auto. Qed.

Theorem opath_resolve_partial_ok root path nosym nofollow :
  rfd root ->
  okd (okR (fun l => rfd (lookup_fd l)))
      (opath_resolve_partial fz cfg pfuel gh sysctl_ps root path nosym nofollow).
Proof.
  intro Hroot. unfold opath_resolve_partial.
  eapply okp_bindR; [apply do_resolve_ok; [exact Hroot|constructor]| |intro; exact I]. intros w [Ho Hs].
  assert (Hss : dirs_ok (match r_stack w with Some s => s | None => [] end)).
  { destruct (r_stack w); [exact Hs|constructor]. }
  revert Hss. generalize (match r_stack w with Some s => s | None => [] end). intros ss Hss.
  destruct (r_out w) as [[fd|fd rem e]|e]; cbn in Ho.
  - eapply okp_bind; [apply rc_drop_all_ok, dirs_map; exact Hss|]. intros r' _.
    eapply okp_bind; [apply (unwrap_rc_ok (Complete fd)); exact Ho|]. intros l Hl. constructor; exact Hl.
  - destruct ss as [|top rest_ss].
    + eapply okp_bind; [apply (unwrap_rc_ok (Partial fd rem e)); exact Ho|]. intros l Hl. constructor; exact Hl.
    + inversion Hss; subst.
      eapply okp_bind; [apply rc_drop_ok; exact Ho|]. intros r1 _.
      eapply okp_bind; [apply rc_drop_all_ok, dirs_map; assumption|]. intros r2 _.
      eapply okp_bind; [apply (unwrap_rc_ok (Partial (se_dir top) (se_rem top) e)); assumption|].
      intros l Hl. constructor; exact Hl.
  - eapply okp_bind; [apply rc_drop_all_ok, dirs_map; exact Hss|]. intros _ _. constructor; exact I.
Qed.

End OpathDisc.
