(* RootBal.v -- C11 for resolvers/openat2.rs, resolvers.rs, root.rs, utils/dir.rs.
   The Root operations are proved balanced for ANY resolver that satisfies the
   lookup contracts [res_ok]/[resp_ok]; the kernel (openat2) backend is shown to
   satisfy them here, the emulated backend (Rc bookkeeping included) in OpathBal.v. *)
From PV Require Import FdBalance ProgTac PathProofs FdBalProofs.
From Coq Require Import Permutation.
Open Scope N_scope.

Definition Rlk {E} (o : list Z) : result lookup E -> list Z -> Prop :=
  fun r o' => Permutation o' (match r with
                              | Ok (Complete fd) => fd :: o
                              | Ok (Partial fd _ _) => fd :: o
                              | Err _ => o end).
Lemma perm_closed_Rlk {E} o : perm_closed (@Rlk E o).
Proof. intros a o1 o2 H Hp. unfold Rlk in *. eapply perm_trans; [apply Permutation_sym, Hp|exact H]. Qed.

Section RootBal.
Variable fz : nat.
Variable cfg : bool.
Variable pfuel : nat.
Variable gh : phandle.
Variable sysctl_ps : N.

Lemma k_open_bal root path rf fl o : bal (Rfd o) o (k_open fz cfg root path rf fl).
Proof.
  unfold k_open, os. destruct (negb cfg); [constructor; hnf; reflexivity|].
  destruct (N.eqb OPENAT2_OPEN_RETRIES 0); [apply bal_map_err_fd, w_openat2_bal|].
  unfold k_open_loop. apply openat2_retry_bal.
Qed.

Lemma k_resolve_loop_bal n root path fl rs o : bal (Rfd o) o (k_resolve_loop fz n root path fl rs).
Proof.
  induction n as [|m IH]; cbn [k_resolve_loop]; [constructor; hnf; reflexivity|].
  eapply bal_bind; [apply w_openat2_bal|]. intros [fd|e] o1 Ho1; [constructor; exact Ho1|].
  hnf in Ho1.
  destruct (N.eqb e ENOSYS); [constructor; exact Ho1|].
  destruct (N.eqb e EAGAIN); [|constructor; exact Ho1].
  eapply bal_perm; [apply perm_closed_Rfd|exact IH|apply Permutation_sym, Ho1].
Qed.

Lemma k_resolve_bal root path rf nf o : bal (Rfd o) o (k_resolve fz cfg root path rf nf).
Proof. unfold k_resolve. destruct (negb cfg); [constructor; hnf; reflexivity|apply k_resolve_loop_bal]. Qed.

Lemma k_resolve_partial_bal root path rf nf o : bal (Rlk o) o (k_resolve_partial fz cfg root path rf nf).
Proof.
  unfold k_resolve_partial. eapply bal_bind; [apply k_resolve_bal|]. intros [fd|e0] o1 Ho1; [constructor; exact Ho1|].
  hnf in Ho1. eapply bal_perm; [apply perm_closed_Rlk| |apply Permutation_sym, Ho1].
  generalize (partial_ancestors path) e0. intro anc.
  induction anc as [|[p rem] rest IH]; intro last; [destruct PARTIAL_UNREACHABLE_PANICS; constructor; hnf; reflexivity|].
  destruct (is_safety_violation last); [constructor; hnf; reflexivity|].
  eapply bal_bind; [apply k_resolve_bal|]. intros [fd|e] o2 Ho2; [constructor; exact Ho2|].
  hnf in Ho2. eapply bal_perm; [apply perm_closed_Rlk|apply IH|apply Permutation_sym, Ho2].
Qed.

(* ---- Root operations over an abstract resolver contract ---------------------- *)

Definition res_ok (rs : resolver) : Prop :=
  forall root path nf o, bal (Rfd o) o (r_resolve fz cfg pfuel gh sysctl_ps rs root path nf).
Definition resp_ok (rs : resolver) : Prop :=
  forall root path nf o, bal (Rlk o) o (r_resolve_partial fz cfg pfuel gh sysctl_ps rs root path nf).

Lemma kernel_res_ok rs : rs_kernel rs = true -> res_ok rs.
Proof. intros H root path nf o. unfold r_resolve. rewrite H. apply k_resolve_bal. Qed.
Lemma kernel_resp_ok rs : rs_kernel rs = true -> resp_ok rs.
Proof. intros H root path nf o. unfold r_resolve_partial. rewrite H. apply k_resolve_partial_bal. Qed.

Variable rs : resolver.
Hypothesis Hres : res_ok rs.
Hypothesis Hresp : resp_ok rs.

Lemma h_reopen_bal fd fl o : bal (Rfd o) o (h_reopen fz cfg pfuel gh fd fl).
Proof. unfold h_reopen. apply reopen_bal. Qed.

Theorem r_open_bal root path fl o : bal (Rfd o) o (r_open fz cfg pfuel gh sysctl_ps rs root path fl).
Proof.
  unfold r_open. destruct (_ || _); [constructor; hnf; reflexivity|].
  destruct (rs_kernel rs); [apply k_open_bal|].
  unfold bindR. eapply bal_bind; [apply Hres|]. intros [h|e] o1 Ho1; [|constructor; exact Ho1]. hnf in Ho1.
  assert (Hcl : forall e, bal (@Rfd ekind o) o1 (close h ;;; Ret (Err e))).
  { intro e. apply close_ret_bal with (o' := o); [apply perm_closed_Rfd|exact Ho1|hnf; reflexivity]. }
  unfold os. eapply bal_bind_same; [apply perm_closed_Rfd|apply bal_map_err_same, w_fstatat_bal|].
  intros [meta|e]; [|apply Hcl].
  destruct (is_symlink_mode _).
  - destruct (has fl O_DIRECTORY); [apply Hcl|].
    destruct (has fl O_PATH); [constructor; exact Ho1|apply Hcl].
  - eapply bal_bind; [apply h_reopen_bal|]. intros r o2 Ho2. hnf in Ho2. destruct r as [fd|e].
    + apply close_ret_bal with (o' := fd :: o); [apply perm_closed_Rfd| |hnf; reflexivity].
      eapply perm_trans; [exact Ho2|]. eapply perm_trans; [apply perm_skip, Ho1|apply perm_swap].
    + apply close_ret_bal with (o' := o); [apply perm_closed_Rfd| |hnf; reflexivity].
      eapply perm_trans; [exact Ho2|exact Ho1].
Qed.

Definition Rpn {E} (o : list Z) : result (Z * bytes) E -> list Z -> Prop :=
  fun r o' => Permutation o' (match r with Ok (d, _) => d :: o | Err _ => o end).
Lemma perm_closed_Rpn {E} o : perm_closed (@Rpn E o).
Proof. intros a o1 o2 H Hp. unfold Rpn in *. eapply perm_trans; [apply Permutation_sym, Hp|exact H]. Qed.

Lemma parent_and_name_bal root path o : bal (Rpn o) o (parent_and_name fz cfg pfuel gh sysctl_ps rs root path).
Proof.
  unfold parent_and_name, resolve_parent.
  destruct (path_split path) as [[[parent name]|e]|]; cbn [bindR bind].
  - unfold bindR. rewrite <- ?bind_assoc_dummy || idtac.
    eapply bal_bind.
    { instantiate (1 := fun (r : result (Z * option bytes) ekind) o' =>
                          Permutation o' (match r with Ok (d, _) => d :: o | Err _ => o end)).
      eapply bal_bind; [apply Hres|]. intros [dir|e] o1 Ho1; constructor; exact Ho1. }
    intros [[dir [n|]]|e] o1 Ho1.
    + constructor. exact Ho1.
    + apply close_ret_bal with (o' := o); [apply perm_closed_Rpn|exact Ho1|hnf; reflexivity].
    + constructor. exact Ho1.
  - constructor. hnf. reflexivity.
  - constructor.
Qed.

Theorem root_readlink_bal root path o : bal (Rsame o) o (root_readlink fz cfg pfuel gh sysctl_ps rs root path).
Proof.
  unfold root_readlink, os. unfold bindR. eapply bal_bind; [apply Hres|].
  intros [link|e] o1 Ho1; [|constructor; exact Ho1].
  eapply bal_bind_same; [apply perm_closed_Rsame|apply bal_map_err_same, w_readlinkat_bal|]. intro r.
  apply close_ret_bal with (o' := o); [apply perm_closed_Rsame|exact Ho1|hnf; reflexivity].
Qed.

Ltac one_call_then_close lem Ho1 oo :=
  eapply bal_bind_same; [apply perm_closed_Rsame|apply bal_map_err_same, lem|]; intro;
  apply close_ret_bal with (o' := oo); [apply perm_closed_Rsame|exact Ho1|hnf; reflexivity].

Theorem root_create_bal root path ty o : bal (Rsame o) o (root_create fz cfg pfuel gh sysctl_ps rs root path ty).
Proof.
  unfold root_create, os. unfold bindR at 1. eapply bal_bind; [apply parent_and_name_bal|].
  intros [[dir name]|e] o1 Ho1; [|constructor; exact Ho1]. hnf in Ho1.
  destruct ty.
  - one_call_then_close w_mknodat_bal Ho1 o.
  - one_call_then_close w_mkdirat_bal Ho1 o.
  - one_call_then_close w_symlinkat_bal Ho1 o.
  - eapply bal_bind; [apply parent_and_name_bal|]. intros [[olddir oldname]|e] o2 Ho2; hnf in Ho2.
    + eapply bal_bind_same; [apply perm_closed_Rsame|apply bal_map_err_same, w_linkat_bal|]. intro r.
      apply close_then_bal with (o' := olddir :: o); [apply perm_closed_Rsame| |].
      { eapply perm_trans; [exact Ho2|]. eapply perm_trans; [apply perm_skip, Ho1|apply perm_swap]. }
      apply close_ret_bal with (o' := o); [apply perm_closed_Rsame|reflexivity|hnf; reflexivity].
    + apply close_ret_bal with (o' := o); [apply perm_closed_Rsame| |hnf; reflexivity].
      eapply perm_trans; [exact Ho2|exact Ho1].
  - one_call_then_close w_mknodat_bal Ho1 o.
  - one_call_then_close w_mknodat_bal Ho1 o.
  - one_call_then_close w_mknodat_bal Ho1 o.
Qed.

Theorem root_create_file_bal root path fl mode o :
  bal (Rfd o) o (root_create_file fz cfg pfuel gh sysctl_ps rs root path fl mode).
Proof.
  unfold root_create_file, os. destruct (CREATE_FILE_REFUSES_OPATH && has fl O_PATH); [constructor; hnf; apply Permutation.Permutation_refl|].
  unfold bindR. eapply bal_bind; [apply parent_and_name_bal|].
  intros [[dir name]|e] o1 Ho1; [|constructor; exact Ho1]. hnf in Ho1.
  eapply bal_bind; [apply bal_map_err_fd, w_openat_bal|]. intros r o2 Ho2. hnf in Ho2. destruct r as [fd|e].
  - apply close_ret_bal with (o' := fd :: o); [apply perm_closed_Rfd| |hnf; reflexivity].
    eapply perm_trans; [exact Ho2|]. eapply perm_trans; [apply perm_skip, Ho1|apply perm_swap].
  - apply close_ret_bal with (o' := o); [apply perm_closed_Rfd| |hnf; reflexivity].
    eapply perm_trans; [exact Ho2|exact Ho1].
Qed.

Theorem root_remove_inode_bal root path isdir o :
  bal (Rsame o) o (root_remove_inode fz cfg pfuel gh sysctl_ps rs root path isdir).
Proof.
  unfold root_remove_inode, os. unfold bindR. eapply bal_bind; [apply parent_and_name_bal|].
  intros [[dir name]|e] o1 Ho1; [|constructor; exact Ho1]. hnf in Ho1.
  one_call_then_close w_unlinkat_bal Ho1 o.
Qed.

Theorem root_rename_bal root src dst rfl o :
  bal (Rsame o) o (root_rename fz cfg pfuel gh sysctl_ps rs root src dst rfl).
Proof.
  unfold root_rename, os. unfold bindR. eapply bal_bind; [apply parent_and_name_bal|].
  intros [[sd sn]|e] o1 Ho1; [|constructor; exact Ho1]. hnf in Ho1.
  eapply bal_bind; [apply parent_and_name_bal|]. intros [[dd dn]|e] o2 Ho2; hnf in Ho2.
  - eapply bal_bind_same; [apply perm_closed_Rsame|apply bal_map_err_same, w_renameat2_bal|]. intro r.
    apply close_then_bal with (o' := sd :: o); [apply perm_closed_Rsame| |].
    { eapply perm_trans; [exact Ho2|apply perm_skip, Ho1]. }
    apply close_ret_bal with (o' := o); [apply perm_closed_Rsame|reflexivity|hnf; reflexivity].
  - apply close_ret_bal with (o' := o); [apply perm_closed_Rsame| |hnf; reflexivity].
    eapply perm_trans; [exact Ho2|exact Ho1].
Qed.

(* ---- utils/dir.rs -------------------------------------------------------------- *)

Lemma remove_inode_bal dirfd name o : bal (Rsame o) o (remove_inode fz dirfd name).
Proof.
  unfold remove_inode. eapply bal_bind_same; [apply perm_closed_Rsame|apply w_unlinkat_bal|].
  intros [u|ue]; [constructor; hnf; reflexivity|].
  eapply bal_bind_same; [apply perm_closed_Rsame|apply w_unlinkat_bal|].
  intros [u|re]; constructor; hnf; reflexivity.
Qed.

(* ra_entries owns the iterator descriptor dfd (on top of oo) and closes it on every exit *)
Lemma ra_entries_bal rec g : forall dfd buf seen oo o1,
  (forall n o', bal (Rsame o') o' (rec n)) ->
  Permutation o1 (dfd :: oo) ->
  bal (Rsame oo) o1 (ra_entries rec g dfd buf seen).
Proof.
  induction g as [|g' IH]; intros dfd buf seen oo o1 Hrec Ho1; cbn [ra_entries]; [constructor|].
  destruct buf as [|n rest]; cbn iota.
  - apply bal_neutral_call; [neutral_solve|]. intro r. destruct (as_dents r) as [[|n l]|e].
    + apply close_ret_bal with (o' := oo); [apply perm_closed_Rsame|exact Ho1|hnf; reflexivity].
    + apply IH; assumption.
    + destruct (N.eqb e EINTR); [apply IH; assumption|].
      destruct (N.eqb e ENOENT); apply close_ret_bal with (o' := oo); try apply perm_closed_Rsame; try exact Ho1; hnf; reflexivity.
  - destruct (dot_or_dotdot n); [apply IH; assumption|].
    eapply bal_bind_same; [apply perm_closed_Rsame|apply Hrec|]. intro r.
    destruct (ignore_enoent r); [apply IH; assumption|].
    apply close_ret_bal with (o' := oo); [apply perm_closed_Rsame|exact Ho1|hnf; reflexivity].
Qed.

Lemma ra_rounds_bal scan fin subdir g oo o1 :
  (forall dfd o2, Permutation o2 (dfd :: o1) -> bal (Rsame o1) o2 (scan dfd)) ->
  bal (Rsame oo) o1 fin ->
  Permutation o1 (subdir :: oo) ->
  bal (Rsame oo) o1 (ra_rounds scan fin subdir g).
Proof.
  intros Hscan Hfin Ho1. induction g as [|g' IH]; cbn [ra_rounds]; [constructor|].
  apply bal_neutral_call; [neutral_solve|]. intro rf.
  assert (Hcl : forall e, bal (@Rsame (result unit ekind) oo) o1 (close subdir ;;; Ret (Err e))).
  { intro e. apply close_ret_bal with (o' := oo); [apply perm_closed_Rsame|exact Ho1|hnf; reflexivity]. }
  assert (Hopen : forall fl, bal (@Rsame (result unit ekind) oo) o1
     (Call (Openat subdir [DOT] (N.lor (N.lor fl O_CLOEXEC) O_LARGEFILE) 0)
        (fun ro => match as_fd ro with
                   | Err e => if N.eqb e ENOENT then fin else close subdir ;;; Ret (Err (OsError e))
                   | Ok dfd => r <- scan dfd ;;
                               match r with
                               | Err e => close subdir ;;; Ret (Err e)
                               | Ok false => fin
                               | Ok true => ra_rounds scan fin subdir g'
                               end
                   end))).
  { intro fl. constructor; [intros ? E; discriminate|]. intros ro _. cbn [step_owned opens].
    destruct (as_fd ro) as [dfd|e]; cbn [app].
    - eapply bal_bind; [apply Hscan; reflexivity|]. intros r o3 Ho3. hnf in Ho3.
      eapply bal_perm; [apply perm_closed_Rsame| |apply Permutation_sym, Ho3].
      destruct r as [[|]|e]; [exact IH|exact Hfin|apply Hcl].
    - destruct (N.eqb e ENOENT); [exact Hfin|apply Hcl]. }
  destruct rf; try apply Hopen.
  destruct (N.eqb e ENOENT); [exact Hfin|apply Hcl].
Qed.

Theorem remove_all_bal fuel : forall dirfd name o, bal (Rsame o) o (remove_all fz fuel dirfd name).
Proof.
  induction fuel as [|f IH]; intros dirfd name o; cbn [remove_all]; [constructor|].
  destruct (has_slash name); [constructor; hnf; reflexivity|].
  destruct (REMOVE_ALL_REFUSES_DOTS && dot_or_dotdot name); [constructor; hnf; reflexivity|].
  eapply bal_bind_same; [apply perm_closed_Rsame|apply remove_inode_bal|]. intro r.
  destruct (ignore_enoent r); [constructor; hnf; reflexivity|].
  unfold os. eapply bal_bind; [apply bal_map_err_fd, w_openat_bal|]. intros [subdir|e2] o1 Ho1; hnf in Ho1.
  2: { destruct (errno_is e2 ENOENT); constructor; exact Ho1. }
  cbn zeta. apply ra_rounds_bal; [| |exact Ho1].
  - intros dfd o2 Ho2. apply ra_entries_bal; [|exact Ho2]. intros n o'. apply IH.
  - eapply bal_bind_same; [apply perm_closed_Rsame|apply remove_inode_bal|]. intro r3.
    apply close_ret_bal with (o' := o); [apply perm_closed_Rsame|exact Ho1|hnf; reflexivity].
Qed.

Theorem root_remove_all_bal rfuel root path o :
  bal (Rsame o) o (root_remove_all fz cfg pfuel gh sysctl_ps rfuel rs root path).
Proof.
  unfold root_remove_all. unfold bindR. eapply bal_bind; [apply parent_and_name_bal|].
  intros [[dir name]|e] o1 Ho1; [|constructor; exact Ho1]. hnf in Ho1.
  eapply bal_bind_same; [apply perm_closed_Rsame|apply remove_all_bal|]. intro r.
  apply close_ret_bal with (o' := o); [apply perm_closed_Rsame|exact Ho1|hnf; reflexivity].
Qed.

Lemma mk_parts_bal mode ps : forall cur o o1, Permutation o1 (cur :: o) ->
  bal (Rfd o) o1 ((fix mk (ps : list bytes) (current : Z) : prog (result Z ekind) :=
               match ps with
               | [] => Ret (Ok current)
               | part :: rest =>
                   if has_slash part then close current ;;; Ret (Err SafetyViolation) else
                   r <- w_mkdirat fz current part mode ;;
                   match (match r with
                          | Ok _ => None
                          | Err e => if N.eqb e EEXIST then None else Some e
                          end) with
                   | Some e => close current ;;; Ret (Err (OsError e))
                   | None =>
                       r <- os (w_openat fz current part MKDIR_ALL_OPEN_FLAGS 0) ;;
                       match r with
                       | Err e => close current ;;; Ret (Err e)
                       | Ok next => close current ;;; mk rest next
                       end
                   end
               end) ps cur).
Proof.
  induction ps as [|part rest IH]; intros cur o o1 Ho1; [constructor; exact Ho1|].
  assert (Hcl : forall e, bal (@Rfd ekind o) o1 (close cur ;;; Ret (Err e))).
  { intro e. apply close_ret_bal with (o' := o); [apply perm_closed_Rfd|exact Ho1|hnf; reflexivity]. }
  destruct (has_slash part); [apply Hcl|].
  eapply bal_bind_same; [apply perm_closed_Rfd|apply w_mkdirat_bal|]. intro r.
  destruct (match r with Ok _ => None | Err e => if N.eqb e EEXIST then None else Some e end); [apply Hcl|].
  unfold os. eapply bal_bind; [apply bal_map_err_fd, w_openat_bal|]. intros [next|e] o2 Ho2; hnf in Ho2.
  - apply close_then_bal with (o' := next :: o); [apply perm_closed_Rfd| |apply IH; reflexivity].
    eapply perm_trans; [exact Ho2|]. eapply perm_trans; [apply perm_skip, Ho1|apply perm_swap].
  - eapply bal_perm; [apply perm_closed_Rfd|apply Hcl|apply Permutation_sym, Ho2].
Qed.

Theorem root_mkdir_all_bal root path mode o :
  bal (Rfd o) o (root_mkdir_all fz cfg pfuel gh sysctl_ps rs root path mode).
Proof.
  unfold root_mkdir_all.
  destruct (negb _); [constructor; hnf; reflexivity|].
  destruct (negb _); [constructor; hnf; reflexivity|].
  unfold bindR. eapply bal_bind; [apply Hresp|]. intros [l|e] o1 Ho1; [|constructor; exact Ho1]. hnf in Ho1.
  eapply bal_bind.
  { instantiate (1 := fun (r : result (Z * option bytes) ekind) o' =>
                        Permutation o' (match r with Ok (h, _) => h :: o | Err _ => o end)).
    destruct l as [fd|fd rem e]; [constructor; exact Ho1|].
    destruct (match e with OsError n => N.eqb n ENOENT | _ => false end); [constructor; exact Ho1|].
    apply close_ret_bal with (o' := o); [|exact Ho1|reflexivity].
    intros a oa ob H Hp. eapply perm_trans; [apply Permutation_sym, Hp|exact H]. }
  intros [[handle remaining]|e] o2 Ho2; [|constructor; exact Ho2].
  eapply bal_bind; [apply h_reopen_bal|]. intros r o3 Ho3. hnf in Ho3. destruct r as [cur0|e].
  - apply close_then_bal with (o' := cur0 :: o); [apply perm_closed_Rfd| |].
    { eapply perm_trans; [exact Ho3|]. eapply perm_trans; [apply perm_skip, Ho2|apply perm_swap]. }
    destruct (existsb is_dotdot _).
    + apply close_ret_bal with (o' := o); [apply perm_closed_Rfd|reflexivity|hnf; reflexivity].
    + apply mk_parts_bal. reflexivity.
  - eapply bal_bind_same; [apply perm_closed_Rfd|apply frozen_bal|]. intro.
    apply close_ret_bal with (o' := o); [apply perm_closed_Rfd| |hnf; reflexivity].
    eapply perm_trans; [exact Ho3|exact Ho2].
Qed.

End RootBal.
