(* EscapeProofs.v -- C02: where the emulated walk's results come from, for all kernel
   answers (hence for every attacker schedule).  The walk is parametric in the
   check run after a ".." step ([chk]) and in what is done when the component
   queue is empty ([fin]); do_resolve instantiates them with check_current and
   final_check. *)
From PV Require Import Discipline ProgTac PathProofs DisciplineProofs FaultProofs.
Open Scope N_scope.

Definition not_complete (w : wres) : Prop :=
  match r_out w with Ok (Complete _) => False | _ => True end.
Definition chk_fails (chk : Z -> Z -> list bytes -> prog (result unit ekind)) : Prop :=
  forall c r e, rets (fun x => match x with Err _ => True | Ok _ => False end) (chk c r e).

Section Escape.
Variable fz : nat.
Variable ps : N.

Lemma bail_nc st next e : rets not_complete (bail st next e).
Proof.
  unfold bail. eapply okp_bind; [apply rets_any|]. intros _ _.
  eapply okp_bind; [apply rets_any|]. intros r1 _. eapply okp_bind; [apply rets_any|]. intros r2 _.
  constructor. exact I.
Qed.

Lemma ret_partial_nc st next rem e : rets not_complete (ret_partial st next rem e).
Proof.
  unfold ret_partial. eapply okp_bind; [apply rets_any|]. intros _ _.
  eapply okp_bind; [apply rets_any|]. intros r1 _. constructor. exact I.
Qed.

(* 1. the walk never fabricates a completed lookup: every Complete result is produced by [fin] *)
Lemma walk_open_nc chk fin nosym nofollow follow inner remaining rest :
  (forall st, rets not_complete (fin st)) ->
  (forall go, follow = Some go -> forall st cs, rets not_complete (go st cs)) ->
  (forall st, rets not_complete (inner st rest)) ->
  forall st part, rets not_complete (walk_open fz ps chk fin nosym nofollow follow inner remaining rest st part).
Proof.
  intros Hfin Hgo Hinner st part. unfold walk_open.
  destruct (has_slash part); [apply bail_nc|].
  eapply okp_bind; [apply rets_any|]. intros [next|e] _; [|apply ret_partial_nc].
  eapply okp_bind; [apply rets_any|]. intros [u|e] _; [|apply bail_nc].
  eapply okp_bind; [apply rets_any|]. intros [meta|e] _; [|apply bail_nc].
  destruct (negb (is_symlink_mode (st_mode meta))).
  { eapply okp_bind; [apply rets_any|]. intros [[stack' refs']|e] _; [|apply bail_nc].
    eapply okp_bind; [apply rets_any|]. intros st' _. apply Hinner. }
  destruct (is_nil rest && nofollow).
  { eapply okp_bind; [apply rets_any|]. intros st' _. apply Hfin. }
  destruct nosym; [apply ret_partial_nc|].
  eapply okp_bind; [apply rets_any|]. intros [u2|e] _; [|apply bail_nc].
  destruct follow as [go|]; [|apply ret_partial_nc].
  eapply okp_bind; [apply rets_any|]. intros [target|e] _; [|apply bail_nc].
  eapply okp_bind; [apply rets_any|]. intros [[|]|e] _; try apply bail_nc.
  destruct (match w_stack st with
            | Some ss => match ss_swap_link ss part (w_cur st) remaining target with
                         | Ok ss' => Ok (Some ss', rc_inc (w_cur st) (w_refs st)) | Err e => Err e end
            | None => Ok (None, w_refs st) end) as [[stack' refs']|e]; [|apply bail_nc].
  cbn zeta. eapply okp_bind; [apply rets_any|]. intros st2 _.
  eapply okp_bind; [apply rets_any|]. intros _ _. eapply Hgo. reflexivity.
Qed.

Lemma walk_body_nc chk fin nosym nofollow follow :
  (forall st, rets not_complete (fin st)) ->
  (forall go, follow = Some go -> forall st cs, rets not_complete (go st cs)) ->
  forall cs st, rets not_complete (walk_body fz ps chk fin nosym nofollow follow st cs).
Proof.
  intros Hfin Hgo cs. induction cs as [|part0 rest IH]; intro st; cbn [walk_body]; [apply Hfin|]. cbn zeta.
  assert (Hopen : forall st' part, rets not_complete
            (walk_open fz ps chk fin nosym nofollow follow (walk_body fz ps chk fin nosym nofollow follow)
                       (join_slash (part0 :: rest)) rest st' part)).
  { intros. apply walk_open_nc; assumption. }
  destruct (is_nil part0); [apply Hopen|]. destruct (is_dot part0); [apply Hopen|].
  destruct (is_dotdot part0); [|apply Hopen].
  destruct (w_exp st); [|apply Hopen].
  eapply okp_bind; [apply rets_any|]. intros [[stack' refs']|e] _; [|apply bail_nc].
  eapply okp_bind; [apply rets_any|]. intros st' _. apply IH.
Qed.

Theorem walk_gen_nc chk fin budget nosym nofollow :
  (forall st, rets not_complete (fin st)) ->
  forall st cs, rets not_complete (walk_gen fz ps chk fin budget nosym nofollow st cs).
Proof.
  intro Hfin. induction budget as [|bd IH]; intros st cs; cbn [walk_gen].
  - apply walk_body_nc; [exact Hfin|discriminate].
  - apply walk_body_nc; [exact Hfin|]. intros go Hgo. destruct bd; [discriminate|]. inversion Hgo; subst. exact IH.
Qed.

(* 2. final_check completes only when its check passed *)
Theorem final_check_gen_nc chk st : chk_fails chk -> rets not_complete (final_check_gen chk st).
Proof.
  intro Hc. unfold final_check_gen. eapply okp_bind; [apply Hc|]. intros [u|e] Hr; [destruct Hr|apply bail_nc].
Qed.

(* 3. a ".." step is never used unchecked: were the check to fail, the step's
   result would be discarded -- whatever the rest of the walk ([inner], [fin],
   [follow]) would have done with it *)
Theorem dotdot_step_checked chk fin nosym nofollow follow inner remaining rest st :
  chk_fails chk ->
  rets not_complete (walk_open fz ps chk fin nosym nofollow follow inner remaining rest st [DOT; DOT]).
Proof.
  intro Hc. unfold walk_open. change (has_slash [DOT; DOT]) with false. cbn iota.
  eapply okp_bind; [apply rets_any|]. intros [next|e] _; [|apply ret_partial_nc].
  change (is_dotdot [DOT; DOT]) with true. cbn iota.
  eapply okp_bind; [apply Hc|]. intros [u|e] Hr; [destruct Hr|apply bail_nc].
Qed.

End Escape.
