From PV Require Import Dyn BitsProofs PathProofs StaticProofs StaticProcfs ProgTac StaticBal FaultProofs EffectProofs BeneathProofs DynProofs DynMkdir DynMkdirAll.
From PV Require FSModel FSProofs.
From Coq Require Import Lia.
Open Scope N_scope.

(* ---- mkdir_all for EITHER backend, given what its partial lookup returned --------------------------------
   The end-to-end theorem of DynMkdirAll is for the kernel backend because only there the partial lookup is
   characterised by a theorem ([run_k_resolve_partial]).  Everything after the lookup does not depend on the
   backend: whatever [r_resolve_partial] -- emulated or kernel -- returned on the static kernel (a handle on a
   directory [o] and the unresolved rest, error ENOENT), mkdir_all is re-open, then mk_spec from [o] along the rest.
   For the emulated backend the lookup's result is tied by T3 (executed against the library) and C04's
   differential, not proved. *)
Theorem mkdir_all_given_lookup s rp fz pfuel gh ps rs t root path mode t1 h o remaining exp :
  fz <> 0%nat -> closed2 s -> ph_mnt gh = Some PROC_MNT -> ph_openat2 gh = true ->
  N.ldiff mode MKDIR_ALL_MASK1 = 0 -> N.ldiff mode MKDIR_ALL_MASK2 = 0 ->
  run s rp t (r_resolve_partial fz true (S pfuel) gh ps rs root path false) =
    Done t1 (Ok (match remaining with None => Complete h | Some rm => Partial h rm (OsError ENOENT) end)) ->
  tget t1 (ph_fd gh) = Some (PB s) -> tget t1 h = Some o -> (o < PB s)%nat ->
  is_dir s o = true -> find_path s o = Some exp -> N.leb READLINK_BUF (N.of_nat (length (render rp exp))) = false ->
  existsb is_dotdot (parts_of remaining) = false -> (forall x, remaining = Some x -> has_nul x = false) ->
  exists t',
    match snd (mk_spec s o (parts_of remaining)) with
    | inl c => exists fd,
        Dyn.drun rp {| ds := s; dt := t; dseen := [] |} (root_mkdir_all fz true (S pfuel) gh ps rs root path mode) =
          DDone {| ds := fst (mk_spec s o (parts_of remaining)); dt := t'; dseen := [] |} (Ok fd) /\ tget t' fd = Some c /\
        (forall x, indom t' x -> x = fd \/ (indom t1 x /\ x <> h))
    | inr e =>
        Dyn.drun rp {| ds := s; dt := t; dseen := [] |} (root_mkdir_all fz true (S pfuel) gh ps rs root path mode) =
          DDone {| ds := fst (mk_spec s o (parts_of remaining)); dt := t'; dseen := [] |} (Err (OsError e)) /\
        (forall x, indom t' x -> indom t1 x /\ x <> h)
    end.
Proof.
  intros Hfz Hc2 Hmnt Ho2 Hm1 Hm2 Hlook Hproc1 Hh Holt Hdir Hpath Hshort Hdd Hnulr.
  destruct (after_partial s rp fz pfuel gh Hfz Hc2 Hmnt Ho2 t1 h o remaining exp mode Hproc1 Hh Holt Hdir Hpath Hshort Hdd Hnulr) as (t' & Hres).
  exists t'.
  assert (Hpre : Dyn.drun rp {| ds := s; dt := t; dseen := [] |} (root_mkdir_all fz true (S pfuel) gh ps rs root path mode) =
                 Dyn.drun rp {| ds := s; dt := t1; dseen := [] |}
                   (r <- h_reopen fz true (S pfuel) gh h MKDIR_ALL_REOPEN_FLAGS ;;
                    match r with
                    | Err e => frozen fz h ;;; close h ;;; Ret (Err e)
                    | Ok current0 =>
                        close h ;;;
                        let parts := filter (fun p => negb (noop_part p)) (match remaining with Some rm => raw_components rm | None => [] end) in
                        if existsb is_dotdot parts then close current0 ;;; Ret (Err (OsError ENOENT)) else mk_parts fz mode parts current0
                    end)).
  { rewrite (root_mkdir_all_loop fz true (S pfuel) gh ps rs root path mode). rewrite Hm1, Hm2.
    change (negb (N.eqb 0 0)) with false. cbv iota.
    unfold bindR at 1. rewrite drun_bind.
    rewrite (drun_static rp _ (r_resolve_partial_ne fz true (S pfuel) gh ps rs root path false) s t _ _ Hlook). cbv iota.
    destruct remaining as [rm|]; cbv iota; [change (N.eqb ENOENT ENOENT) with true; cbv iota|]; rewrite drun_bind; reflexivity. }
  destruct (snd (mk_spec s o (parts_of remaining))) as [c|e].
  - destruct Hres as (fd & Hrun & Hfd & Hdom). exists fd. split; [rewrite Hpre; exact Hrun|]. split; [exact Hfd|exact Hdom].
  - destruct Hres as (Hrun & Hdom). split; [rewrite Hpre; exact Hrun|exact Hdom].
Qed.
