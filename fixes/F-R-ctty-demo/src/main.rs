use pathrs::{flags::OpenFlags, Root};
use std::ffi::CStr;
fn has_ctty() -> bool {
    let fd = unsafe { libc::open(b"/dev/tty\0".as_ptr() as *const _, libc::O_RDWR | libc::O_NOCTTY) };
    if fd >= 0 { unsafe { libc::close(fd) }; true } else { false }
}
fn main() {
    unsafe {
        let pid = libc::fork();
        if pid == 0 {
            // new session: no controlling terminal
            libc::setsid();
            assert!(!has_ctty(), "fresh session must have no controlling terminal");
            let m = libc::posix_openpt(libc::O_RDWR | libc::O_NOCTTY);
            assert!(m >= 0);
            libc::grantpt(m);
            libc::unlockpt(m);
            let name = CStr::from_ptr(libc::ptsname(m)).to_str().unwrap().to_string(); // /dev/pts/N
            let n = name.rsplit('/').next().unwrap().to_string();
            let root = Root::open("/dev/pts").expect("root");
            let f = root.open_subpath(&n, OpenFlags::O_RDWR).expect("open_subpath");
            let got = has_ctty();
            println!("open_subpath({:?}, O_RDWR) ok; process now has a controlling terminal: {}", name, got);
            drop(f);
            libc::_exit(if got { 1 } else { 0 });
        }
        let mut st = 0;
        libc::waitpid(pid, &mut st, 0);
        std::process::exit(libc::WEXITSTATUS(st));
    }
}
